\* C17 trace validation, strict: the behaviour stops at the first unmatched line
SPECIFICATION Spec
CONSTANTS
  Mode = "swap"
  Collect = FALSE
CONSTRAINT Track
POSTCONDITION Accepted
CHECK_DEADLOCK FALSE
