\* C18 quick: bounded-exhaustive case enumeration (see MC_Socks.tla)
SPECIFICATION Spec
CONSTANTS
  CmdPort <- CmdPortQ
  DomShort = {0, 1, 2}
  DomLong = {254, 255}
  Fill5 = {97, 0}
  UidShort = {0, 1, 2}
  UidLong = {255}
  BadAtyp = {0, 2, 5, 255}
  BadVer = {0, 4, 6, 255}
  BadRsv = {1, 255}
  Ports = {0, 80, 65535, 4660}
  PayLong = {64}
  Reps = {0, 1, 2, 3, 4, 5, 6, 7, 8, 9, 255}
INVARIANTS TypeOK Laws UdpTheorem Emit
CHECK_DEADLOCK FALSE
