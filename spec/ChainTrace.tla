----------------------------- MODULE ChainTrace -----------------------------
(***************************************************************************)
(* Trace specification of C20: validates the ndjson log written by         *)
(* harness/src/bin/chain_vec.rs (events observed on the real               *)
(* cow_bytes::LongChain / CowBytes) against spec/Chain.tla.                 *)
(*                                                                         *)
(* One action per event kind; a line is matched iff the postcondition of   *)
(* the property holds on the OBSERVED values it carries:                   *)
(*   init  the freshly built chain shows exactly the requested chunks      *)
(*   op    Post(op, observed value before, observed value after, returned, *)
(*         outcome) for the borrowed run (T) and for the owned run (S),    *)
(*         and the two runs agree field by field.  The operations are the  *)
(*         inherent ones, Buf::advance and the consuming methods of        *)
(*         bytes::Buf (copy_to_bytes, copy_to_slice, get_u8, get_u16);     *)
(*         every observed value carries the observing methods of Buf       *)
(*         (remaining, chunk, has_remaining, chunks_vectored), see WF      *)
(*   cow1  every accessor / hash / formatting / positional operation       *)
(*         (split_to, split_off, truncate, advance, io::Read::read,        *)
(*         Buf::copy_to_bytes, Buf::copy_to_slice) and Buf::get_u8 /       *)
(*         get_u16 of a CowBytes equals what TLA+ computes on the plain    *)
(*         byte string, for both variants                                  *)
(*   cow2  equality and order of two CowBytes (all variant pairs) and      *)
(*         against [u8], Bytes, Vec<u8>, &[u8; N] equal the lexicographic   *)
(*         comparison of the plain strings                                 *)
(* Every event line is self-contained (it carries the value observed       *)
(* before the operation), so the log may be deduplicated.                  *)
(*                                                                         *)
(* Unlike MuxTrace a line that does not match does not end the search: it  *)
(* is recorded (register 3, and a `REJ` line with its stable signature),   *)
(* and validation goes on, so one TLC run finds every rejected line.       *)
(* Acceptance: POSTCONDITION Accepted -- the last line was reached and no  *)
(* line was rejected; otherwise the first unmatched line is printed.       *)
(***************************************************************************)
EXTENDS Chain, IOUtils

Rec == ndJsonDeserialize(IOEnv.TRACE)

VARIABLES l

tvars == <<l, init, c, n, hist, last>>

R == Rec[l]
V == {"T", "S"}

OpOf(r) == [op |-> r.op, i |-> r.i, x |-> r.x]

(* ------------------------------------------------------------------ *)
InitOk(r) ==
  /\ \A v \in V : /\ r[v].out = "ok"
                  /\ WF(r[v].a)
                  /\ r[v].a.ch = r.init
  /\ r.T = r.S

PostBoth(r) == \A v \in V : Post(OpOf(r), r[v].b, r[v].a, r[v].ret, r[v].out)

(* borrowed and owned agree: on the value before, and -- whenever the property fixes the outcome, i.e.
   for in-range arguments -- on every logged field.  For an out-of-range argument the property allows
   a panic or an unchanged value independently for each variant.                                  *)
Agree(r) ==
  /\ r.T.b = r.S.b
  /\ InRange(OpOf(r), r.T.b) => r.T = r.S

OpOk(r) == r.op \in OpNames /\ PostBoth(r) /\ Agree(r)

CowOps == CowPosOps \cup GetOps

(* `chk`: the positional operations whose outcome is checked (all of CowOps, except when classifying) *)
Cow1Var(u, X, hs, chk) ==
  /\ u.len = Len(X) /\ u.empty = (X = <<>>) /\ u.rem = Len(X)
  /\ u.as_ref = X /\ u.deref = X /\ u.borrow = X /\ u.chunk = X
  /\ u.has = (X # <<>>)                                  \* Buf::has_remaining
  /\ u.iov_err = "" /\ IovOk(u.iov, u.iov0, IovCap, X)   \* Buf::chunks_vectored
  /\ u.clone = X /\ u.clone_eq /\ u.into_static = X
  /\ u.lhex = Hex(X, HexDigitsL) /\ u.uhex = Hex(X, HexDigitsU)
  /\ u.hash = hs                                        \* Borrow<[u8]> contract: hashes like the slice
  (* every positional operation at every position 0 .. len + 1 and every get operation was logged, and
     behaves like the plain string *)
  /\ {<<u.ops[k].op, u.ops[k].p>> : k \in 1 .. Len(u.ops)} = (CowPosOps \X (0 .. Len(X) + 1)) \cup (GetOps \X {0})
  /\ \A k \in 1 .. Len(u.ops) :
        u.ops[k].op \in chk =>
          /\ CowOpPost(u.ops[k].op, X, u.ops[k].p, u.ops[k])
          /\ u.ops[k].out = "ok" => u.ops[k].len = Len(u.ops[k].self)

Cow1With(r, chk) ==
  /\ \A v \in V : Cow1Var(r[v], r.x, r.hash_slice, chk)
  /\ r.T.hash = r.S.hash
  /\ r.default_len = 0
  /\ Len(r.T.ops) = Len(r.S.ops)
  /\ \A k \in 1 .. Len(r.T.ops) :
        CowInRange(r.T.ops[k].op, r.x, r.T.ops[k].p) => r.T.ops[k] = r.S.ops[k]

Cow1Ok(r) == Cow1With(r, CowOps)

BoolStr(b) == IF b THEN "true" ELSE "false"

Cow2Ok(r) ==
  LET X == r.x
      Y == r.y
      cmp == LexCmp(X, Y)
  IN /\ \A p \in {"TT", "TS", "ST", "SS"} :
          /\ r[p].eq = (X = Y) /\ r[p].ne = (X # Y)
          /\ r[p].cmp = cmp
          /\ r[p].lt = (cmp = "lt") /\ r[p].le = (cmp \in {"lt", "eq"})
          /\ r[p].gt = (cmp = "gt") /\ r[p].ge = (cmp \in {"gt", "eq"})
     /\ \A v \in V :
          /\ r[v].eq_slice = (X = Y) /\ r[v].eq_bytes = (X = Y) /\ r[v].eq_vec = (X = Y)
          /\ r[v].cmp_slice = cmp /\ r[v].cmp_bytes = cmp
          /\ r[v].eq_arr = (IF Len(Y) <= 3 THEN BoolStr(X = Y) ELSE "na")

Ok(r) ==
  CASE r.ev = "init" -> InitOk(r)
    [] r.ev = "op"   -> OpOk(r)
    [] r.ev = "cow1" -> Cow1Ok(r)
    [] r.ev = "cow2" -> Cow2Ok(r)
    [] r.ev = "seq"  -> TRUE          \* index line of the harness (which events form which sequence)
    [] OTHER -> FALSE

(* stable signature of a rejected line *)
Sig(r) ==
  CASE r.ev = "op" ->
         IF r.op \notin OpNames THEN "other:unknown_op"
         ELSE IF ~Post(OpOf(r), r.T.b, r.T.a, r.T.ret, r.T.out) THEN SigOf(OpOf(r), r.T.b)
         ELSE IF ~Post(OpOf(r), r.S.b, r.S.a, r.S.ret, r.S.out) THEN SigOf(OpOf(r), r.S.b)
         ELSE "variant:" \o r.op
    [] r.ev = "init" -> "other:init"
    [] r.ev = "cow1" -> IF Cow1With(r, CowOps \ {"read"}) THEN "other:cow_read" ELSE "other:cow1"
    [] r.ev = "cow2" -> "other:cow2"
    [] OTHER -> "other:unknown_event"

(* what the property demands for the unmatched line (diagnosis) *)
Expected(r) ==
  IF r.ev # "op" \/ r.op \notin OpNames THEN [demand |-> "see spec/ChainTrace.tla: " \o r.ev]
  ELSE IF ~WF(r.T.b) THEN [demand |-> "the value before the operation is already malformed"]
  ELSE IF InRange(OpOf(r), r.T.b)
       THEN [demand |-> "in-range argument: outcome ok, well-formed value with these bytes",
             bytes_after |-> PlainAfter(OpOf(r), r.T.b),
             canonical |-> ApplyFixed(OpOf(r), r.T.b.ch, r.T.b.len)]
       ELSE [demand |-> "out-of-range argument: panic, or value exactly unchanged",
             unchanged |-> r.T.b]

(* ------------------------------------------------------------------ *)
TraceInit == /\ l = 1
                /\ init = <<>> /\ c = <<>> /\ n = 0 /\ hist = <<>> /\ last = NoLast
                /\ TLCSet(1, 1) /\ TLCSet(3, <<>>)

Is(ev) == l <= Len(Rec) /\ R.ev = ev /\ l' = l + 1 /\ UNCHANGED vars

TInit == Is("init") /\ InitOk(R)
TOp   == Is("op")   /\ OpOk(R)
TCow1 == /\ Is("cow1") /\ Cow1Ok(R)
         /\ (\E k \in 1 .. Len(R.T.ops) : ReadNotConsumed(R.T.ops[k].op, R.x, R.T.ops[k].p, R.T.ops[k]))
               => PrintT(<<"NOTE", l, R.id, "cow_read_not_consumed">>)
TCow2 == Is("cow2") /\ Cow2Ok(R)
TSeq  == Is("seq")

(* the line is not matched by the property: record it and go on *)
TReject ==
  /\ l <= Len(Rec)
  /\ ~Ok(R)
  /\ LET s == Sig(R) IN
       /\ PrintT(<<"REJ", l, R.id, s>>)
       /\ TLCSet(3, Append(TLCGet(3), l))
  /\ l' = l + 1 /\ UNCHANGED vars

TraceNext == TInit \/ TOp \/ TCow1 \/ TCow2 \/ TSeq \/ TReject

TraceSpec == TraceInit /\ [][TraceNext]_tvars

(* progress register: the furthest line reached (workers 1) *)
Track == IF TLCGet(1) < l THEN TLCSet(1, l) ELSE TRUE

Accepted ==
  \/ /\ TLCGet(1) = Len(Rec) + 1
     /\ TLCGet(3) = <<>>
     /\ PrintT(<<"ACCEPTED", Len(Rec)>>)
  \/ /\ LET bad == IF TLCGet(3) # <<>> THEN TLCGet(3)[1] ELSE TLCGet(1) IN
        /\ PrintT(<<"REJECTED at line", bad, "of", Len(Rec)>>)
        /\ PrintT(<<"REJECTED lines", Len(TLCGet(3)), "reached", TLCGet(1)>>)
        /\ (bad <= Len(Rec) => PrintT(<<"UNMATCHED", ToJson(Rec[bad])>>))
        /\ (bad <= Len(Rec) => PrintT(<<"EXPECTED", ToJson(Expected(Rec[bad]))>>))
     /\ FALSE
=============================================================================
