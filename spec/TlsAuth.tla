------------------------------- MODULE TlsAuth -------------------------------
(***************************************************************************)
(* Property C17: TLS peers are authenticated exactly as configured.        *)
(*                                                                         *)
(* This is a THIN use of TLA+: (a) a decision table and (b) a small state  *)
(* machine, both written from the text of the property (not from the code) *)
(* and used by TLC as the reference decision procedure for handshakes run  *)
(* on the real code (harness_app/src/bin/tls_matrix.rs, validated by       *)
(* spec/TlsTrace.tla).  The cryptography itself (signatures, chain         *)
(* building, name matching) is trusted to rustls / webpki / rcgen.         *)
(*                                                                         *)
(* (a) The matrix.  The client is given ONE set of roots: the CA called    *)
(*     "trusted".  A server with a client CA is given that same CA.        *)
(*                                                                         *)
(*       serverCert      who issued the certificate the server presents    *)
(*       nameMatches     the certificate is valid for the requested name   *)
(*       skipVerify      the client was explicitly told to skip            *)
(*                       verification                                      *)
(*       clientCert      what the client presents if asked                 *)
(*       serverClientCA  the server was configured with a client CA        *)
(*                                                                         *)
(*     "A client reaches a wss server only if the server's certificate     *)
(*      chain validates against the roots the client was given and matches *)
(*      the requested server name, unless the client was explicitly told   *)
(*      to skip verification, in which case any certificate is accepted."  *)
(*                                                     -> ClientAccepts    *)
(*     "A server configured with a client CA completes the handshake only  *)
(*      with clients presenting a certificate issued under that CA, a      *)
(*      server without one never asks for a certificate"                   *)
(*                                  -> ServerAccepts, ServerAsksForCert    *)
(*                                                                         *)
(*     When both sides would reject, the property does not say which one   *)
(*     is observed to do so (it depends on the order of the handshake      *)
(*     messages of the protocol version): the expectation is the SET       *)
(*     {"clientRejects", "serverRejects"}.                                 *)
(*                                                                         *)
(* (b) Identity reload.  "replacing the server identity at run time        *)
(*     changes what later handshakes see without disturbing established    *)
(*     connections" -> the machine Connect / Reload / Use(c) below with    *)
(*     the invariants Fresh and Undisturbed.  Mode = "swap" is what the    *)
(*     property demands; the other modes are negative controls (models of  *)
(*     wrong implementations on which TLC must find the invariants         *)
(*     violated, so that the invariants are known not to be vacuous).      *)
(*     "TLS peers are authenticated exactly as configured" holds across a  *)
(*     reload as well: the reload replaces certificate and key, not the    *)
(*     client CA -> ConfigKept, Authenticated (negative control "dropca":  *)
(*     a reload that forgets the client CA).                               *)
(*     WHICH client CA a reload puts in force is part of "replacing the    *)
(*     server identity at run time changes what later handshakes see":     *)
(*     the operator may replace the CA bundle IN PLACE (same path, a new   *)
(*     generation of the CA: Rotate) and reload.  The configured CA is the *)
(*     pair (wantCA, wantGen); the CA in force (liveCA, liveGen) follows   *)
(*     at the next reload and not before -> CAFollows, JudgedAsConfigured, *)
(*     Authenticated (negative controls "staleca": the reload keeps the CA *)
(*     it read first; "eagerca": the rotation is in force before any       *)
(*     reload).                                                            *)
(*     A reload may also FAIL (the operator signals while the files cannot *)
(*     be loaded: BotchedReload): nothing was replaced, so nothing changes *)
(*     - and the next replacement still "changes what later handshakes     *)
(*     see" (negative control "deaf": after a failed reload the server     *)
(*     does not react to reload requests any more).                        *)
(*     One cause of a failed reload concerns client authentication itself: *)
(*     the client-CA BUNDLE at the configured path is UNUSABLE when it is  *)
(*     read (empty, cut short, a key instead of a certificate, garbage).   *)
(*     "A server configured with a client CA completes the handshake only  *)
(*     with clients presenting a certificate issued under that CA": a      *)
(*     bundle that yields no CA is not "no client CA configured".  Such a  *)
(*     reload fails like any other (BotchedReloadCA: nothing changes, the  *)
(*     client CA in force stays, a client without a certificate or with a  *)
(*     foreign one is still refused), and a server STARTED on such a       *)
(*     bundle does not come up open (BotchedStart) -> ConfigKept,          *)
(*     Authenticated, JudgedAsConfigured (negative control "openonbadca":  *)
(*     an unusable bundle turns client authentication off).                *)
(*     RETURNING CLIENTS THAT RESUME.  A client that keeps its TLS state   *)
(*     across connections holds TICKETS (TLS 1.3 tickets, TLS 1.2 session  *)
(*     ids): each was issued by an admitted handshake under one server     *)
(*     configuration (identity `ver`, client-CA generation `gen`) and      *)
(*     carries the peer certificates of THAT handshake.  A later connect   *)
(*     may OFFER tickets; a server that honours one shortcuts: no          *)
(*     certificate is exchanged, nobody is judged again, both ends report  *)
(*     the certificates stored with the session.  "changes what later      *)
(*     handshakes see" and "authenticated exactly as configured" speak of  *)
(*     EVERY later handshake, whether or not it offers a ticket: a ticket  *)
(*     may be honoured only if the configuration in force issued it (then  *)
(*     the shortcut changes nothing: same identity, same judgement);       *)
(*     a ticket from before a reload is worth nothing -> ConnectWith,      *)
(*     Honours, Fresh, Authenticated, JudgedAsConfigured (now over every   *)
(*     offer a client could make), TicketsOfThisConfiguration (negative    *)
(*     control "sharedcache": the server honours tickets of any earlier    *)
(*     configuration, e.g. one session cache for the life of the process). *)
(*                                                                         *)
(* (c) Roots of the client replaced in place.  "validates against the      *)
(*     roots the client was given": the roots are a FILE the client was    *)
(*     pointed at; every connection is validated against what that file    *)
(*     holds when the connection is made -> the machine CConnect /         *)
(*     CRotate with the invariant ClientFollowsRoots (negative control     *)
(*     "staleroots": the client keeps the roots it read first).            *)
(***************************************************************************)
EXTENDS Naturals, Sequences, FiniteSets, TLC

(* ------------------------------ (a) decision table ------------------------------ *)
ServerCerts == {"trustedCA", "otherCA", "selfSigned"}
ClientCerts == {"none", "trustedCA", "otherCA"}
ClientCAs   == {"configured", "none"}
Outcomes    == {"ok", "clientRejects", "serverRejects"}

Cases == [serverCert : ServerCerts, nameMatches : BOOLEAN, skipVerify : BOOLEAN,
          clientCert : ClientCerts, serverClientCA : ClientCAs]

\* the client is satisfied with the server
ClientAccepts(k) == k.skipVerify \/ (k.serverCert = "trustedCA" /\ k.nameMatches)
\* the server is satisfied with the client
ServerAccepts(k) == k.serverClientCA = "none" \/ k.clientCert = "trustedCA"
\* a CertificateRequest is sent
ServerAsksForCert(k) == k.serverClientCA = "configured"

Expected(k) ==
  CASE ClientAccepts(k) /\ ServerAccepts(k)   -> {"ok"}
    [] ~ClientAccepts(k) /\ ServerAccepts(k)  -> {"clientRejects"}
    [] ClientAccepts(k) /\ ~ServerAccepts(k)  -> {"serverRejects"}
    [] OTHER                                  -> {"clientRejects", "serverRejects"}

\* the table in the form of the task statement
Outcome(serverCert, nameMatches, skipVerify, clientCert, serverClientCA) ==
  Expected([serverCert |-> serverCert, nameMatches |-> nameMatches, skipVerify |-> skipVerify,
            clientCert |-> clientCert, serverClientCA |-> serverClientCA])

\* ---- laws of the table (evaluated once by TLC when the module is loaded) ----
ASSUME FullMatrix == Cardinality(Cases) = 72
ASSUME Total == \A k \in Cases : Expected(k) # {} /\ Expected(k) \subseteq Outcomes
\* "reaches only if": success is never one of several allowed outcomes
ASSUME OkIsExact == \A k \in Cases : "ok" \in Expected(k) => Expected(k) = {"ok"}
\* "in which case any certificate is accepted"
ASSUME SkipAcceptsAny == \A k \in Cases : k.skipVerify => "clientRejects" \notin Expected(k)
\* without skip-verify only the trusted chain with the right name gets through
ASSUME VerifyIsStrict ==
  \A k \in Cases : (~k.skipVerify /\ "ok" \in Expected(k)) => (k.serverCert = "trustedCA" /\ k.nameMatches)
\* "a server without one never asks for a certificate": what the client holds is irrelevant
ASSUME NoCaIgnoresClientCert ==
  \A k \in Cases : k.serverClientCA = "none" =>
      \A cc \in ClientCerts : Expected([k EXCEPT !.clientCert = cc]) = Expected(k)
ASSUME CaIsStrict ==
  \A k \in Cases : (k.serverClientCA = "configured" /\ "ok" \in Expected(k)) => k.clientCert = "trustedCA"
\* 42 of 72 satisfy the client, 4 of 6 (clientCert, serverClientCA) pairs satisfy the server
ASSUME Counts ==
  /\ Cardinality({k \in Cases : Expected(k) = {"ok"}}) = 28
  /\ Cardinality({k \in Cases : Expected(k) = {"clientRejects"}}) = 20
  /\ Cardinality({k \in Cases : Expected(k) = {"serverRejects"}}) = 14
  /\ Cardinality({k \in Cases : Expected(k) = {"clientRejects", "serverRejects"}}) = 10

(* ------------------------------ (b) identity reload ------------------------------ *)
(* The reload replaces the server's certificate and key and RE-READS the client CA bundle at the configured *)
(* path.  Whether the server demands client certificates (--tls-ca given or not) is part of its              *)
(* configuration and a reload keeps it: "peers are authenticated exactly as configured", before and after a   *)
(* reload.  The content of the bundle may be replaced in place by the operator (Rotate: generation g+1 of the *)
(* client CA at the same path); it takes effect at the next reload.  The machine therefore carries            *)
(*   wantCA   whether the operator configured a client CA (never changes)                                     *)
(*   wantGen  the generation of the CA bundle at the configured path (number of rotations so far)             *)
(*   liveCA / liveGen   the client CA of the identity a handshake that starts now is served with              *)
(*   dueGen   (ghost) the generation that was at the path when the identity was (re)loaded last: the one the   *)
(*            property demands to be in force                                                                 *)
(* and a handshake of the machine is a cell of the matrix above: the identities are issued by the trusted CA  *)
(* for the requested name, the client verifies, presents `cc`, and the server's client CA is liveCA in        *)
(* generation liveGen.  A client certificate is "none", "otherCA" (a CA that never was configured) or one of   *)
(* the generations of the configured CA: GenName(0) = "trustedCA", GenName(g) = "gen<g>".  Relative to a CA    *)
(* generation g in force, a certificate of generation g is the cell's "trustedCA", one of any other            *)
(* generation (retired, or not loaded yet) the cell's "otherCA".                                              *)
CONSTANT Mode       \* "swap" (the property) | negative controls: "stale" | "inplace" | "disconnect" | "dropca" |
                    \* "staleca" | "eagerca" | "deaf" | "staleroots" | "sharedcache" | "openonbadca"
ASSUME Mode \in {"swap", "stale", "inplace", "disconnect", "dropca", "staleca", "eagerca", "deaf", "staleroots",
                 "sharedcache", "openonbadca"}

VARIABLES
  identityVersion,  \* the identity the operator installed last (number of reloads so far)
  live,             \* the identity a handshake that starts now is served with
  conns,            \* established connections: born = identityVersion when it handshook, ver = the identity it
                    \* handshook with, cfg = the identity its session refers to now, alive, cc = the client
                    \* certificate it presented (would present if asked), gen = dueGen when it handshook
  wantCA,           \* "configured" | "none": the server's client CA as configured by the operator
  liveCA,           \* the client CA in force for a handshake that starts now
  wantGen,          \* generation of the client CA bundle at the configured path
  liveGen,          \* generation of the client CA in force for a handshake that starts now
  dueGen,           \* generation at the path at the last (re)load
  botched,          \* number of reload requests so far that failed (the files could not be loaded)
  tickets,          \* the tickets clients hold: cc = the client (certificate) that holds it, ver = the identity the issuing
                    \* handshake was served with (the server certificate stored with the session), gen = the generation of the
                    \* client CA in force then
  \* (c) the client side
  rootsGen,         \* generation of the roots file the client is pointed at
  rootsRead,        \* {} or {g}: the generation the client process read first (only "staleroots" looks at it)
  cseen             \* the client's connections so far: srv = who issued the server's certificate, roots = rootsGen
                    \* when it was made, ok = the client was satisfied

svars == <<identityVersion, live, conns, wantCA, liveCA, wantGen, liveGen, dueGen, botched, tickets>>
cvars == <<rootsGen, rootsRead, cseen>>
mvars == <<identityVersion, live, conns, wantCA, liveCA, wantGen, liveGen, dueGen, botched, tickets, rootsGen, rootsRead,
           cseen>>

CAOf(mtls) == IF mtls = TRUE THEN "configured" ELSE "none"

\* ---- generations of a CA ----
GenName(g) == IF g = 0 THEN "trustedCA" ELSE "gen" \o ToString(g)
GenNames(n) == {GenName(g) : g \in 0 .. n}
IsGen(x, n) == \E g \in 0 .. n : GenName(g) = x
GenOf(x, n) == CHOOSE g \in 0 .. n : GenName(g) = x
\* what a client may present to the server now: nothing, a certificate of a CA that was never configured, or one of
\* the generations that exist
Presentable == {"none", "otherCA"} \cup GenNames(wantGen)
\* the certificate `cc` as the decision table sees it when generation `gen` of the client CA is in force
CellCert(cc, gen) == IF cc \in {"none", "otherCA"} THEN cc
                     ELSE IF IsGen(cc, wantGen) /\ GenOf(cc, wantGen) = gen THEN "trustedCA" ELSE "otherCA"

CInit == rootsGen = 0 /\ rootsRead = {} /\ cseen = <<>>
MInitWith(ca) == /\ identityVersion = 0 /\ live = 0 /\ conns = <<>> /\ wantCA = ca /\ liveCA = ca
                 /\ wantGen = 0 /\ liveGen = 0 /\ dueGen = 0 /\ botched = 0 /\ tickets = {}
                 /\ CInit
MInit == MInitWith("none")

\* a handshake of the reload machine as a cell of the matrix
HandshakeCell(cc, ca) == [serverCert |-> "trustedCA", nameMatches |-> TRUE, skipVerify |-> FALSE,
                          clientCert |-> cc, serverClientCA |-> ca]
\* ... of a client presenting cc to a server whose client CA is `ca` in generation `gen`
HandshakeCellG(cc, ca, gen) == HandshakeCell(CellCert(cc, gen), ca)
\* the certificate a client that was set up for this server presents
RightCert == IF wantCA = "configured" THEN GenName(dueGen) ELSE "none"
\* what a handshake presenting cc that starts now must end in (a set, as in the table), and whether it is established
HandshakeOutcome(cc) == Expected(HandshakeCellG(cc, liveCA, liveGen))
Admitted(cc) == HandshakeOutcome(cc) = {"ok"}
\* what the CONFIGURATION (as of the last reload) demands of that handshake
DueOutcome(cc) == Expected(HandshakeCellG(cc, wantCA, dueGen))

\* ---- tickets ----
\* the tickets the client `cc` holds (a client is identified with the certificate it presents; one that keeps no TLS
\* state across connections - the application's own tls_connect - never holds any)
Held(cc) == {t \in tickets : t.cc = cc}
\* the server honours ticket t in a handshake that starts now.  The property: only the configuration in force can have
\* issued a ticket that is worth anything (the identity serving now and the client CA in force now are the ticket's).
\* (negative control "sharedcache": whatever an earlier configuration of this process issued is honoured)
Honours(t) == IF Mode = "sharedcache" THEN TRUE ELSE t.ver = live /\ t.gen = liveGen
Usable(offer) == {t \in offer : Honours(t)}
\* what a handshake of `cc` offering the tickets `offer` that starts now must end in: a resumption is established without
\* anybody being judged; otherwise the full handshake decides
OutcomeWith(cc, offer) == IF Usable(offer) # {} THEN {"ok"} ELSE HandshakeOutcome(cc)
AdmittedWith(cc, offer) == OutcomeWith(cc, offer) = {"ok"}
TicketNow(cc) == [cc |-> cc, ver |-> live, gen |-> liveGen]

\* A client presenting cc connects, offering the tickets `offer` (a subset of what it holds); keep = it keeps its TLS state
\* (it will hold the tickets of this handshake afterwards).
\*  - full handshake: established iff the table says "ok" (a refused handshake leaves no trace); the client sees the
\*    identity serving now; the server MAY always decline a ticket and do this
\*  - resumption with a ticket t the server honours: established; the client "sees" the server certificate stored with the
\*    session (t.ver), the server does not look at the client's certificate again; the tickets issued by the resumed
\*    session carry the same stored certificates (t itself)
ConnectWith(cc, offer, keep) ==
  /\ cc \in Presentable
  /\ offer \subseteq Held(cc)
  /\ \/ /\ conns' = IF Admitted(cc)
                     THEN Append(conns, [born |-> identityVersion, ver |-> live, cfg |-> live, alive |-> TRUE, cc |-> cc,
                                         gen |-> dueGen])
                     ELSE conns
        /\ tickets' = IF Admitted(cc) /\ keep THEN tickets \cup {TicketNow(cc)} ELSE tickets
     \/ \E t \in Usable(offer) :
          /\ conns' = Append(conns, [born |-> identityVersion, ver |-> t.ver, cfg |-> t.ver, alive |-> TRUE, cc |-> cc,
                                     gen |-> dueGen])
          /\ tickets' = tickets
  /\ UNCHANGED <<identityVersion, live, wantCA, liveCA, wantGen, liveGen, dueGen, botched>>
  /\ UNCHANGED cvars

\* a client that keeps no TLS state connects: it has nothing to offer and remembers nothing
ConnectAs(cc) == ConnectWith(cc, {}, FALSE)
\* a returning client connects: it offers what it holds and keeps what it gets
ConnectReturning(cc) == ConnectWith(cc, Held(cc), TRUE)

\* the client that was set up for this server connects (always admitted when the configuration is kept)
Connect == ConnectAs(RightCert)

\* the operator overwrites the client CA bundle in place with the next generation of the CA; nothing is reloaded
Rotate ==
  /\ wantCA = "configured"
  /\ wantGen' = wantGen + 1
  /\ liveGen' = IF Mode = "eagerca" THEN wantGen + 1 ELSE liveGen
  /\ UNCHANGED <<identityVersion, live, conns, wantCA, liveCA, dueGen, botched, tickets>>
  /\ UNCHANGED cvars

\* a reload is requested while the files at the configured paths cannot be loaded (an incomplete renewal): nothing is
\* replaced, the identity installed last keeps serving, established connections are not touched
BotchedReload ==
  /\ botched' = botched + 1
  /\ UNCHANGED <<identityVersion, live, conns, wantCA, liveCA, wantGen, liveGen, dueGen, tickets>>
  /\ UNCHANGED cvars

\* The client-CA bundle at the configured path is UNUSABLE when the server reads it (it yields no CA certificate).  The server
\* was configured with a client CA: it must not conclude that there is none.
\* (negative control "openonbadca": a bundle without a usable certificate turns client authentication off)
BadCA == /\ wantCA = "configured"
         /\ liveCA' = IF Mode = "openonbadca" THEN "none" ELSE liveCA
\* ... at a reload request: the reload fails like any other failed reload - the identity AND the client CA installed last stay
\* in force (the operator restores the bundle - the same generation - before the next reload)
BotchedReloadCA ==
  /\ BadCA
  /\ botched' = botched + 1
  /\ UNCHANGED <<identityVersion, live, conns, wantCA, wantGen, liveGen, dueGen, tickets>>
  /\ UNCHANGED cvars
\* ... at start-up: the server refuses to start (the operator repairs the bundle and starts it: this very state), or it comes
\* up demanding certificates under the configured CA all the same; in no case is it a server without client authentication
BotchedStart ==
  /\ BadCA
  /\ identityVersion = 0 /\ conns = <<>> /\ botched = 0
  /\ UNCHANGED <<identityVersion, live, conns, wantCA, wantGen, liveGen, dueGen, botched, tickets>>
  /\ UNCHANGED cvars

\* (negative control "deaf": the first failed reload was the last one the server reacted to)
Deaf == Mode = "deaf" /\ botched > 0

Reload ==
  /\ identityVersion' = identityVersion + 1
  /\ live' = IF Mode = "stale" \/ Deaf THEN live ELSE identityVersion + 1
  /\ conns' = CASE Mode = "inplace"    -> [c \in DOMAIN conns |-> [conns[c] EXCEPT !.cfg = identityVersion + 1]]
                [] Mode = "disconnect" -> [c \in DOMAIN conns |-> [conns[c] EXCEPT !.alive = FALSE]]
                [] OTHER               -> conns
  \* certificate and key are replaced, the client CA bundle is read again, the rest of the configuration is kept
  /\ liveCA' = IF Mode = "dropca" THEN "none" ELSE liveCA
  /\ liveGen' = IF Mode = "staleca" \/ Deaf THEN liveGen ELSE wantGen
  /\ dueGen' = wantGen
  \* the clients keep what they hold; what it is worth afterwards is Honours'
  /\ UNCHANGED <<wantCA, wantGen, botched, tickets>>
  /\ UNCHANGED cvars

\* using an established connection changes nothing; what is observed: Works(c), Sees(c)
Use(c) == c \in DOMAIN conns /\ UNCHANGED mvars
Works(c) == conns[c].alive
Sees(c) == conns[c].cfg

\* a connection established before a reload keeps working and keeps seeing the old identity
Undisturbed == \A c \in DOMAIN conns : Works(c) /\ Sees(c) = conns[c].ver
\* a handshake after the reload sees the new identity - also a resumed one (its `ver` is the certificate stored with the
\* session, which is what the client reports as the peer's)
Fresh == \A c \in DOMAIN conns : conns[c].ver = conns[c].born
\* new handshakes are authenticated as configured, whatever number of reloads happened
ConfigKept == liveCA = wantCA
\* ... against the CA bundle that was at the configured path at the last reload: a rotation takes effect at the next
\* reload (not later: "staleca") and not before ("eagerca")
CAFollows == liveGen = dueGen
\* observable form of ConfigKept /\ CAFollows: whoever connects now is judged as the configuration read at the last
\* reload demands (a client of a retired generation is refused, one of the generation configured then is admitted)
\* - WHATEVER tickets it offers
JudgedAsConfigured == \A cc \in Presentable : \A offer \in SUBSET Held(cc) : OutcomeWith(cc, offer) = DueOutcome(cc)
\* state form of the same for tickets: a ticket the server would honour now was issued by the configuration the
\* operator installed last (identity and client-CA generation): resumption happens within one generation only
TicketsOfThisConfiguration == \A t \in tickets : Honours(t) => (t.ver = identityVersion /\ t.gen = dueGen)
\* every established connection - resumed or not - is one the CONFIGURATION in force when it handshook admits
Authenticated == \A c \in DOMAIN conns : ServerAccepts(HandshakeCellG(conns[c].cc, wantCA, conns[c].gen))

(* ------------------------------ (c) the client's roots replaced in place ------------------------------ *)
(* The client is pointed at a roots FILE.  Its content may be replaced in place (CRotate: generation g+1 of the  *)
(* CA); every connection made afterwards by the same client process is validated against the new content.       *)
(* A connection of this machine is a cell of the matrix: the server presents a certificate for the requested    *)
(* name issued by `srv` (a generation of the CA, or "otherCA"), the client verifies against the roots, the        *)
(* server has no client CA.                                                                                      *)
CPresentable == {"otherCA"} \cup GenNames(rootsGen)
ClientCell(srv, roots) ==
  [serverCert |-> IF IsGen(srv, rootsGen) /\ GenOf(srv, rootsGen) = roots THEN "trustedCA" ELSE "otherCA",
   nameMatches |-> TRUE, skipVerify |-> FALSE, clientCert |-> "none", serverClientCA |-> "none"]
\* the roots a connection that starts now is validated against
RootsUsed == IF Mode = "staleroots" /\ rootsRead # {} THEN CHOOSE g \in rootsRead : TRUE ELSE rootsGen
CConnectOutcome(srv) == Expected(ClientCell(srv, RootsUsed))

CConnect(srv) ==
  /\ srv \in CPresentable
  /\ cseen' = Append(cseen, [srv |-> srv, roots |-> rootsGen, ok |-> CConnectOutcome(srv) = {"ok"}])
  /\ rootsRead' = IF rootsRead = {} THEN {rootsGen} ELSE rootsRead
  /\ UNCHANGED rootsGen
  /\ UNCHANGED svars

CRotate ==
  /\ rootsGen' = rootsGen + 1
  /\ UNCHANGED <<rootsRead, cseen>>
  /\ UNCHANGED svars

\* every connection was validated against the roots the file held when it was made
ClientFollowsRoots ==
  \A i \in DOMAIN cseen : cseen[i].ok = ClientAccepts(ClientCell(cseen[i].srv, cseen[i].roots))

MTypeOK ==
  /\ identityVersion \in Nat /\ live \in 0 .. identityVersion
  /\ wantCA \in ClientCAs /\ liveCA \in ClientCAs
  /\ wantGen \in Nat /\ liveGen \in 0 .. wantGen /\ dueGen \in 0 .. wantGen /\ botched \in Nat
  /\ wantCA = "none" => wantGen = 0
  /\ \A c \in DOMAIN conns : /\ conns[c].ver \in 0 .. identityVersion /\ conns[c].born \in 0 .. identityVersion
                             /\ conns[c].cc \in Presentable /\ conns[c].gen \in 0 .. dueGen
  /\ \A t \in tickets : t.cc \in Presentable /\ t.ver \in 0 .. identityVersion /\ t.gen \in 0 .. wantGen
  /\ rootsGen \in Nat /\ rootsRead \subseteq 0 .. rootsGen
  /\ \A i \in DOMAIN cseen : cseen[i].srv \in CPresentable /\ cseen[i].roots \in 0 .. rootsGen /\ cseen[i].ok \in BOOLEAN
=============================================================================
