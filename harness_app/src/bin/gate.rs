//! C14 driver: the server's upgrade gate (`rusty_penguin_lib::server::State` as a hyper `Service`), called
//! in-process with crafted `http::Request`s.  This program only EXECUTES cases and PROJECTS what it observes
//! into ndjson; the verdict is TLC's (spec/UpgradeTrace.tla).
//!
//!   gate cases  <cases.ndjson> <out.ndjson>     one case per input line: {"id","req","cfg"[,"conc"][,"src"]}
//!   gate random <seed> <n> <out.ndjson> [echo]  seeded random cases over the full matrix, random PSKs / keys
//!                                               (echo: with the fallback proxying to a local backend)
//!
//! A case is the abstract request of spec/Upgrade.tla (method, path, one variant per header, upgrade extension)
//! plus a configuration; `conc` fixes the concrete material (PSK octets, key octets, which near-miss of a pool).
//! Every case is executed twice: as it is, and with the path replaced by an unknown path (the "twin"), which
//! yields the reference fallback response under the same configuration.  Logged lines contain the case again,
//! so a log is itself a valid `cases` input (replay).

use bytes::Bytes;
use http::{HeaderValue, Method, Request};
use http_body_util::{BodyExt, Empty};
use hyper::service::Service;
use hyper::upgrade::OnUpgrade;
use rusty_penguin_lib::arg::BackendUrl;
use rusty_penguin_lib::server::State;
use serde_json::{Value, json};
use std::io::{BufRead, BufReader, BufWriter, Write};
use std::time::Duration;

const HEADERS: [(&str, &str); 6] = [
    ("conn", "connection"),
    ("upgrade", "upgrade"),
    ("version", "sec-websocket-version"),
    ("proto", "sec-websocket-protocol"),
    ("key", "sec-websocket-key"),
    ("psk", "x-penguin-psk"),
];
const BASE_VARIANTS: [&str; 9] = ["absent", "exact", "case", "near", "dupgood", "dupgb", "dupbg", "empty", "list"];
const METHODS: [&str; 10] = ["GET", "POST", "HEAD", "PUT", "DELETE", "OPTIONS", "PATCH", "CONNECT", "TRACE", "get"];
const PATHS: [&str; 8] = ["ws", "health", "version", "other", "ws_upper", "ws_slash", "ws_nested", "ws_query"];
const TWIN_PATH: &str = "/qzx/none";
const SEEN_URI: &str = "x-seen-uri";
const NOT_FOUND: &str = "not found in the gate check";
const DEFAULT_PSK: &[u8] = b"Correct-Horse 42";
const SAMPLE_KEY: &str = "dGhlIHNhbXBsZSBub25jZQ==";
const SAMPLE_ACCEPT: &str = "s3pPLMBiTxaQ9kYGzzhZRbK+xOo=";
const GUID: &[u8] = b"258EAFA5-E914-47DA-95CA-C5AB0DC85B11";

// ---------------------------------------------------------------------------------------------------
// SHA-1 and base64 of the harness itself (independent of the crates the server uses)
// ---------------------------------------------------------------------------------------------------
fn sha1(data: &[u8]) -> [u8; 20] {
    let mut h: [u32; 5] = [0x67452301, 0xEFCDAB89, 0x98BADCFE, 0x10325476, 0xC3D2E1F0];
    let mut msg = data.to_vec();
    let bit_len = (data.len() as u64).wrapping_mul(8);
    msg.push(0x80);
    while msg.len() % 64 != 56 {
        msg.push(0);
    }
    msg.extend_from_slice(&bit_len.to_be_bytes());
    for chunk in msg.chunks(64) {
        let mut w = [0u32; 80];
        for i in 0..16 {
            w[i] = u32::from_be_bytes([chunk[4 * i], chunk[4 * i + 1], chunk[4 * i + 2], chunk[4 * i + 3]]);
        }
        for i in 16..80 {
            w[i] = (w[i - 3] ^ w[i - 8] ^ w[i - 14] ^ w[i - 16]).rotate_left(1);
        }
        let (mut a, mut b, mut c, mut d, mut e) = (h[0], h[1], h[2], h[3], h[4]);
        for (i, wi) in w.iter().enumerate() {
            let (f, k) = match i {
                0..=19 => ((b & c) | (!b & d), 0x5A827999u32),
                20..=39 => (b ^ c ^ d, 0x6ED9EBA1),
                40..=59 => ((b & c) | (b & d) | (c & d), 0x8F1BBCDC),
                _ => (b ^ c ^ d, 0xCA62C1D6),
            };
            let t = a.rotate_left(5).wrapping_add(f).wrapping_add(e).wrapping_add(k).wrapping_add(*wi);
            e = d;
            d = c;
            c = b.rotate_left(30);
            b = a;
            a = t;
        }
        h[0] = h[0].wrapping_add(a);
        h[1] = h[1].wrapping_add(b);
        h[2] = h[2].wrapping_add(c);
        h[3] = h[3].wrapping_add(d);
        h[4] = h[4].wrapping_add(e);
    }
    let mut out = [0u8; 20];
    for i in 0..5 {
        out[4 * i..4 * i + 4].copy_from_slice(&h[i].to_be_bytes());
    }
    out
}

const B64: &[u8; 64] = b"ABCDEFGHIJKLMNOPQRSTUVWXYZabcdefghijklmnopqrstuvwxyz0123456789+/";
fn b64(data: &[u8]) -> String {
    let mut s = String::new();
    for ch in data.chunks(3) {
        let n = (u32::from(ch[0]) << 16) | (u32::from(*ch.get(1).unwrap_or(&0)) << 8) | u32::from(*ch.get(2).unwrap_or(&0));
        s.push(B64[(n >> 18) as usize & 63] as char);
        s.push(B64[(n >> 12) as usize & 63] as char);
        s.push(if ch.len() > 1 { B64[(n >> 6) as usize & 63] as char } else { '=' });
        s.push(if ch.len() > 2 { B64[n as usize & 63] as char } else { '=' });
    }
    s
}
fn accept_of(key: &[u8]) -> String {
    let mut v = key.to_vec();
    v.extend_from_slice(GUID);
    b64(&sha1(&v))
}
/// The same through the sha1 / base64 crates (cross-check of the harness's own implementation)
fn accept_of_crates(key: &[u8]) -> String {
    use base64::Engine;
    use sha1::{Digest, Sha1};
    let mut h = Sha1::new();
    h.update(key);
    h.update(GUID);
    base64::engine::general_purpose::STANDARD.encode(h.finalize())
}

// ---------------------------------------------------------------------------------------------------
// seeded generator (splitmix64)
// ---------------------------------------------------------------------------------------------------
struct Rng(u64);
impl Rng {
    fn next(&mut self) -> u64 {
        self.0 = self.0.wrapping_add(0x9E37_79B9_7F4A_7C15);
        let mut z = self.0;
        z = (z ^ (z >> 30)).wrapping_mul(0xBF58_476D_1CE4_E5B9);
        z = (z ^ (z >> 27)).wrapping_mul(0x94D0_49BB_1331_11EB);
        z ^ (z >> 31)
    }
    fn below(&mut self, n: usize) -> usize {
        (self.next() % n as u64) as usize
    }
    fn chance(&mut self, percent: u64) -> bool {
        self.next() % 100 < percent
    }
}

// ---------------------------------------------------------------------------------------------------
// the concrete request of an abstract case
// ---------------------------------------------------------------------------------------------------
struct Conc {
    psk: Vec<u8>,
    key: Vec<u8>,
    pick: usize,
}

fn swap_case(v: &[u8]) -> Vec<u8> {
    v.iter()
        .map(|b| if b.is_ascii_lowercase() { b.to_ascii_uppercase() } else { b.to_ascii_lowercase() })
        .collect()
}
/// Case variant of a key: the last quantum ("xQ==") is left alone so that the value stays canonical base64
fn swap_case_key(v: &[u8]) -> Vec<u8> {
    let keep = v.len().saturating_sub(4);
    let mut o = swap_case(&v[..keep]);
    o.extend_from_slice(&v[keep..]);
    o
}
fn pick<'a>(pool: &'a [&'a [u8]], k: usize) -> Vec<u8> {
    pool[k % pool.len()].to_vec()
}
fn join(a: &[u8], b: &[u8]) -> Vec<u8> {
    let mut o = a.to_vec();
    o.extend_from_slice(b", ");
    o.extend_from_slice(b);
    o
}

/// good value, its case variant, a near-miss, a list containing the good value
fn material(h: &str, c: &Conc) -> (Vec<u8>, Vec<u8>, Vec<u8>, Vec<u8>) {
    let k = c.pick;
    match h {
        "conn" => (
            b"upgrade".to_vec(),
            pick(&[b"UpGrAdE", b"UPGRADE", b"Upgrade"], k),
            pick(&[b"upgrades", b"upgrad", b"close", b"xupgrade", b"upgrade2", b"keep-alive"], k),
            pick(&[b"keep-alive, Upgrade", b"upgrade, keep-alive", b"Upgrade,HTTP2-Settings"], k),
        ),
        "upgrade" => (
            b"websocket".to_vec(),
            pick(&[b"WebSocket", b"WEBSOCKET", b"wEBsOCKET"], k),
            pick(&[b"websocket2", b"websocke", b"h2c", b"xwebsocket", b"web socket", b"websockets"], k),
            pick(&[b"websocket, h2c", b"h2c, WebSocket"], k),
        ),
        "version" => (
            b"13".to_vec(),
            b"13".to_vec(), // no letters: the case variant of 13 is 13
            pick(&[b"14", b"1", b"8", b"213", b"130", b"12"], k),
            pick(&[b"13, 8", b"8, 13"], k),
        ),
        "proto" => (
            b"penguin-v7".to_vec(),
            pick(&[b"PENGUIN-V7", b"Penguin-V7", b"penguin-V7"], k),
            pick(&[b"penguin-v6", b"penguin-v", b"penguin", b"xpenguin-v7", b"penguin-v70", b"penguin_v7"], k),
            pick(&[b"penguin-v6, penguin-v7", b"penguin-v7, chat"], k),
        ),
        "key" => {
            let good = c.key.clone();
            let near = match k % 4 {
                0 => b"dGhlIHNhbXBsZQ==".to_vec(), // 10 octets
                1 => b"not*base64!".to_vec(),
                2 => good[..good.len().saturating_sub(2)].to_vec(), // padding cut off
                _ => {
                    let mut v = good.clone();
                    v.extend_from_slice(b"AAAA"); // 19 octets
                    v
                }
            };
            (good.clone(), swap_case_key(&good), near, join(&good, SAMPLE_KEY.as_bytes()))
        }
        "psk" => {
            let p = c.psk.clone();
            let n = p.len();
            // proper prefixes of the PSK; pick 3: a proper suffix
            let near = match k % 5 {
                0 => p[..n - 1].to_vec(),
                1 => p[..1].to_vec(),
                2 => p[..n.div_ceil(2).min(n - 1)].to_vec(),
                // a prefix that is shorter by a multiple of 256 octets (lengths compared modulo a machine type)
                3 if n >= 256 => p[..n - 256].to_vec(),
                _ => p[1..].to_vec(),
            };
            (p.clone(), swap_case(&p), near, join(&p, &p))
        }
        _ => unreachable!(),
    }
}

fn padded(p: &[u8], k: usize) -> Vec<u8> {
    let mut v = Vec::new();
    match k % 10 {
        // the PSK followed / preceded by a block whose length is a multiple (or nearly) of 256 octets
        6 => {
            v.extend_from_slice(p);
            v.extend(std::iter::repeat_n(b'x', 256));
        }
        7 => {
            v.extend(std::iter::repeat_n(b'x', 256));
            v.extend_from_slice(p);
        }
        8 => {
            v.extend_from_slice(p);
            v.extend(std::iter::repeat_n(b'y', 512));
        }
        9 => {
            v.extend_from_slice(p);
            v.extend(std::iter::repeat_n(b'x', 255));
        }
        0 => {
            v.extend_from_slice(p);
            v.push(b' ');
        }
        1 => {
            v.push(b' ');
            v.extend_from_slice(p);
        }
        2 => {
            v.extend_from_slice(p);
            v.push(b'\t');
        }
        3 => {
            v.extend_from_slice(p);
            v.push(b'x');
        }
        4 => {
            v.push(b'x');
            v.extend_from_slice(p);
        }
        _ => {
            v.extend_from_slice(p);
            v.extend_from_slice(p);
        }
    }
    v
}

fn values_for(h: &str, variant: &str, c: &Conc) -> Result<Vec<Vec<u8>>, String> {
    let (good, case, near, list) = material(h, c);
    Ok(match variant {
        "absent" => vec![],
        "exact" => vec![good],
        "case" => vec![case],
        "near" => vec![near],
        "dupgood" => vec![good.clone(), good],
        "dupgb" => vec![good, near],
        "dupbg" => vec![near, good],
        "empty" => vec![vec![]],
        "list" => vec![list],
        "padded" if h == "psk" => vec![padded(&good, c.pick)],
        _ => return Err(format!("unknown variant {variant} of {h}")),
    })
}

fn path_of(p: &str) -> Result<(&'static str, &'static str), String> {
    Ok(match p {
        "ws" => ("/ws", ""),
        "health" => ("/health", ""),
        "version" => ("/version", ""),
        "other" => ("/index.html", ""),
        "ws_upper" => ("/WS", ""),
        "ws_slash" => ("/ws/", ""),
        "ws_nested" => ("/x/ws", ""),
        "ws_query" => ("/ws", "x=1"),
        _ => return Err(format!("unknown path {p}")),
    })
}

fn build(case: &Value, conc: &Conc, twin: bool) -> Result<Request<Empty<Bytes>>, String> {
    let req = &case["req"];
    let method = Method::from_bytes(req["method"].as_str().ok_or("method")?.as_bytes()).map_err(|e| e.to_string())?;
    let (path, query) = path_of(req["path"].as_str().ok_or("path")?)?;
    let path = if twin { TWIN_PATH } else { path };
    let uri = if query.is_empty() { path.to_string() } else { format!("{path}?{query}") };
    let mut r = Request::builder()
        .method(method)
        .uri(uri)
        .header("host", "example.com")
        .body(Empty::<Bytes>::new())
        .map_err(|e| e.to_string())?;
    for (short, name) in HEADERS {
        let variant = req["h"][short].as_str().ok_or_else(|| format!("variant of {short}"))?;
        for v in values_for(short, variant, conc)? {
            let hv = HeaderValue::from_bytes(&v).map_err(|e| format!("{short}: {e}"))?;
            r.headers_mut().append(name, hv);
        }
    }
    if req["ext"].as_bool().ok_or("ext")? {
        // what hyper's HTTP/1 server attaches to every request (this one never completes an upgrade)
        let on_upgrade: OnUpgrade = hyper::upgrade::on(Request::new(Empty::<Bytes>::new()));
        r.extensions_mut().insert(on_upgrade);
    }
    Ok(r)
}

/// What was really built, read back from the `http::Request`
fn project_sent(r: &Request<Empty<Bytes>>) -> Value {
    let mut h = serde_json::Map::new();
    for (short, name) in HEADERS {
        let vals: Vec<Vec<u8>> = r.headers().get_all(name).iter().map(|v| v.as_bytes().to_vec()).collect();
        h.insert(short.to_string(), json!(vals));
    }
    json!({
        "method": r.method().as_str(),
        "path": r.uri().path(),
        "query": r.uri().query().unwrap_or(""),
        "ext": r.extensions().get::<OnUpgrade>().is_some(),
        "h": h,
    })
}

fn hex(b: &[u8]) -> String {
    b.iter().map(|x| format!("{x:02x}")).collect()
}

/// One call of the service; a panic, an `Err` and a hang are outcomes, not tool errors
async fn observe(state: &State, req: Request<Empty<Bytes>>) -> Value {
    let st = state.clone();
    let task = tokio::spawn(async move {
        let resp = match Service::call(&st, req).await {
            Ok(r) => r,
            Err(e) => return Err(format!("{e}")),
        };
        let (parts, body) = resp.into_parts();
        let body = match body.collect().await {
            Ok(b) => b.to_bytes(),
            Err(e) => return Err(format!("body: {e}")),
        };
        Ok((parts, body))
    });
    let out = match tokio::time::timeout(Duration::from_secs(10), task).await {
        Err(_) => return json!({"res": "hang", "status": 0, "headers": [], "body": "", "proto": [], "accept": [], "seen_uri": []}),
        Ok(o) => o,
    };
    match out {
        Err(join) => json!({"res": if join.is_panic() { "panic" } else { "cancelled" },
                            "status": 0, "headers": [], "body": "", "proto": [], "accept": [], "seen_uri": []}),
        Ok(Err(e)) => json!({"res": "err", "error": e, "status": 0, "headers": [], "body": "", "proto": [], "accept": [], "seen_uri": []}),
        Ok(Ok((parts, body))) => {
            // what the echo backend saw as request target (not part of the compared response: it names the path)
            let seen: Vec<String> = parts
                .headers
                .get_all(SEEN_URI)
                .iter()
                .map(|v| String::from_utf8_lossy(v.as_bytes()).into_owned())
                .collect();
            let mut headers: Vec<(String, String)> = parts
                .headers
                .iter()
                .filter(|(n, _)| n.as_str() != "date" && n.as_str() != SEEN_URI)
                .map(|(n, v)| (n.as_str().to_string(), String::from_utf8_lossy(v.as_bytes()).into_owned()))
                .collect();
            headers.sort();
            let proto: Vec<Vec<u8>> =
                parts.headers.get_all("sec-websocket-protocol").iter().map(|v| v.as_bytes().to_vec()).collect();
            let accept: Vec<String> = parts
                .headers
                .get_all("sec-websocket-accept")
                .iter()
                .map(|v| String::from_utf8_lossy(v.as_bytes()).into_owned())
                .collect();
            json!({"res": "ok", "status": parts.status.as_u16(), "headers": headers, "body": hex(&body),
                   "proto": proto, "accept": accept, "seen_uri": seen})
        }
    }
}

fn bytes_of(v: &Value) -> Option<Vec<u8>> {
    v.as_array()?.iter().map(|x| x.as_u64().and_then(|n| u8::try_from(n).ok())).collect()
}

/// The backend of configuration backend = "echo": a local HTTP/1 server whose answer is a function of the method
/// and the headers of the request it receives (not of the path), and which reports the request target it saw in
/// a header that `observe` takes out of the compared response.
async fn start_echo_backend() -> Result<&'static BackendUrl, String> {
    use hyper::body::Incoming;
    use hyper::service::service_fn;
    use hyper_util::rt::TokioIo;
    let listener = tokio::net::TcpListener::bind(("127.0.0.1", 0)).await.map_err(|e| format!("bind: {e}"))?;
    let addr = listener.local_addr().map_err(|e| e.to_string())?;
    tokio::spawn(async move {
        loop {
            let Ok((stream, _)) = listener.accept().await else { continue };
            tokio::spawn(async move {
                let svc = service_fn(|req: Request<Incoming>| async move {
                    let mut lines: Vec<String> = req
                        .headers()
                        .iter()
                        .map(|(n, v)| format!("{}: {}", n.as_str(), String::from_utf8_lossy(v.as_bytes())))
                        .collect();
                    lines.sort();
                    let body = format!("echo backend\n{}\n{}\n", req.method().as_str(), lines.join("\n"));
                    let target = req.uri().path_and_query().map_or("", |p| p.as_str()).to_string();
                    // a 2xx answer to CONNECT would switch the connection to a tunnel
                    let status = if req.method() == Method::CONNECT { 405 } else { 200 };
                    http::Response::builder()
                        .status(status)
                        .header("x-backend", "echo")
                        .header(SEEN_URI, target)
                        .body(http_body_util::Full::new(Bytes::from(body)))
                });
                let _ = hyper::server::conn::http1::Builder::new().serve_connection(TokioIo::new(stream), svc).await;
            });
        }
    });
    let url: BackendUrl = format!("http://{addr}").parse().map_err(|e| format!("backend url: {e}"))?;
    Ok(Box::leak(Box::new(url)))
}

struct Ctx {
    base: State,
    backend: Option<&'static BackendUrl>,
}

async fn run_case(ctx: &mut Ctx, case: &Value) -> Result<Value, String> {
    let base = &ctx.base;
    let conc = Conc {
        // enumerated cases carry no material: even picks use the short default PSK, odd picks one of exactly 256 octets
        psk: case["conc"]["psk"].as_array().and_then(|_| bytes_of(&case["conc"]["psk"])).unwrap_or_else(|| {
            if case["pick"].as_u64().unwrap_or(0) % 2 == 1 {
                (0..256u32).map(|i| b"Correct-Horse 42"[(i % 16) as usize] ^ ((i / 16) as u8 & 1)).map(|b| if b == b' ' || b < 33 { b'_' } else { b }).collect()
            } else {
                DEFAULT_PSK.to_vec()
            }
        }),
        key: case["conc"]["key"].as_array().and_then(|_| bytes_of(&case["conc"]["key"])).unwrap_or_else(|| SAMPLE_KEY.as_bytes().to_vec()),
        pick: case["conc"]["pick"].as_u64().or_else(|| case["pick"].as_u64()).unwrap_or(0) as usize,
    };
    if conc.psk.len() < 2 || conc.key.is_empty() {
        return Err("conc: PSK of at least 2 octets and a non-empty key".into());
    }
    let cfg = &case["cfg"];
    let with_psk = cfg["psk"].as_bool().ok_or("cfg.psk")?;
    let obfs = cfg["obfs"].as_bool().ok_or("cfg.obfs")?;
    let backend = match cfg["backend"].as_str() {
        Some("none") => None,
        Some("echo") => {
            if ctx.backend.is_none() {
                ctx.backend = Some(start_echo_backend().await?);
            }
            ctx.backend
        }
        _ => return Err("cfg.backend: none or echo".into()),
    };
    let psk_cfg: Vec<Vec<u8>> = if with_psk { vec![conc.psk.clone()] } else { vec![] };
    let psk_static: Option<&'static HeaderValue> = if with_psk {
        Some(Box::leak(Box::new(HeaderValue::from_bytes(&conc.psk).map_err(|e| e.to_string())?)))
    } else {
        None
    };
    let state = base.clone().with_ws_psk(psk_static).obfs(obfs).with_not_found_resp(NOT_FOUND).with_backend(backend);

    let req = build(case, &conc, false)?;
    let twin = build(case, &conc, true)?;
    let mut sent = project_sent(&req);
    sent["psk_cfg"] = json!(psk_cfg);
    let twin_path = twin.uri().path().to_string();
    // the hash of every key value that was sent, computed by the harness
    let accept_calc: Vec<String> = req.headers().get_all("sec-websocket-key").iter().map(|v| accept_of(v.as_bytes())).collect();

    let obs = observe(&state, req).await;
    let mut tobs = observe(&state, twin).await;
    tobs["path"] = json!(twin_path);
    tobs.as_object_mut().unwrap().remove("proto");
    tobs.as_object_mut().unwrap().remove("accept");

    let mut line = json!({
        "ev": "case",
        "id": case["id"].clone(),
        "src": case.get("src").cloned().unwrap_or(json!("cases")),
        "req": case["req"].clone(),
        "cfg": case["cfg"].clone(),
        "conc": {"psk": conc.psk, "key": conc.key, "pick": conc.pick},
        "sent": sent,
        "accept_calc": accept_calc,
        "twin": tobs,
    });
    for (k, v) in obs.as_object().unwrap() {
        line[k] = v.clone();
    }
    Ok(line)
}

fn selftest_line() -> Value {
    let own = accept_of(SAMPLE_KEY.as_bytes());
    let crates = accept_of_crates(SAMPLE_KEY.as_bytes());
    json!({
        "ev": "selftest",
        "key": SAMPLE_KEY,
        "accept": own,
        "accept_crates": crates,
        "accept2": accept_of(b"7S3qp57psT3kwWF29CFJNg=="),
        "sha1_abc": hex(&sha1(b"abc")),
        "words": {"conn": b"upgrade".to_vec(), "upgrade": b"websocket".to_vec(), "version": b"13".to_vec(),
                  "proto": b"penguin-v7".to_vec()},
        "twin_path": TWIN_PATH,
    })
}

fn random_case(rng: &mut Rng, id: usize, echo: bool) -> Value {
    // every field keeps its valid value with probability 0.62 so that requests near the valid one are frequent
    let method = if rng.chance(62) { "GET" } else { METHODS[rng.below(METHODS.len())] };
    let path = if rng.chance(62) { "ws" } else { PATHS[rng.below(PATHS.len())] };
    let ext = rng.chance(85);
    let mut h = serde_json::Map::new();
    for (short, _) in HEADERS {
        let v = if rng.chance(62) {
            "exact"
        } else {
            let n = if short == "psk" { BASE_VARIANTS.len() + 1 } else { BASE_VARIANTS.len() };
            let i = rng.below(n);
            if i < BASE_VARIANTS.len() { BASE_VARIANTS[i] } else { "padded" }
        };
        h.insert(short.to_string(), json!(v));
    }
    // a random PSK: 2..=24 octets allowed in a header value, at least one letter (so that a case variant exists),
    // no whitespace at either end
    // mostly short; one in five has a length at or around a multiple of 256
    let n = match rng.below(20) {
        0 => 255,
        1 => 256,
        2 => 257,
        3 => 512,
        _ => 2 + rng.below(23),
    };
    let mut psk: Vec<u8> = (0..n)
        .map(|_| match rng.below(20) {
            0 => b' ',
            1 => 0x80 + rng.below(0x80) as u8,
            _ => 33 + rng.below(94) as u8,
        })
        .collect();
    psk[0] = b'a' + rng.below(26) as u8;
    if psk[n - 1] == b' ' {
        psk[n - 1] = b'Z';
    }
    let raw: Vec<u8> = (0..16).map(|_| rng.below(256) as u8).collect();
    let key = b64(&raw).into_bytes();
    json!({
        "id": id,
        "src": "random",
        "req": {"method": method, "path": path, "ext": ext, "h": h},
        "cfg": {"psk": rng.chance(60), "obfs": rng.chance(50), "backend": if echo { "echo" } else { "none" }},
        "conc": {"psk": psk, "key": key, "pick": rng.below(1000)},
    })
}

fn main() {
    let args: Vec<String> = std::env::args().collect();
    if args.len() < 2 {
        eprintln!("usage: gate cases <in> <out> | gate random <seed> <n> <out>");
        std::process::exit(2);
    }
    // cross-check of the harness's own SHA-1 / base64 (also logged and validated by TLC)
    assert_eq!(accept_of(SAMPLE_KEY.as_bytes()), SAMPLE_ACCEPT, "own accept hash");
    assert_eq!(accept_of_crates(SAMPLE_KEY.as_bytes()), SAMPLE_ACCEPT, "crate accept hash");
    if std::env::var_os("GATE_VERBOSE").is_none() {
        std::panic::set_hook(Box::new(|_| {})); // panics of the code under test are data
    }
    // what the application's main() does before anything touches TLS (State::new builds the backend client)
    let _ = rusty_penguin_lib::tls::init_crypto_provider();
    let rt = tokio::runtime::Builder::new_current_thread().enable_all().build().expect("runtime");
    let code = rt.block_on(async {
        let base = match State::new().await {
            Ok(s) => s.with_backend_http2_support(false),
            Err(e) => {
                eprintln!("State::new failed: {e}");
                return 2;
            }
        };
        let (cases, out_path): (Vec<Value>, String) = match args[1].as_str() {
            "cases" if args.len() == 4 => {
                let f = BufReader::new(std::fs::File::open(&args[2]).expect("open cases"));
                let mut v = Vec::new();
                for l in f.lines() {
                    let l = l.expect("read");
                    if l.trim().is_empty() {
                        continue;
                    }
                    let c: Value = serde_json::from_str(&l).expect("case json");
                    if c.get("ev").and_then(Value::as_str) == Some("selftest") {
                        continue;
                    }
                    v.push(c);
                }
                (v, args[3].clone())
            }
            "random" if args.len() == 5 || args.len() == 6 => {
                let seed: u64 = args[2].parse().expect("seed");
                let n: usize = args[3].parse().expect("n");
                let mut rng = Rng(seed ^ 0xC14C_14C1_4C14_C14C);
                let echo = args.get(5).map(String::as_str) == Some("echo");
                ((0..n).map(|i| random_case(&mut rng, i + 1, echo)).collect(), args[4].clone())
            }
            _ => {
                eprintln!("bad arguments");
                return 2;
            }
        };
        let mut out = BufWriter::new(std::fs::File::create(&out_path).expect("create out"));
        writeln!(out, "{}", selftest_line()).unwrap();
        let mut ctx = Ctx { base, backend: None };
        for c in &cases {
            match run_case(&mut ctx, c).await {
                Ok(line) => writeln!(out, "{line}").unwrap(),
                Err(e) => {
                    eprintln!("cannot build case {}: {e}", c["id"]);
                    return 2;
                }
            }
        }
        out.flush().unwrap();
        0
    });
    std::process::exit(code);
}
