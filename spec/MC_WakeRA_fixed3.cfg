SPECIFICATION Spec
CONSTANTS
  Mode = "fixed"
  OrdMode = "code"
  SC = "no"
  NPolls = 3
INVARIANTS ContractHolds NoRace StateWordSane
CHECK_DEADLOCK FALSE
