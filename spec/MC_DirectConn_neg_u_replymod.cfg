\* C01: negative control: a relay with the fault `u_replymod` must violate U_Reply
SPECIFICATION Spec
CONSTANTS
  MaxW = 1
  Sizes = {0}
  Fault = "u_replymod"
  Proto = "udp"
  Gen = FALSE
  MaxK = 2
INVARIANTS U_Reply
