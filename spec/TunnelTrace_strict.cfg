\* C01 trace validation: strict reading: the header of a relayed SOCKS5 reply must name the target, a write must not block for good after the peer closed
SPECIFICATION Spec
CONSTANTS
  HdrAddr = "target"
  Stall = "violation"
CONSTRAINT Track
POSTCONDITION Accepted
CHECK_DEADLOCK FALSE
