#!/usr/bin/env python3
"""Regression over the stored seeded changes: for every seeded/<name> (optionally filtered by property prefixes given as
arguments) re-run the checks that are recorded as having caught it (meta.json "framework": exit 1) and report any that no
longer do.  Applies each patch to /repo and restores it (tools/seed_eval.py)."""
import json, os, subprocess, sys
V = "/verif"
want = sys.argv[1:]
lost = []
for name in sorted(os.listdir(f"{V}/seeded")):
    if want and not any(name.startswith(w) for w in want):
        continue
    mp = f"{V}/seeded/{name}/meta.json"
    if not os.path.exists(mp) or not os.path.exists(f"{V}/seeded/{name}/patch.diff"):
        continue
    fw = json.load(open(mp)).get("framework", {})
    props = [p for p, r in fw.items() if isinstance(r, dict) and r.get("exit") == 1 and r.get("tier", "quick") == "quick"]
    if not props:
        print(name, "no catching check recorded", flush=True)
        continue
    r = subprocess.run(["python3", f"{V}/tools/seed_eval.py", name] + props, capture_output=True, text=True)
    print(name, r.stdout.strip().replace("\n", " | ")[:400], flush=True)
    fw2 = json.load(open(mp)).get("framework", {})
    for p in props:
        if fw2.get(p, {}).get("exit") != 1:
            lost.append((name, p, fw2.get(p, {}).get("exit")))
print("LOST:", lost)
