------------------------------- MODULE MuxApi -------------------------------
(***************************************************************************)
(* The contract of the multiplexor as the APPLICATION sees it: the clauses *)
(* of C02, C04, C05, C07, C11 and C15 stated over application-level events *)
(* only (calls and their results), with no model of frames, credit, slots  *)
(* or the connection task.  PenguinMux.tla refines it; this module is the  *)
(* second, coarser oracle: when a recorded trace stops conforming to       *)
(* PenguinMux at some step (say, the first divergence is a Connect that    *)
(* was lost in the send path), the rest of that trace can still be judged  *)
(* against the clauses here, so that every property the defect breaks is   *)
(* reported by its own check and not only the one the first divergence     *)
(* happens to speak about.                                                 *)
(*                                                                         *)
(* State: per endpoint the stream handles the application holds (by the    *)
(* harness's handle name), with the octets accepted by successful writes   *)
(* and the octets read; the datagrams accepted for sending; bind requests. *)
(* Payload is position coded by the harness: every octet carries a tag of  *)
(* the writing handle (1..8) and its offset modulo 32, and the harness     *)
(* reports for every read the run it saw (tag w, offset off of the first   *)
(* octet, okrun = the run is contiguous).                                  *)
(*                                                                         *)
(* `sound` is switched off for the rest of a trace by anything that ends   *)
(* or disturbs the connection (transport fault, injected message, drop of  *)
(* a Multiplexor, a connection task that ended): the clauses that need a   *)
(* healthy connection are only evaluated while it is on.                   *)
(***************************************************************************)
EXTENDS Naturals, Sequences, FiniteSets, TLC

AE == {"A", "B"}
Other(e) == IF e = "A" THEN "B" ELSE "A"
TagOf(name) == ((name - 1) % 8) + 1

NewH(id, host, port, role) ==
  [id |-> id, host |-> host, port |-> port, role |-> role, wr |-> 0, rd |-> 0, tag |-> 0, shut |-> FALSE,
   dropped |-> FALSE, bridged |-> FALSE, eof |-> FALSE, stall |-> FALSE, born |-> 0,
   mate |-> 0]        \* the handle on the other endpoint that belongs to the same Connect (0 = not known)

Init0 ==
  [h |-> [e \in AE |-> <<>>],          \* function handle name -> handle record (finite domain)
   opens |-> [e \in AE |-> <<>>],      \* function call id -> [host, port] of pending / completed stream requests
   dgs |-> [e \in AE |-> <<>>],        \* datagrams accepted by send_datagram on e, in order
   dgi |-> [e \in AE |-> 0],           \* index in dgs[Other(e)] of the last datagram delivered to e
   binds |-> [e \in AE |-> <<>>],      \* function call id -> [id, bt, host, port] of bind requests made by e
   breq |-> [e \in AE |-> <<>>],       \* function request number -> [id, ans] of bind requests shown to e's application
   sound |-> TRUE,                     \* nothing has ended or disturbed the connection so far
   adv |-> FALSE,                      \* messages were injected / the peer is the scripted raw peer: octets may come from anywhere
   ended |-> [e \in AE |-> FALSE],     \* the connection task of e has returned
   ids |-> {},                         \* flow ids proposed so far in this trace (by either endpoint)
   n |-> 0, viol |-> {}]

Has(f, k) == k \in DOMAIN f
Put(f, k, v) == [x \in (DOMAIN f) \cup {k} |-> IF x = k THEN v ELSE f[x]]
Flag(s, name) == [s EXCEPT !.viol = @ \cup {name}]
Unsound(s) == [s EXCEPT !.sound = FALSE]
Adversary(s) == [s EXCEPT !.sound = FALSE, !.adv = TRUE]

(* Pairing.  A stream request is call c of endpoint e with the flow id of its latest Connect; the stream the other
   endpoint accepts under that id belongs to the OLDEST request with that id that has not been matched yet (a cancelled
   request can still be accepted).  The requester's handle appears when its open_poll succeeds.  Flow ids are re-used, so
   handles are never paired by id alone. *)
Link(s, e, name, pname) ==
  [s EXCEPT !.h[e][name].mate = pname, !.h[Other(e)][pname].mate = name]
Unmatched(s, e, id) == {c \in DOMAIN s.opens[e] : s.opens[e][c].id = id /\ s.opens[e][c].mate = 0}
Oldest(S) == CHOOSE c \in S : \A d \in S : c <= d
MateOf(s, e, name) == s.h[e][name].mate
Paired(s, e, name) == Has(s.h[e], name) /\ s.h[e][name].mate # 0 /\ Has(s.h[Other(e)], s.h[e][name].mate)

(* C08: once the connection task of e has ended, every pending and every later operation of e completes *)
TaskEnded(s, e) == [s EXCEPT !.ended[e] = TRUE, !.sound = FALSE]
Completes(s, e, res) == IF s.ended[e] /\ res = "pending" THEN Flag(s, "C08.PendingAfterEnd") ELSE s

(* ---------------------------- streams ---------------------------- *)
Created(s, e, name, id, host, port, role) ==
  [s EXCEPT !.h[e] = Put(@, name, [NewH(id, host, port, role) EXCEPT !.born = s.n]), !.n = @ + 1]

(* Flow ids carry no generation: when an id is proposed a second time in a trace, frames of its previous incarnation may
   still be under way and act on the new one (known findings F10 / F17 of the fine specification, which tells them apart
   with ghost incarnation numbers).  At this level they cannot be told apart, so the stream clauses stop applying. *)
Propose(s, id) == IF id \in s.ids THEN [s EXCEPT !.sound = FALSE, !.adv = TRUE] ELSE [s EXCEPT !.ids = @ \cup {id}]
OpenCall(s, e, c, host, port, id) ==
  Propose([s EXCEPT !.opens[e] = Put(@, c, [host |-> host, port |-> port, id |-> id, mate |-> 0, h |-> 0])], id)
(* the request was rejected and is sent again under a new id *)
OpenRetry(s, e, c, id) == IF Has(s.opens[e], c) THEN Propose([s EXCEPT !.opens[e][c].id = id], id) ELSE s
(* new_stream_channel returned the stream *)
Opened(s, e, c, name, id) ==
  LET s1 == Created(s, e, name, id, "", 0, "req") IN
  IF ~Has(s.opens[e], c) THEN s1
  ELSE LET s2 == [s1 EXCEPT !.opens[e][c].h = name] IN
       IF s.opens[e][c].mate # 0 /\ Has(s.h[Other(e)], s.opens[e][c].mate) THEN Link(s2, e, name, s.opens[e][c].mate) ELSE s2

(* C07: the accepting application sees exactly the host and port of the request it belongs to *)
Accepted(s, e, name, id, host, port) ==
  LET s1 == Created(s, e, name, id, host, port, "acc")
      o  == Other(e)
      cs == Unmatched(s, o, id)
      (* a request whose Connect was rejected keeps its old id until its future is polled again: among the requests
         with this id prefer one that names this target *)
      good == {c \in cs : s.opens[o][c].host = host /\ s.opens[o][c].port = port}
  IN IF good = {} THEN (IF s.sound THEN Flag(s1, "C07.Target") ELSE s1)
     ELSE LET c  == Oldest(good)
              k  == s.opens[o][c]
              s2 == [s1 EXCEPT !.opens[o][c].mate = name]
          IN IF k.h # 0 /\ Has(s.h[o], k.h) THEN Link(s2, e, name, k.h) ELSE s2

(* the request ended without a stream (rejected for good, connection closed) *)
OpenFailed(s, e, c) == IF Has(s.opens[e], c) /\ s.opens[e][c].mate = 0 THEN [s EXCEPT !.opens[e][c].id = 0] ELSE s

Wrote(s, e, name, res, n) ==
  IF ~Has(s.h[e], name) THEN s
  ELSE LET x == s.h[e][name] IN
       IF res = "ok" THEN
          (* C05: after a local shutdown further writes fail *)
          LET s1 == [s EXCEPT !.h[e][name].wr = @ + n, !.h[e][name].stall = FALSE] IN
          IF x.shut /\ n > 0 THEN Flag(s1, "C05.WriteAfterShutdown") ELSE s1
       ELSE IF res = "pending" THEN [s EXCEPT !.h[e][name].stall = TRUE]
       ELSE [s EXCEPT !.h[e][name].stall = FALSE]

(* a read returned n octets: one contiguous run tagged w starting at offset off (mod 32) *)
ReadData(s, e, name, n, w, off, okrun) ==
  IF ~Has(s.h[e], name) THEN s
  ELSE LET x == s.h[e][name]
           s1 == [s EXCEPT !.h[e][name].rd = @ + n, !.h[e][name].tag = w]
           (* C02: intact and in order -- the run continues where the previous read stopped; no cross-talk -- one tag *)
           s2 == IF ~okrun \/ off # x.rd % 32 THEN Flag(s1, "C02.Order") ELSE s1
           s3 == IF x.tag # 0 /\ x.tag # w THEN Flag(s2, "C02.CrossTalk") ELSE s2
       (* a transport failure loses octets but never invents or reorders them; an adversary may send anything *)
       IN IF s.adv THEN s1
          ELSE IF ~Paired(s, e, name) THEN s3
          (* C02: the octets come from the handle this stream is connected to ... *)
          ELSE IF TagOf(x.mate) # w THEN Flag(s3, "C02.CrossTalk")
          (* ... and what was read is a prefix of what its successful writes accepted *)
          ELSE IF x.rd + n > s.h[Other(e)][x.mate].wr THEN Flag(s3, "C02.Prefix")
          ELSE s3

(* a read reported end-of-stream *)
ReadEof(s, e, name) ==
  IF ~Has(s.h[e], name) THEN s
  ELSE LET x == s.h[e][name]
           s1 == [s EXCEPT !.h[e][name].eof = TRUE]
       IN IF ~s.sound \/ x.eof \/ ~Paired(s, e, name) THEN s1
          ELSE LET y == s.h[Other(e)][x.mate] IN
               (* C05: only after the peer shut down or let go of the stream ... *)
               IF ~y.shut /\ ~y.dropped /\ ~y.bridged THEN Flag(s1, "C05.EarlyEof")
               (* ... and, after a clean shutdown, only after every octet it wrote *)
               ELSE IF y.shut /\ ~y.dropped /\ ~y.bridged /\ x.rd # y.wr THEN Flag(s1, "C02.Complete")
               ELSE s1

ShutDown(s, e, name) == IF Has(s.h[e], name) THEN [s EXCEPT !.h[e][name].shut = TRUE, !.h[e][name].stall = FALSE] ELSE s
Dropped(s, e, name) == IF Has(s.h[e], name) THEN [s EXCEPT !.h[e][name].dropped = TRUE, !.h[e][name].stall = FALSE] ELSE s
Bridged(s, e, name) == IF Has(s.h[e], name) THEN [s EXCEPT !.h[e][name].bridged = TRUE, !.h[e][name].stall = FALSE] ELSE s

(* C04 at quiescence (both applications kept reading and accepting until nothing moved any more): no writer of a live
   stream is still waiting, and every octet written to a live stream has been read *)
Quiescent(s) ==
  IF ~s.sound THEN s
  ELSE LET live(e, p) == LET x == s.h[e][p] IN ~x.dropped /\ ~x.bridged
           stalled == \E e \in AE : \E p \in DOMAIN s.h[e] :
                        /\ live(e, p) /\ s.h[e][p].stall /\ ~s.h[e][p].shut /\ Paired(s, e, p)
                        /\ live(Other(e), s.h[e][p].mate) /\ ~s.h[Other(e)][s.h[e][p].mate].eof
           undelivered == \E e \in AE : \E p \in DOMAIN s.h[e] :
                        /\ live(e, p) /\ ~s.h[e][p].eof /\ Paired(s, e, p)
                        /\ live(Other(e), s.h[e][p].mate) /\ s.h[e][p].rd < s.h[Other(e)][s.h[e][p].mate].wr
       IN IF stalled THEN Flag(s, "C04.Stall") ELSE IF undelivered THEN Flag(s, "C04.Undelivered") ELSE s

(* --------------------------- datagrams --------------------------- *)
DgSent(s, e, d) == [s EXCEPT !.dgs[e] = Append(@, d)]
(* C11: delivered at most once, unmodified, in the order sent *)
DgGot(s, e, d) ==
  LET sent == s.dgs[Other(e)]
      later == {i \in DOMAIN sent : i > s.dgi[e] /\ sent[i] = d}
  IN IF ~s.sound THEN s
     ELSE IF later = {} THEN Flag(s, IF \E i \in DOMAIN sent : sent[i] = d THEN "C11.OrderOrDup" ELSE "C11.Modified")
     ELSE [s EXCEPT !.dgi[e] = CHOOSE i \in later : \A j \in later : i <= j]

(* ----------------------------- binds ----------------------------- *)
BindCall(s, e, c, id, bt, host, port) == Propose([s EXCEPT !.binds[e] = Put(@, c, [id |-> id, bt |-> bt, host |-> host, port |-> port])], id)
(* C15: the peer application is shown exactly the requested type, host and port under the requester's flow id *)
BindShown(s, e, r, id, bt, host, port) ==
  LET s1 == [s EXCEPT !.breq[e] = Put(@, r, [id |-> id, ans |-> "none"])]
      ok == \E c \in DOMAIN s.binds[Other(e)] :
              LET b == s.binds[Other(e)][c] IN b.id = id /\ b.bt = bt /\ b.host = host /\ b.port = port
  IN IF s.sound /\ ~ok THEN Flag(s1, "C15.Shown") ELSE s1
BindAnswered(s, e, r, ans) ==
  IF Has(s.breq[e], r) /\ s.breq[e][r].ans = "none" THEN [s EXCEPT !.breq[e][r].ans = ans] ELSE s
(* C15: true iff the peer application accepted that very request *)
BindResolved(s, e, c, res) ==
  IF ~s.sound \/ ~Has(s.binds[e], c) THEN s
  ELSE LET id == s.binds[e][c].id
           answers == {s.breq[Other(e)][r].ans : r \in {x \in DOMAIN s.breq[Other(e)] : s.breq[Other(e)][x].id = id}}
       IN IF res = "true" /\ "accept" \notin answers THEN Flag(s, "C15.TrueWithoutAccept")
          ELSE IF res = "false" /\ answers = {"accept"} THEN Flag(s, "C15.FalseDespiteAccept")
          ELSE s
=============================================================================
