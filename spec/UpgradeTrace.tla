---------------------------- MODULE UpgradeTrace ----------------------------
(***************************************************************************)
(* Trace specification for property C14: validates an ndjson log written   *)
(* by harness_app/src/bin/gate.rs (the real rusty_penguin_lib::server::    *)
(* State called in-process as a hyper Service) against the decision table  *)
(* of Upgrade.tla.  Every line is independent:                             *)
(*                                                                         *)
(*  ev = "selftest"  the harness's own SHA-1/base64 on the sample key of   *)
(*                   RFC 6455 1.3 and its spelling of the wanted header    *)
(*                   values (must be the octets of Upgrade.tla)            *)
(*  ev = "case"      one request.  `sent` is the request as it was built   *)
(*                   (read back from the http::Request: method, path,      *)
(*                   query, the values of the six headers as octets, the   *)
(*                   upgrade extension, the configured PSK); `req` is the  *)
(*                   abstract case it was built from.  TLC                  *)
(*                     1. decides the request from its OCTETS (part 2 of   *)
(*                        Upgrade.tla) and demands that every condition    *)
(*                        has the verdict the abstract table (part 1)      *)
(*                        gives to the claimed variant (WellFormed);       *)
(*                     2. compares the observed response with the outcome: *)
(*                        "101"      status 101, exactly one               *)
(*                                   Sec-WebSocket-Protocol = penguin-v7   *)
(*                                   (case-insensitively: the canonical    *)
(*                                   name or the client's spelling),       *)
(*                                   exactly one Sec-WebSocket-Accept =    *)
(*                                   the hash the harness computed from a  *)
(*                                   key that was sent                     *)
(*                        "fallback" status, headers (without Date) and    *)
(*                                   body IDENTICAL to those of the same   *)
(*                                   request on an unknown path (`twin`);  *)
(*                                   with the echo backend, the request    *)
(*                                   target it saw is the path sent        *)
(*                        "either"   one of the two                        *)
(*                        "health",                                        *)
(*                        "version"  anything but a 101                    *)
(*                     and the twin itself is never a 101.                 *)
(*                                                                         *)
(* Acceptance: POSTCONDITION Accepted (as in SocksTrace.tla): unmatched    *)
(* lines are recorded and skipped (Collect = TRUE) or stop the walk; each  *)
(* is reported with a signature (Sig) and the expectation.                 *)
(***************************************************************************)
EXTENDS Upgrade, Json, IOUtils, TLC

CONSTANT Collect

Rec == ndJsonDeserialize(IOEnv.TRACE)

VARIABLE l

SampleKey == "dGhlIHNhbXBsZSBub25jZQ=="            \* RFC 6455 1.3
SampleAccept == "s3pPLMBiTxaQ9kYGzzhZRbK+xOo="
Sha1Abc == "a9993e364706816aba3e25717850c26c9cd0d89d"  \* FIPS 180 example
Special == {"/ws", "/health", "/version"}

MatchSelftest(r) ==
  /\ r.key = SampleKey /\ r.accept = SampleAccept /\ r.accept_crates = SampleAccept
  /\ r.sha1_abc = Sha1Abc
  /\ \A h \in WordHeaders : r.words[h] = Wanted(h)
  /\ r.twin_path \notin Special

IsOctets(v) == \A i \in 1 .. Len(v) : v[i] \in 0 .. 255

\* the line is something the harness can have written for the abstract case it names
Shape(r) ==
  /\ r.req \in Requests
  /\ r.cfg \in Cfgs
  /\ DOMAIN r.sent.h = HeaderNames
  /\ \A h \in HeaderNames : \A i \in 1 .. Len(r.sent.h[h]) : IsOctets(r.sent.h[h][i])
  /\ Len(r.sent.psk_cfg) \in {0, 1}
  /\ \A i \in 1 .. Len(r.sent.psk_cfg) : IsOctets(r.sent.psk_cfg[i]) /\ Len(r.sent.psk_cfg[i]) > 0
  /\ r.sent.ext \in BOOLEAN
  /\ r.twin.path \notin Special

AbsV(r) == Verdicts(r.req, r.cfg)
ConV(r) == ConcVerdicts(r.sent, r.sent.psk_cfg)

WellFormed(r) ==
  /\ Shape(r)
  /\ r.cfg.psk = (Len(r.sent.psk_cfg) = 1)
  /\ r.sent.method = r.req.method
  /\ ConcPathClass(r.sent.path) = PathClass(r.req.path)
  /\ \A k \in CondNames : ConV(r)[k] = AbsV(r)[k]

Exp(r) == ExpectedConc(r.sent, r.cfg.obfs, r.sent.psk_cfg)

Good101(r) ==
  /\ r.status = 101
  /\ Len(r.proto) = 1 /\ LowerSeq(r.proto[1]) = WProto
  /\ Len(r.accept) = 1 /\ Len(r.accept_calc) >= 1
  /\ \E i \in 1 .. Len(r.accept_calc) : r.accept[1] = r.accept_calc[i]

UriOf(p, q) == IF q = "" THEN p ELSE p \o "?" \o q
\* seen_uri: the request target the echo backend reported (empty when the answer did not come from it); it is the
\* one thing that legitimately differs between a request and its twin: each must be the path that was sent
SameTarget(r) ==
  /\ Len(r.seen_uri) = Len(r.twin.seen_uri) /\ Len(r.seen_uri) <= 1
  \* (a CONNECT request carries no path on the wire: its target is the authority, RFC 9110 9.3.6)
  /\ (Len(r.seen_uri) = 1 /\ r.sent.method # "CONNECT") =>
        /\ r.seen_uri[1] = UriOf(r.sent.path, r.sent.query)
        /\ r.twin.seen_uri[1] = UriOf(r.twin.path, r.sent.query)
  /\ (Len(r.seen_uri) = 1 /\ r.sent.method = "CONNECT") => r.seen_uri[1] = r.twin.seen_uri[1]
SameAsTwin(r) ==
  /\ r.status = r.twin.status
  /\ r.headers = r.twin.headers
  /\ r.body = r.twin.body
  /\ SameTarget(r)

MatchCase(r) ==
  /\ WellFormed(r)
  /\ r.res = "ok" /\ r.twin.res = "ok"
  /\ r.twin.status # 101
  /\ LET e == Exp(r) IN
     /\ e = Expected(r.req, r.cfg)
     /\ CASE e = "101"      -> Good101(r)
          [] e = "fallback" -> SameAsTwin(r)
          [] e = "either"   -> Good101(r) \/ SameAsTwin(r)
          [] e \in {"health", "version"} -> r.status # 101

Match(r) ==
  CASE r.ev = "selftest" -> MatchSelftest(r)
    [] r.ev = "case"     -> MatchCase(r)
    [] OTHER -> FALSE

(* ---------------- diagnosis of an unmatched line: a stable signature per class of disagreement ------- *)
Order == <<"method", "query", "ext", "conn", "upgrade", "version", "proto", "key", "psk">>
RECURSIVE JoinNo(_, _, _)
\* names of the conditions with verdict w, in the fixed order, joined by "+"
JoinNo(V, w, i) ==
  IF i > Len(Order) THEN ""
  ELSE LET rest == JoinNo(V, w, i + 1) IN
       IF V[Order[i]] = w THEN (IF rest = "" THEN Order[i] ELSE Order[i] \o "+" \o rest) ELSE rest

\* the fields of the abstract request that are not the valid ones (for a valid request that was refused)
RECURSIVE JoinDev(_, _)
DevName(r, k) == IF k \in HeaderNames THEN k \o "=" \o r.req.h[k]
                 ELSE IF k = "query" THEN "path=" \o r.req.path ELSE k
IsDev(r, k) == CASE k \in HeaderNames -> r.req.h[k] # "exact"
                 [] k = "query" -> r.req.path # "ws"
                 [] k = "ext" -> ~r.req.ext
                 [] OTHER -> FALSE
JoinDev(r, i) ==
  IF i > Len(Order) THEN ""
  ELSE LET rest == JoinDev(r, i + 1) IN
       IF IsDev(r, Order[i]) THEN (IF rest = "" THEN DevName(r, Order[i]) ELSE DevName(r, Order[i]) \o "+" \o rest) ELSE rest

Differs(r) == IF r.status # r.twin.status THEN "status" ELSE IF r.headers # r.twin.headers THEN "headers"
              ELSE IF r.body # r.twin.body THEN "body" ELSE "target"

Sig(r) ==
  IF r.ev = "selftest" THEN "other:selftest"
  ELSE IF r.ev # "case" \/ ~WellFormed(r) THEN "other:malformed_line"
  ELSE IF r.res # "ok" THEN r.res \o ":" \o ConcPathClass(r.sent.path)
  ELSE IF r.twin.res # "ok" THEN r.twin.res \o ":unknown_path"
  ELSE IF r.twin.status = 101 THEN "tunnel_off_path:unknown_path"
  ELSE LET e == Exp(r)
           pc == ConcPathClass(r.sent.path) IN
       IF r.status = 101 /\ pc # "ws" THEN "tunnel_off_path:" \o pc
       ELSE IF r.status = 101 /\ e = "fallback" THEN "accepted_bad:" \o JoinNo(ConV(r), "no", 1)
       ELSE IF r.status = 101 THEN
            (IF ~(Len(r.proto) = 1 /\ LowerSeq(r.proto[1]) = WProto) THEN "bad_101:protocol" ELSE "bad_101:accept")
       ELSE IF e = "101" THEN
            (IF SameAsTwin(r) THEN "refused_valid:" \o JoinDev(r, 1) ELSE "refused_valid_distinguishable:" \o JoinDev(r, 1))
       ELSE IF pc = "ws" THEN "distinguishable:ws:" \o Differs(r)
       ELSE IF pc \in {"health", "version"} /\ r.cfg.obfs THEN "obfs_leak:" \o pc \o ":" \o Differs(r)
       ELSE "distinguishable:" \o pc \o ":" \o Differs(r)

ExpectView(r) ==
  IF r.ev = "case" /\ WellFormed(r)
  THEN [expected |-> Exp(r), verdicts |-> ConV(r), observed |-> r.status, twin |-> r.twin.status]
  ELSE IF r.ev = "case" /\ Shape(r)
  THEN [error |-> "the request that was built does not have the verdicts of the abstract case",
        abstract |-> AbsV(r), concrete |-> ConV(r)]
  ELSE [error |-> "malformed line"]

(* ---------------- the walk over the log ---------------------------------------------------------- *)
\* registers: 1 = furthest line reached, 3 = unmatched lines (Collect)
Init == /\ l = 1
        /\ TLCSet(1, 1) /\ TLCSet(3, <<>>)

Step ==
  /\ l <= Len(Rec)
  /\ IF Match(Rec[l]) THEN TRUE
     ELSE Collect /\ TLCSet(3, Append(TLCGet(3), l))
  /\ l' = l + 1

Next == Step
Spec == Init /\ [][Next]_l

Track == IF TLCGet(1) < l THEN TLCSet(1, l) ELSE TRUE

Bad == TLCGet(3)
FirstBad == IF Len(Bad) > 0 THEN Bad[1] ELSE TLCGet(1)

Accepted ==
  \/ /\ TLCGet(1) = Len(Rec) + 1
     /\ Len(Bad) = 0
     /\ PrintT(<<"ACCEPTED lines", Len(Rec)>>)
  \/ /\ PrintT(<<"REJECTED at line", FirstBad, "of", Len(Rec)>>)
     /\ FirstBad <= Len(Rec) => PrintT(<<"EXPECTED", ToJson(ExpectView(Rec[FirstBad]))>>)
     /\ \A k \in 1 .. Len(Bad) :
          PrintT(<<"BAD", Bad[k], Sig(Rec[Bad[k]]), ToJson(ExpectView(Rec[Bad[k]]))>>)
     /\ PrintT(<<"BADCOUNT", Len(Bad)>>)
     /\ FALSE
=============================================================================
