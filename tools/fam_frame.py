#!/usr/bin/env python3
"""C09 -- wire format: encode/decode are inverse, total, and exactly PROTOCOL.md.

spec/Frame.tla      reference codec written from PROTOCOL.md (Encode / Decode)
spec/MC_Frame.tla   TLC enumerates the cases (frames over boundary domains; ALL byte strings up to a
                    length over a boundary alphabet; ALL field strings behind a valid header; targeted
                    strings), checks Decode(Encode(f)) = f and the soundness of Decode, prints every case
harness frame_vec   replays the cases on the real penguin_mux::frame codec (debug: encode cases; release:
                    everything -- the decoder has a deliberate debug_assert on short input) and draws seeded
                    random frames / byte strings over the full field domains
spec/FrameTrace.tla TLC validates every logged line against Frame.tla

    check(prop, tier, seed, replay) -> 0 held | 1 VIOLATION (replay saved) | raises vlib.ToolError
"""
import fnmatch, json, os, re, shutil, tempfile, time
from concurrent.futures import ThreadPoolExecutor

import vlib
from vlib import log, ToolError

PROP = "C09"
TIERS = dict(
    quick=dict(cfg="MC_Frame_q", mc_timeout=300, random=4000, chunk=100_000, pool=5),
    thorough=dict(cfg="MC_Frame", mc_timeout=3000, random=40_000, chunk=150_000, pool=6),
)
NEEDS = ["Extend", "ExtendTail", "Frames", "Target"]      # vacuity guard: every case source was used
OPNAMES = ["connect", "ack", "reset", "finish", "push", "bind", "dgram"]
CASE_PREFIX = '<<"CASE", "'


# --------------------------------------------------------------------------------------
# helpers
# --------------------------------------------------------------------------------------
def _unescape(s):
    """body of a TLC-printed string -> python string"""
    return s.replace('\\"', '"').replace("\\\\", "\\")


def extract_cases(tlc_out, path):
    """CASE lines of the TLC output -> ndjson file.  Returns counters."""
    cnt = dict(total=0, enc=0, dec=0, dec_ok=0)
    with open(path, "w") as f:
        for l in tlc_out.splitlines():
            if not l.startswith(CASE_PREFIX):
                continue
            s = _unescape(l[len(CASE_PREFIX):-3])
            f.write(s + "\n")
            cnt["total"] += 1
            if s.startswith('{"k":"enc"'):
                cnt["enc"] += 1
            else:
                cnt["dec"] += 1
                if '"ok":true' in s:
                    cnt["dec_ok"] += 1
    return cnt


def run_vec(bin_dir, args):
    rc, out = vlib.run([os.path.join(bin_dir, "frame_vec")] + args, timeout=1800)
    if rc != 0:
        log(out[-3000:])
        raise ToolError("frame_vec failed: " + " ".join(args[:2]))
    try:
        return int(out.strip().splitlines()[-1])
    except Exception:
        raise ToolError("frame_vec printed no line count")


def expand(runs):
    out = []
    for b, n in runs:
        out.extend([b] * n)
    return out


def hexs(b, limit=48):
    s = " ".join(f"{x:02x}" for x in b[:limit])
    return s + (f" ... ({len(b)} octets)" if len(b) > limit else "")


def dec_class(b):
    """which part of the decoder a byte string exercises (labels only; TLC is the oracle)"""
    if len(b) < 5:
        return "short-header"
    ver, op = b[0] >> 4, b[0] & 15
    if ver not in (0, 7):
        return "bad-version"
    if op > 6:
        return "bad-opcode"
    return OPNAMES[op]


def signature(rec, exp):
    """stable label of a disagreement between the real codec (rec) and the specification (exp)"""
    if rec.get("k") == "encx":
        return "encx:dgram:oversize-host-encoded"
    if rec.get("k") == "enc":
        op = rec.get("f", {}).get("op", "?")
        if not rec.get("out"):
            return f"enc:{op}:not-constructible"
        if any(o.get("p") for o in rec["out"]):
            return f"enc:{op}:panic"
        if exp and any(o.get("b") != exp.get("bytes") for o in rec["out"]):
            return f"enc:{op}:bytes"
        if any(x != "true" for x in rec.get("ceq", [])):
            return f"enc:{op}:constructors-differ"
        rs = sorted({o.get("r") + ("(" + o["e"] + ")" if o.get("r") == "err" else "") for o in rec.get("back", [])})
        if rs != ["ok"]:
            return f"enc:{op}:decode-back={'+'.join(rs)}"
        return f"enc:{op}:decode-back-differs"
    if rec.get("k") == "dec":
        cls = dec_class(expand(rec.get("b", [])))
        spec = "ok" if exp and exp.get("ok") else "bad"
        rs = sorted({o.get("r") + ("(" + o["e"] + ")" if o.get("r") == "err" else "") for o in rec.get("o", [])})
        impl = "+".join(rs)
        if spec == "ok" and rs == ["ok"]:
            what = []
            for o in rec["o"]:
                if o["id"] != exp["f"]["id"]:
                    what.append("id")
                if o["op"] != 112 + OPNAMES.index(exp["f"]["op"]):
                    what.append("opcode")
                if o["re"] != exp["re"] or o["reb"] != exp["re"]:
                    what.append("fields")
                if o["eq"] != exp["eq"] or o["eqr"] != exp["eq"]:
                    what.append("equality")
            return f"dec:{cls}:spec=ok:impl=ok:differs={'+'.join(sorted(set(what)))}"
        return f"dec:{cls}:spec={spec}:impl={impl}"
    return "unknown-line"


def describe(rec, exp, sig, profile):
    out = [f"signature: {sig}   (build profile: {profile})"]
    if rec.get("k") in ("enc", "encx"):
        f = rec["f"]
        out.append(f"frame: op={f['op']} id={f['id']} n={f['n']} port={f['port']} bind_type={f['bt']} "
                   f"host={len(expand(f['host']))} octets data={len(expand(f['data']))} octets")
        for o in rec.get("out", []):
            out.append("  real encoder : " + ("PANIC " + o.get("e", "") if o.get("p") else hexs(expand(o["b"]))))
        if exp:
            out.append("  PROTOCOL.md  : " + hexs(expand(exp.get("bytes", []))))
        out.append(f"  constructor variants equal: {rec.get('ceq')}")
        for o in rec.get("back", []):
            out.append("  decoding the produced bytes: " + json.dumps(o)[:400])
    else:
        b = expand(rec.get("b", []))
        out.append(f"bytes ({len(b)}): {hexs(b)}")
        for o in rec.get("o", []):
            out.append("  real decoder : " + json.dumps(o)[:400])
        out.append("  PROTOCOL.md  : " + (json.dumps(exp)[:400] if exp else "?"))
        if rec.get("hp"):
            out.append("  probe frame (compared with ==): " + json.dumps(rec.get("p"))[:300])
    return "\n".join(out)


def line_to_case(rec):
    """a logged line -> the case that produced it (for --replay)"""
    if rec["k"] in ("enc", "encx"):
        return dict(k=rec["k"], f=rec["f"])
    c = dict(k="dec", b=rec["b"], ok=bool(rec.get("hp")))
    if rec.get("hp"):
        c["f"] = rec["p"]
    return c


REJECT_RE = re.compile(r'^<<"REJECT", (\d+), "(.*)">>$', re.M)
TOTAL_RE = re.compile(r'<<"UNMATCHED-TOTAL", (\d+), "visited", (\d+)>>')
VALID_RE = re.compile(r'<<"VALIDATED", (\d+)>>')


def validate_chunk(path, nlines):
    """One TLC run of FrameTrace over a chunk.  Returns dict(lines, rejected=[(line_no, expected)], total_rejected, states)."""
    r = vlib.validate_once("FrameTrace", "FrameTrace", path, timeout=3000, xmx="6g")
    res = dict(lines=nlines, rejected=[], total_rejected=0, states=r["states"])
    if r["accepted"]:
        m = VALID_RE.search(r["out"])
        if not m or int(m.group(1)) != nlines:
            raise ToolError(f"FrameTrace validated {m.group(1) if m else '?'} lines of {nlines} in {path}")
        return res
    mt = TOTAL_RE.search(r["out"])
    if not mt:
        log(r["out"][-3000:])
        raise ToolError("FrameTrace rejected a chunk without a report")
    res["total_rejected"] = int(mt.group(1))
    if int(mt.group(2)) != nlines:
        raise ToolError(f"FrameTrace visited {mt.group(2)} lines of {nlines}")
    for m in REJECT_RE.finditer(r["out"]):
        try:
            exp = json.loads(_unescape(m.group(2)))
        except Exception:
            exp = None
        res["rejected"].append((int(m.group(1)), exp))
    if res["total_rejected"] == 0:
        log(r["out"][-3000:])
        raise ToolError("FrameTrace rejected a chunk but names no line")
    return res


def validate_log(path, profile, source, work, chunk, pool):
    """Split a log into chunks, validate them in parallel.  Returns (lines, accepted, states, rejections)
    with rejections = [dict(line=text, rec, exp, sig, profile, source)]."""
    with open(path) as f:
        lines = f.readlines()
    if not lines:
        raise ToolError(f"empty log {path}")
    parts = []
    for k in range(0, len(lines), chunk):
        p = os.path.join(work, f"{os.path.basename(path)}.{k // chunk}")
        with open(p, "w") as f:
            f.writelines(lines[k:k + chunk])
        parts.append((p, k, min(chunk, len(lines) - k)))
    with ThreadPoolExecutor(max_workers=pool) as ex:
        results = list(ex.map(lambda a: validate_chunk(a[0], a[2]), parts))
    rejections = []
    states = 0
    bad = 0
    for (p, k, n), r in zip(parts, results):
        states += r["states"]
        bad += r["total_rejected"]
        for no, exp in r["rejected"]:
            text = lines[k + no - 1]
            rec = json.loads(text)
            rejections.append(dict(line=text, rec=rec, exp=exp, sig=signature(rec, exp), profile=profile, source=source))
        os.unlink(p)
    return lines, len(lines) - bad, states, rejections, bad


def known_entries():
    return [k for k in vlib.load_known() if k.get("property") == PROP and k.get("status") == "open" and k.get("sig")]


def classify(lines, stats, seen, samples):
    """count the kinds of case in a log (labels for the evidence; not a verdict)"""
    for text in lines:
        rec = json.loads(text)
        if rec["k"] in ("enc", "encx"):
            kind = rec["k"] + ":" + rec["f"]["op"]
            nontrivial = True
        else:
            b = expand(rec["b"])
            cls = dec_class(b)
            accepted = any(o.get("r") == "ok" for o in rec["o"])
            kind = f"dec:{cls}:{'accepted' if accepted else 'rejected'}"
            nontrivial = cls in OPNAMES
        stats[kind] = stats.get(kind, 0) + 1
        stats["api_calls"] = stats.get("api_calls", 0) + rec.get("nv", 0)
        if nontrivial:
            seen.add(hash(text[:4000]) ^ len(text))
        if kind not in samples and len(text) < 700:
            samples[kind] = rec


# --------------------------------------------------------------------------------------
def check(prop, tier, seed, replay):
    if prop != PROP:
        raise ToolError(f"fam_frame checks {PROP}, not {prop}")
    T = TIERS[tier]
    t0 = time.time()
    dbg = vlib.build_harness(["frame_vec"], release=False)
    rel = vlib.build_harness(["frame_vec"], release=True)
    work = tempfile.mkdtemp(prefix=f"{PROP}_", dir=vlib.WORK)
    try:
        mc = None
        cnt = dict(total=0, enc=0, dec=0, dec_ok=0)
        logs = []                      # (path, profile, source)
        if replay:
            cases = os.path.join(work, "replay_cases.ndjson")
            n = 0
            with open(replay) as f, open(cases, "w") as o:
                for l in f:
                    if l.strip():
                        o.write(json.dumps(line_to_case(json.loads(l)), separators=(",", ":")) + "\n")
                        n += 1
            if n == 0:
                raise ToolError("empty replay file")
            p = os.path.join(work, "replay_rel.ndjson")
            run_vec(rel, ["cases", cases, p])
            logs.append((p, "release", "replay"))
            p = os.path.join(work, "replay_dbg.ndjson")
            if run_vec(dbg, ["cases", cases, p, "enc-only"]) > 0:
                logs.append((p, "debug", "replay"))
        else:
            # 1. the specification: TLC enumerates and checks the cases
            mc = vlib.model_check("MC_Frame", T["cfg"], workers=8, timeout=T["mc_timeout"], xmx="12g")
            if not mc["ok"]:
                log(mc["out"][-3000:])
                raise ToolError(f"spec/MC_Frame.tla ({T['cfg']}) violates {mc['violated']}: the reference codec is not "
                                "an inverse pair / not sound -- triage the specification")
            for a in NEEDS:
                if mc["coverage"].get(a, (0, 0))[0] == 0:
                    raise ToolError(f"vacuous enumeration: action {a} produced no case in {T['cfg']}")
            cases = os.path.join(work, "cases.ndjson")
            cnt = extract_cases(mc["out"], cases)
            mc["out"] = ""
            if cnt["total"] != mc["distinct"] or cnt["enc"] == 0 or cnt["dec_ok"] == 0 or cnt["dec"] == cnt["dec_ok"]:
                raise ToolError(f"case set does not match the state space: {cnt} vs {mc['distinct']} distinct states")
            log(f"[mc] {T['cfg']}: {mc['distinct']} distinct states (= cases: {cnt['enc']} encode, {cnt['dec']} decode of which "
                f"{cnt['dec_ok']} valid), {mc['states']} generated, {mc['wall']:.1f}s; Decode(Encode(f)) = f and DecodeSound hold")
            # 2. the implementation: replay on the real codec
            t1 = time.time()
            p = os.path.join(work, "cases_rel.ndjson")
            n = run_vec(rel, ["cases", cases, p])
            if n != cnt["total"]:
                raise ToolError(f"release replay logged {n} of {cnt['total']} cases")
            logs.append((p, "release", "tlc-cases"))
            p = os.path.join(work, "cases_dbg.ndjson")
            n = run_vec(dbg, ["cases", cases, p, "enc-only"])
            if n != cnt["enc"]:
                raise ToolError(f"debug replay logged {n} of {cnt['enc']} encode cases")
            logs.append((p, "debug", "tlc-cases"))
            # frames the constructors accept but the layout cannot carry: Datagram hosts beyond the one-octet length field
            ox = os.path.join(work, "oversize.ndjson")
            with open(ox, "w") as f:
                for hl in (256, 257, 300, 511, 512, 65536, 65536 + 7):
                    for dl in (0, 1, 5):
                        f.write(json.dumps(dict(k="encx", f=dict(op="dgram", id=[0, 0, 0, 1 + hl % 3], n=[0, 0, 0, 0], port=53 + dl, bt=0,
                                                                   host=[[120, hl]], data=[[7, dl]] if dl else [])), separators=(",", ":")) + "\n")
            for bd, prof in ((rel, "release"), (dbg, "debug")):
                p = os.path.join(work, f"oversize_{prof}.ndjson")
                if run_vec(bd, ["cases", ox, p]) != 21:
                    raise ToolError("frame_vec did not log the 21 oversize cases")
                logs.append((p, prof, "oversize"))
            p = os.path.join(work, "random_rel.ndjson")
            n = run_vec(rel, ["random", str(seed), str(T["random"]), p])
            if n < 2 * T["random"]:
                raise ToolError("random mode logged too few lines")
            logs.append((p, "release", f"random seed={seed}"))
            p = os.path.join(work, "random_dbg.ndjson")
            run_vec(dbg, ["random", str(seed), str(T["random"]), p, "enc-only"])
            logs.append((p, "debug", f"random seed={seed}"))
            log(f"[impl] frame_vec: cases replayed (release: all, debug: encode) + {T['random']} random frames with mutated "
                f"and random strings, {time.time()-t1:.1f}s")
        # 3. TLC validates every logged line
        total = accepted = tv_states = 0
        rejections = []
        stats, seen, samples = {}, set(), {}
        per_log = []
        for path, profile, source in logs:
            t1 = time.time()
            lines, acc, st, rej, bad = validate_log(path, profile, source, work, T["chunk"], T["pool"])
            total += len(lines)
            accepted += acc
            tv_states += st
            rejections += rej
            if bad > len(rej):
                log(f"[trace] note: {bad} lines rejected, the first {len(rej)} are reported")
            classify(lines, stats, seen, samples)
            per_log.append(dict(source=source, profile=profile, lines=len(lines), accepted=acc, wall_s=round(time.time() - t1, 1)))
            log(f"[trace] {source} ({profile}): {len(lines)} lines, {acc} accepted by TLC, {bad} rejected, {time.time()-t1:.1f}s")
        wall = time.time() - t0
        # verdict
        known = known_entries()
        kf_hit = {}
        violations = {}
        for r in rejections:
            k = next((k for k in known if fnmatch.fnmatchcase(r["sig"], k["sig"])), None)
            if k is not None:
                kf_hit.setdefault(k["sig"], [k, 0])[1] += 1
            else:
                violations.setdefault((r["sig"], r["profile"]), []).append(r)
        for sig, (k, n) in kf_hit.items():
            print(f"KNOWN-FINDING: property={PROP} {k.get('what', sig)} [sig {sig}, {n} cases]", flush=True)
        vio_paths = []
        for (sig, profile), rs in sorted(violations.items()):
            note = "\n\n".join(describe(r["rec"], r["exp"], sig, profile) for r in rs[:5])
            note += f"\n\n{len(rs)} rejected lines with this signature (source: {rs[0]['source']})"
            if replay:
                path = replay
            else:
                name = re.sub(r"[^A-Za-z0-9]+", "_", sig)[:60] + "_" + profile
                path = vlib.save_replay(PROP, name, [r["line"] for r in rs[:50]], note=note)
            log(note)
            vio_paths.append(path)
        if not replay:
            coverage = dict(
                states=mc["distinct"], transitions=mc["states"],
                traces_validated_against_impl=accepted, evaluations=total,
                distinct_nontrivial=len(seen),
                rule="a logged case counts when it is an encode case (constructors -> bytes -> decoded back) or a decode case whose "
                     "string has a complete header with a valid version nibble and a known opcode, i.e. the per-opcode field "
                     "parsing decided the outcome; counted as distinct log lines",
                tlc_cases=cnt, case_kinds=dict(sorted(stats.items())),
                codec_api_calls=stats.get("api_calls", 0),
                trace_validation_states=tv_states, logs=per_log,
                model_checking_runs=[dict(config=T["cfg"], distinct_states=mc["distinct"], states_generated=mc["states"],
                                          wall_s=round(mc["wall"], 1),
                                          actions={a: mc["coverage"].get(a, (0, 0))[0] for a in NEEDS})],
                known_findings_met=sorted(kf_hit), rejected_signatures=sorted({r["sig"] for r in rejections}),
                samples=[samples[k] for k in sorted(samples)][:8] or [dict(note="no sample")],
                exhaustive=False,
                explanation="TLC enumerates spec/MC_Frame.tla: every state is one case (frames over the corner values of every "
                            "field; all byte strings up to MaxLen over a boundary alphabet; all field strings up to TailLen behind "
                            "a valid header of every opcode; every value of the first octet x critical sixth octet x length; "
                            "datagrams around host_len = remaining; every prefix / surplus / version form of typical frames) and "
                            "checks Decode(Encode(f)) = f and DecodeSound on it. frame_vec replays every case on the real "
                            "penguin_mux::frame codec through every public constructor, encoder and decoder (decode cases in the "
                            "release profile only) and adds seeded random frames over the full field domains with mutated and "
                            "random strings; TLC validates every logged line against spec/Frame.tla (spec/FrameTrace.tla)",
            )
            vlib.write_evidence(PROP, tier, seed, coverage, wall, len(vio_paths), assumptions=[
                "PROTOCOL.md is silent about octets after the last field of Acknowledge/Reset/Finish: they are taken to be "
                "ignored (Frame.tla Trailing = \"ignore\"; C09 lists minimum field lengths only)",
                "the zero-filled version nibble is accepted as the lenient form named by C09 (it is not in PROTOCOL.md)",
                "target_host is treated as octets by the codec (UTF-8 validity is the consumer's concern); a Datagram host longer "
                "than 255 octets has no encoding and is outside the property's domain",
                "arbitrary strings are decoded in the release profile only (debug builds assert on short input by design)",
                "payload contents are opaque to the codec: long random payloads/hosts are drawn as a few runs of random octets",
            ])
        if vio_paths:
            for p in vio_paths[:8]:
                print(f"VIOLATION property={PROP} replay={p}", flush=True)
            return 1
        if replay:
            log(f"{PROP} replay: every line of {replay} is accepted on the current tree ({wall:.0f}s)")
        else:
            log(f"{PROP} held on everything explored: {total} logged cases, all accepted by TLC ({wall:.0f}s)")
        return 0
    finally:
        shutil.rmtree(work, ignore_errors=True)
