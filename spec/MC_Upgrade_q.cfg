\* C14 quick: the valid request, every single deviation (with every pick) and all pairs of deviations,
\* x 4 configurations, fallback = configured 404
SPECIFICATION Spec
CONSTANTS
  MaxDev = 2
  UseBackends = {"none"}
  NPick = 10
INVARIANTS TypeOK Laws Single Emit
CHECK_DEADLOCK FALSE
