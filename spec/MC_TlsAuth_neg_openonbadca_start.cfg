\* C17 negative control "openonbadca" at START-UP (duplex scripts that begin with a start on an unusable bundle, no failed reload):
\* TLC must find JudgedAsConfigured violated (whoever connects now would be admitted)
SPECIFICATION Spec
CONSTANTS
  Mode = "openonbadca"
  MaxConn = 2
  MaxReload = 2
  MaxUse = 2
  Mtls = {}
  RMaxConn = 2
  RMaxReload = 1
  RMaxUse = 1
  RealMtls = {}
  RotConn = 0
  RotReload = 0
  RotRotate = 0
  RotUse = 0
  RRotConn = 0
  RRotReload = 0
  RRotRotate = 0
  RRotUse = 0
  CliConn = 0
  CliRotate = 0
  FConn = 2
  FReload = 1
  FBotch = 0
  FUse = 1
  FailMtls = {}
  ResConn = 0
  ResReload = 0
  ResRotate = 0
  ResUse = 0
  ResMtls = {}
  RResConn = 0
  RResReload = 0
  RResRotate = 0
  RResUse = 0
  RResMtls = {}
  Extra = {"fca"}
INVARIANTS TypeOK JudgedAsConfigured
CHECK_DEADLOCK FALSE
