------------------------------- MODULE Bridge -------------------------------
(***************************************************************************)
(* C13: the stream-to-socket bridge (MuxStream::into_copy_bidirectional,   *)
(* penguin-mux/src/stream_tools/copy_bidirectional.rs) on top of the       *)
(* multiplexing specification.  One action = one poll of the bridge future *)
(* against an environment that scripts the answers of the local side for   *)
(* that poll:                                                              *)
(*   env.rd  answers of successive poll_fill_buf calls when the local read *)
(*           buffer is empty: data(n) | eof | err | pending                *)
(*   env.wr  answers of successive poll_write calls: ready(k) | err | pending *)
(*   env.fl, env.sh  answer of poll_flush / poll_shutdown                  *)
(* An exhausted list answers pending.  The mux side (inbound queue,        *)
(* credit, closed flag, frames) is the state of PenguinMux.                *)
(*                                                                         *)
(* The step function follows the structure of the implementation           *)
(* (read direction first, then write direction; the write direction        *)
(* coalesces everything the local side has ready into one frame), because  *)
(* that is what fixes which frames appear on the link.  What C13 demands   *)
(* beyond that is checked by monitors: relayed bytes (ReadCheck of         *)
(* PenguinMux on the bytes handed to the local side), one unit of credit   *)
(* per frame (C03 monitors), an operation that failed in a poll makes that *)
(* very poll return the error (by construction here; the implementation is *)
(* bound to it by trace validation), and the PROGRESS RULE: a poll may     *)
(* return Pending only if every unfinished direction waits on something    *)
(* that holds the bridge's waker.                                          *)
(***************************************************************************)
EXTENDS PenguinMux

Ans(k, n) == [k |-> k, n |-> n]
APending == Ans("pending", 0)
Nth(seq, i) == IF i <= Len(seq) THEN seq[i] ELSE APending

NewBridge(h) ==
  [h |-> h, rs |-> "T", rn |-> 0, ws |-> "T", wn |-> 0,
   avail |-> 0,          \* bytes in the local read buffer not yet consumed by the bridge
   lwr |-> 0,            \* bytes written to the local side so far
   shut |-> FALSE,       \* poll_shutdown of the local side completed
   leof |-> FALSE,       \* the local side reported end of input
   res |-> ""]           \* "" while running, then "ok" | "err"

(* the application turns stream handle h into a bridge; the handle is owned by the bridge from now on *)
BridgeStart(s, e, h) ==
  IF h \notin DOMAIN s.hnd[e] \/ s.hnd[e][h].st # "app" THEN {}
  ELSE {Obs([s EXCEPT !.br[e] = Append(@, NewBridge(h)), !.hnd[e][h].st = "bridge"],
            [NoObs EXCEPT !.res = "ok", !.h = Len(s.br[e]) + 1])}

(* ------------------------------------------------------------------ *)
(* poll_fill_buf / consume on the mux side (AsyncBufRead of MuxStream)  *)
(* ------------------------------------------------------------------ *)
RECURSIVE FillUs(_, _, _)
(* returns a set of [s, k] with k \in {"data", "eof", "pending"} *)
FillUs(s, e, h) ==
  LET x == s.hnd[e][h] IN
  IF x.buf.len > 0 THEN {[s |-> s, k |-> "data"]}
  ELSE IF x.inq # <<>> /\ ~x.rdClosed THEN UNION {FillUs(t, e, h) : t \in PopFrame(s, e, h)}
  ELSE IF SenderAlive(s, e, h) /\ ~x.rdClosed THEN {[s |-> [s EXCEPT !.hnd[e][h].rreg = TRUE], k |-> "pending"]}
  ELSE {[s |-> [t EXCEPT !.hnd[e][h].eofSeen = TRUE, !.hnd[e][h].rdClosed = TRUE, !.hnd[e][h].rreg = FALSE], k |-> "eof"]
          : t \in {EofCheck(s, e, h)}}

ConsumeUs(s, e, h, n) ==
  LET x == s.hnd[e][h] IN
  [ReadCheck(s, e, h, x.buf) EXCEPT
     !.hnd[e][h].buf = [w |-> x.buf.w, off |-> x.buf.off + n, len |-> x.buf.len - n],
     !.hnd[e][h].roff = @ + n]

(* ------------------------------------------------------------------ *)
(* read direction: mux -> local                                         *)
(* result record [s, r, wi, hold]: r \in {"pending", "ready", "err"}, wi = next index in env.wr *)
(* ------------------------------------------------------------------ *)
RECURSIVE ReadLoop(_, _, _, _, _, _)
ReadLoop(s, e, b, env, wi, guard) ==
  LET B == s.br[e][b]
      h == B.h IN
  UNION {
    LET t == f.s IN
    CASE f.k = "pending" -> {[s |-> t, r |-> "pending", wi |-> wi, hold |-> {"us_r"}]}
      [] f.k = "eof" ->
           LET t1 == [t EXCEPT !.br[e][b].rs = "S"] IN
           CASE env.sh.k = "ready" ->
                  {[s |-> [t1 EXCEPT !.br[e][b].rs = "D", !.br[e][b].shut = TRUE, !.obs.n = t1.obs.n + 1],
                    r |-> "ready", wi |-> wi, hold |-> {}]}
             [] env.sh.k = "err" -> {[s |-> [t1 EXCEPT !.obs.n = t1.obs.n + 1], r |-> "err", wi |-> wi, hold |-> {}]}
             [] OTHER -> {[s |-> [t1 EXCEPT !.obs.n = t1.obs.n + 1], r |-> "pending", wi |-> wi, hold |-> {"l_sh"}]}
      [] OTHER ->   (* data in the buffer: offer all of it to the local side *)
           LET a  == Nth(env.wr, wi)
               x  == t.hnd[e][h] IN
           CASE a.k = "pending" -> {[s |-> t, r |-> "pending", wi |-> wi + 1, hold |-> {"l_wr"}]}
             [] a.k = "err"     -> {[s |-> t, r |-> "err", wi |-> wi + 1, hold |-> {}]}
             [] OTHER ->
                  LET k  == Min2(a.n, x.buf.len)
                      t1 == ConsumeUs(t, e, h, k)
                      t2 == [t1 EXCEPT !.br[e][b].rn = @ + k, !.br[e][b].lwr = @ + k,
                                       !.obs.sent = Append(@, [MkMsg("lw") EXCEPT !.w = x.buf.w, !.off = x.buf.off, !.len = k])]
                  IN IF guard = 0 THEN {} ELSE ReadLoop(t2, e, b, env, wi + 1, guard - 1)
    : f \in FillUs(s, e, h) }

ReadUs(s, e, b, env) ==
  LET B == s.br[e][b] IN
  CASE B.rs = "D" -> {[s |-> s, r |-> "ready", wi |-> 1, hold |-> {}]}
    [] B.rs = "S" ->
         CASE env.sh.k = "ready" ->
                {[s |-> [s EXCEPT !.br[e][b].rs = "D", !.br[e][b].shut = TRUE, !.obs.n = s.obs.n + 1], r |-> "ready", wi |-> 1, hold |-> {}]}
           [] env.sh.k = "err" -> {[s |-> [s EXCEPT !.obs.n = s.obs.n + 1], r |-> "err", wi |-> 1, hold |-> {}]}
           [] OTHER -> {[s |-> [s EXCEPT !.obs.n = s.obs.n + 1], r |-> "pending", wi |-> 1, hold |-> {"l_sh"}]}
    [] OTHER -> ReadLoop(s, e, b, env, 1, 64)

(* ------------------------------------------------------------------ *)
(* write direction: local -> mux                                        *)
(* ------------------------------------------------------------------ *)
(* poll_fill_buf of the local side: the buffer keeps what was not consumed; answers refill it *)
LocalFill(B, env, ri) ==
  IF B.avail > 0 THEN [k |-> "data", n |-> B.avail, ri |-> ri]
  ELSE IF B.leof THEN [k |-> "eof", n |-> 0, ri |-> ri]
  ELSE LET a == Nth(env.rd, ri) IN [k |-> a.k, n |-> a.n, ri |-> ri + 1]

(* coalescing loop after the first chunk was taken: returns [len, ri, shutdown, err, pend] *)
RECURSIVE Coalesce(_, _, _, _)
Coalesce(env, ri, len, guard) ==
  LET a == Nth(env.rd, ri) IN
  IF guard = 0 THEN [len |-> len, ri |-> ri, fin |-> FALSE, err |-> FALSE]
  ELSE CASE a.k = "data" /\ a.n > 0 -> Coalesce(env, ri + 1, len + a.n, guard - 1)
         [] a.k = "eof" \/ (a.k = "data" /\ a.n = 0) -> [len |-> len, ri |-> ri + 1, fin |-> TRUE, err |-> FALSE]
         [] a.k = "err" -> [len |-> len, ri |-> ri + 1, fin |-> FALSE, err |-> TRUE]
         [] OTHER -> [len |-> len, ri |-> ri + 1, fin |-> FALSE, err |-> FALSE]

WriteUs(s, e, b, env) ==
  LET B == s.br[e][b]
      h == B.h
      x == s.hnd[e][h] IN
  IF B.ws = "D" THEN [s |-> s, r |-> "ready", hold |-> {}]
  ELSE
    LET f == LocalFill(B, env, 1) IN
    CASE f.k = "pending" ->
           (CASE env.fl.k = "err" -> [s |-> [s EXCEPT !.obs.bt = 1], r |-> "err", hold |-> {}]
              [] env.fl.k = "pending" -> [s |-> [s EXCEPT !.obs.bt = 1], r |-> "pending", hold |-> {"l_rd", "l_fl"}]
              [] OTHER -> [s |-> [s EXCEPT !.obs.bt = 1], r |-> "pending", hold |-> {"l_rd"}])
      [] f.k = "err" -> [s |-> s, r |-> "err", hold |-> {}]
      [] f.k = "eof" \/ (f.k = "data" /\ f.n = 0) ->
           LET s1 == IF x.closedW THEN s
                     ELSE Out([s EXCEPT !.hnd[e][h].closedW = TRUE, !.hnd[e][h].finQ = ~s.outClosed[e]], e, MFinish(x.id, x.conn))
           IN [s |-> [s1 EXCEPT !.br[e][b].ws = "D", !.br[e][b].leof = TRUE], r |-> "ready", hold |-> {}]
      [] OTHER ->   (* data available: needs one unit of credit *)
           IF x.closedW THEN [s |-> [s EXCEPT !.br[e][b].avail = f.n], r |-> "err", hold |-> {}]
           ELSE IF x.credit = 0
                THEN [s |-> [s EXCEPT !.br[e][b].avail = f.n, !.hnd[e][h].wreg = TRUE], r |-> "pending", hold |-> {"us_w"}]
           ELSE
             LET c  == Coalesce(env, f.ri, f.n, 64)
                 s1 == [s EXCEPT !.hnd[e][h].credit = @ - 1, !.hnd[e][h].woff = @ + c.len, !.hnd[e][h].wreg = FALSE,
                                 !.br[e][b].avail = 0, !.br[e][b].wn = @ + c.len, !.obs.off = c.len]
                 sent == ~s.outClosed[e]
                 s2 == Out(s1, e, MPush(x.id, h, x.woff, c.len, x.conn))
             IN IF ~sent THEN [s |-> s1, r |-> "err", hold |-> {}]
                ELSE IF c.err THEN [s |-> s2, r |-> "err", hold |-> {}]          \* the failed read is reported, after the frame
                ELSE IF c.fin THEN
                  [s |-> [Out([s2 EXCEPT !.hnd[e][h].closedW = TRUE, !.hnd[e][h].finQ = TRUE], e, MFinish(x.id, x.conn))
                            EXCEPT !.br[e][b].ws = "D", !.br[e][b].leof = TRUE],
                   r |-> "ready", hold |-> {}]
                ELSE [s |-> s2, r |-> "pending", hold |-> {"l_rd"}]

(* ------------------------------------------------------------------ *)
(* one poll of the bridge future                                        *)
(* obs: res = "pending" | "ok" | "err"; n = number of poll_shutdown calls on the local side;          *)
(*      sent = what was written to the local side ("lw" records); off = local bytes consumed;         *)
(*      bt = 1 if the local side was flushed; id/port = the two byte counts of an "ok" result        *)
(* ------------------------------------------------------------------ *)
BridgePoll(s, e, b, env) ==
  IF b \notin DOMAIN s.br[e] \/ s.br[e][b].res # "" THEN {}
  ELSE
    UNION {
      IF rr.r = "err" THEN {[rr.s EXCEPT !.br[e][b].res = "err", !.obs.res = "err", !.obs.wake = {}]}
      ELSE LET ww == WriteUs(rr.s, e, b, env)
               t  == ww.s
           IN IF ww.r = "err" THEN {[t EXCEPT !.br[e][b].res = "err", !.obs.res = "err", !.obs.wake = {}]}
              ELSE IF rr.r = "ready" /\ ww.r = "ready"
                   THEN {[t EXCEPT !.br[e][b].res = "ok", !.obs.res = "ok", !.obs.id = t.br[e][b].rn, !.obs.port = t.br[e][b].wn,
                                   !.obs.wake = {}]}
              ELSE (* PROGRESS RULE: every unfinished direction waits on something that holds the waker *)
                   LET holds == (IF rr.r = "pending" THEN rr.hold ELSE {}) \cup (IF ww.r = "pending" THEN ww.hold ELSE {})
                       ok == (rr.r = "pending" => rr.hold # {}) /\ (ww.r = "pending" => ww.hold # {})
                   IN {[(IF ok THEN t ELSE Flag(t, "C13.PendingWithoutWaker")) EXCEPT
                           !.obs.res = "pending", !.obs.wake = {}, !.obs.hold = holds]}
      : rr \in ReadUs(Obs(s, NoObs), e, b, env) }

(* the bridge future is dropped by the application: the stream handle goes with it *)
BridgeDrop(s, e, b) ==
  IF b \notin DOMAIN s.br[e] \/ s.br[e][b].res = "dropped" THEN {}
  ELSE LET h == s.br[e][b].h IN
       {Obs(DropHandle([s EXCEPT !.br[e][b].res = "dropped"], e, h), [NoObs EXCEPT !.res = "ok"])}
=============================================================================
