\* C17 thorough: the 72 cells of the matrix + every interleaving of <= 3 connections, <= 3 reloads, <= 3 uses,
\* with and without mutual TLS (duplex scripts) + the real-server scripts: <= 3 connections (each presenting the
\* trusted client certificate, none, or one of another CA) x <= 2 reloads x <= 2 uses, with and without mutual TLS
\* + rotation of the client CA in place (mutual TLS; a connection presents no certificate or one of any generation of the CA):
\*   duplex 2 connections x 2 rotations x 2 reloads x <= 1 use, real server 3 connections x 1 rotation x 2 reloads x <= 1 use
\* + failed reloads (real server, with and without mutual TLS): 2 connections x 2 failed reloads x 2 reloads x <= 1 use
\* + unusable client-CA bundle (mutual TLS; duplex and real server; bounds F*): connections presenting no / a foreign / the trusted
\*   certificate x failed reloads caused by a bundle that yields no CA x reloads (duplex: x <= FUse uses, optionally a botched start-up)
\* + client side: 4 connections x 2 replacements of the roots file in place
SPECIFICATION Spec
CONSTANTS
  Mode = "swap"
  MaxConn = 3
  MaxReload = 3
  MaxUse = 3
  Mtls = {FALSE, TRUE}
  RMaxConn = 3
  RMaxReload = 2
  RMaxUse = 2
  RealMtls = {FALSE, TRUE}
  RotConn = 2
  RotReload = 2
  RotRotate = 2
  RotUse = 1
  RRotConn = 3
  RRotReload = 2
  RRotRotate = 1
  RRotUse = 1
  CliConn = 4
  CliRotate = 2
  FConn = 2
  FReload = 2
  FBotch = 2
  FUse = 1
  FailMtls = {FALSE, TRUE}
  ResConn = 3
  ResReload = 2
  ResRotate = 1
  ResUse = 1
  ResMtls = {FALSE, TRUE}
  RResConn = 3
  RResReload = 1
  RResRotate = 1
  RResUse = 1
  RResMtls = {FALSE, TRUE}
  Extra = {"rot", "rrot", "client", "rfail", "res", "rres", "fca", "rfca"}
INVARIANTS TypeOK Undisturbed Fresh ConfigKept CAFollows JudgedAsConfigured TicketsOfThisConfiguration Authenticated ClientFollowsRoots Emit
CHECK_DEADLOCK FALSE
