\* WsAdapter thorough: bounded-exhaustive enumeration of the scripts, depth 3, every boundary length
SPECIFICATION SpecEnum
CONSTANTS
  EofNoneOk = TRUE
  Depth = 3
  FeedData <- FeedDataT
  FeedCtl <- FeedCtlT
  CloseVars = {0, 1, 2, 3}
  Frags <- FragsT
  Bads = {"opcode", "rsv", "bigctl", "fragctl", "mask"}
  Ends = {"eof", "ioerr", "ioerr_rst"}
  SendLens = {0, 1, 125, 126, 65535, 65536, 200000}
  SendKinds = {"ping", "pong", "close"}
  Wfail = TRUE
INVARIANTS Emit
CHECK_DEADLOCK FALSE
