SPECIFICATION Spec
CONSTANTS
  AckMode = "shaped"
  ThrMode = "fixed"
  EmptyMode = "fixed"
  RstMode = "fixed"
  CfgSet <- CancelCfgs
  SameCfg = TRUE
  Openers = {"A"}
  MaxOpens = 1
  Ids = {1, 2}
  Hosts = {"h0"}
  MaxWrites = 0
  Writers = {"A", "B"}
  Lens = {1}
  ReadMax = {4}
  Closers = {}
  MuxDroppers = {}
  Cancellers = {"A"}
  DgSenders = {}
  MaxDgrams = 0
  Binders = {"A"}
  MaxBinds = 1
  Faults = {}
  AdvMsgs = {}
  MaxAdv = 0
  Bridgers = {}
  SplitFlush = FALSE
  MaxNow = 0
  MaxHandles = 1
  MaxCtr = 2
VIEW View
CONSTRAINT Bound
INVARIANTS NoViolation TypeOK AckSound QueueBound InitialCredit ExactlyOne TargetCarried BoundedRetry Released DoneResolved NoOrphanWriter
CHECK_DEADLOCK FALSE
