\* C01 trace validation: the property's words (a well-formed RFC 1928 header and the unmodified payload)
SPECIFICATION Spec
CONSTANTS
  HdrAddr = "any"
CONSTRAINT Track
POSTCONDITION Accepted
CHECK_DEADLOCK FALSE
