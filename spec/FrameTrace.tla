----------------------------- MODULE FrameTrace -----------------------------
(***************************************************************************)
(* Trace specification of property C09: validates the ndjson log written   *)
(* by harness/src/bin/frame_vec.rs (the real penguin_mux::frame codec)     *)
(* against the reference codec Frame.tla.  Every line is one independent   *)
(* case; the line formats are documented at the top of frame_vec.rs.       *)
(*                                                                         *)
(*   "enc" line: every byte string the public API produced for the frame   *)
(*               equals Encode(fields), no call panicked, all constructor  *)
(*               variants are == , and every decoder applied to the bytes  *)
(*               gave a frame that is == the original and re-encodes to    *)
(*               the same bytes (Decode(Encode(f)) = f).                   *)
(*   "dec" line: with d = Decode(bytes): if d.ok every decoder succeeded,  *)
(*               frame.id / opcode() / the re-encoding are those of        *)
(*               d.frame, and `==` with the probe frame holds exactly when *)
(*               d.frame equals the probe; if ~d.ok every decoder returned *)
(*               an error.  A panic never matches.                         *)
(*                                                                         *)
(* The lines are independent, so a line that does not match does not end   *)
(* the search: its number is recorded (registers 2, 3) and the search goes *)
(* on, so that one run classifies every disagreement.  Acceptance is by    *)
(* POSTCONDITION Accepted: all lines were visited and none was recorded.   *)
(* On rejection the first unmatched line is printed (REJECTED at line /    *)
(* UNMATCHED / EXPECTED, as MuxTrace does) followed by one REJECT tuple    *)
(* <<"REJECT", line number, what the specification expects>> per recorded  *)
(* line (at most MaxReported) and the total number of unmatched lines.     *)
(***************************************************************************)
EXTENDS Frame, Json, IOUtils, TLC

Rec == ndJsonDeserialize(IOEnv.TRACE)
MaxReported == 400

VARIABLE l

(* ------------------------------ matching ------------------------------ *)
FromJ(j) == Canon([op |-> j.op, id |-> j.id, n |-> j.n, port |-> j.port, bt |-> j.bt,
                   host |-> Expand(j.host), data |-> Expand(j.data)])
OpByte(f) == Version * 16 + OpNum(f.op)

(* observation o shows a successfully decoded frame f (encoding e) whose comparison with the probe gave eq *)
ObsOk(o, f, e, eq) ==
  /\ o.r = "ok"
  /\ o.id = f.id
  /\ o.op = OpByte(f)
  /\ Expand(o.re) = e
  /\ Expand(o.reb) = e
  /\ o.eq = eq /\ o.eqr = eq

EncLine(r) ==
  LET f == FromJ(r.f)
      e == Encode(f)
  IN /\ IsFrame(f)
     /\ Decode(e) = Good(f)
     /\ r.nv > 0 /\ Len(r.out) > 0 /\ Len(r.back) > 0 /\ Len(r.ceq) > 0
     /\ \A i \in 1 .. Len(r.out) : ~r.out[i].p /\ Expand(r.out[i].b) = e
     /\ \A i \in 1 .. Len(r.ceq) : r.ceq[i] = "true"
     /\ \A i \in 1 .. Len(r.back) : ObsOk(r.back[i], f, e, TRUE)

DecLine(r) ==
  LET b == Expand(r.b)
      d == Decode(b)
  IN /\ IsBytes(b)
     /\ r.nv > 0 /\ Len(r.o) > 0
     /\ IF d.ok
        THEN LET e == Encode(d.frame)
                 eq == r.hp /\ d.frame = FromJ(r.p)
             IN \A i \in 1 .. Len(r.o) : ObsOk(r.o[i], d.frame, e, eq)
        ELSE \A i \in 1 .. Len(r.o) : r.o[i].r = "err"

(* A frame the public constructors accept but the layout of PROTOCOL.md cannot carry: a Datagram whose host is longer than the one
   octet of its length field can say.  "Every frame that can be built through the public constructors encodes to exactly the
   layout ... and decoding those bytes yields an equal frame": no octet string does that, so every encoding must be refused
   (a panic is the refusal the encoder has); octets that say something else are a violation. *)
EncXLine(r) ==
  LET f == FromJ(r.f)
  IN /\ f.op = "dgram" /\ Len(f.host) > 255
     /\ r.nv > 0 /\ Len(r.out) > 0
     /\ \A i \in 1 .. Len(r.out) : r.out[i].p
     /\ Len(r.back) = 0

LineOk(r) == CASE r.k = "enc" -> EncLine(r)
               [] r.k = "encx" -> EncXLine(r)
               [] r.k = "dec" -> DecLine(r)
               [] OTHER -> FALSE

(* what the specification says about the line (diagnosis, signatures of findings) *)
JF(f) == [op |-> f.op, id |-> f.id, n |-> f.n, port |-> f.port, bt |-> f.bt,
          host |-> Compress(f.host), data |-> Compress(f.data)]
Expected(r) ==
  CASE r.k = "enc" -> [k |-> "enc", frame |-> IsFrame(FromJ(r.f)), bytes |-> Compress(Encode(FromJ(r.f)))]
    [] r.k = "encx" -> [k |-> "encx", demand |-> "a Datagram host of more than 255 octets cannot be laid out: every encoding must be refused"]
    [] r.k = "dec" -> LET d == Decode(Expand(r.b)) IN
                      IF d.ok THEN [k |-> "dec", ok |-> TRUE, f |-> JF(d.frame), re |-> Compress(Encode(d.frame)),
                                    eq |-> r.hp /\ d.frame = FromJ(r.p)]
                              ELSE [k |-> "dec", ok |-> FALSE]
    [] OTHER -> [k |-> "?"]

(* ------------------------------ behaviour ------------------------------ *)
(* registers: 1 = lines visited, 2 = recorded unmatched line numbers, 3 = number of unmatched lines *)
Init == l = 1 /\ TLCSet(1, 0) /\ TLCSet(2, <<>>) /\ TLCSet(3, 0)
Next == l <= Len(Rec) /\ l' = l + 1
Spec == Init /\ [][Next]_l

Track ==
  IF l > Len(Rec) THEN TRUE
  ELSE /\ TLCSet(1, TLCGet(1) + 1)
       /\ IF LineOk(Rec[l]) THEN TRUE
          ELSE /\ TLCSet(3, TLCGet(3) + 1)
               /\ IF Len(TLCGet(2)) < MaxReported THEN TLCSet(2, Append(TLCGet(2), l)) ELSE TRUE

Accepted ==
  \/ /\ TLCGet(1) = Len(Rec) /\ TLCGet(3) = 0 /\ Len(Rec) > 0
     /\ PrintT(<<"VALIDATED", Len(Rec)>>)
  \/ /\ PrintT(<<"REJECTED at line", IF TLCGet(2) = <<>> THEN TLCGet(1) + 1 ELSE TLCGet(2)[1], "of", Len(Rec)>>)
     /\ (TLCGet(2) # <<>> => PrintT(<<"UNMATCHED", ToJson(Rec[TLCGet(2)[1]])>>))
     /\ (TLCGet(2) # <<>> => PrintT(<<"EXPECTED", ToJson(Expected(Rec[TLCGet(2)[1]]))>>))
     /\ PrintT(<<"UNMATCHED-TOTAL", TLCGet(3), "visited", TLCGet(1)>>)
     /\ \A i \in 1 .. Len(TLCGet(2)) :
           PrintT(<<"REJECT", TLCGet(2)[i], ToJson(Expected(Rec[TLCGet(2)[i]]))>>)
     /\ FALSE
=============================================================================
