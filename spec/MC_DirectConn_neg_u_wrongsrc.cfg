\* C01: negative control: a relay with the fault `u_wrongsrc` must violate U_Source
SPECIFICATION Spec
CONSTANTS
  MaxW = 1
  Sizes = {0}
  Fault = "u_wrongsrc"
  Proto = "udp"
  Gen = FALSE
  MaxK = 2
INVARIANTS U_Source
