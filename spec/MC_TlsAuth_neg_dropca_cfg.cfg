\* C17 negative control: a reload that forgets the client CA ("dropca"), scripts whose client always presents the right
\* certificate (nothing observable goes wrong: Authenticated holds); TLC must find ConfigKept violated
SPECIFICATION Spec
CONSTANTS
  Mode = "dropca"
  MaxConn = 2
  MaxReload = 2
  MaxUse = 2
  Mtls = {TRUE}
  RMaxConn = 2
  RMaxReload = 1
  RMaxUse = 1
  RealMtls = {}
INVARIANTS TypeOK Undisturbed Fresh Authenticated ConfigKept
CHECK_DEADLOCK FALSE
