\* C01: negative control: a network with the fault `hang` must violate Inv_Closed
SPECIFICATION Spec
CONSTANTS
  MaxW = 1
  Sizes = {0, 2}
  Fault = "hang"
  Proto = "tcp"
  Gen = FALSE
  MaxK = 1
INVARIANTS Inv_Closed
