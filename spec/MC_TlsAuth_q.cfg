\* C17 quick: the 72 cells of the matrix + every interleaving of <= 2 connections, <= 2 reloads, <= 2 uses, with and without mutual TLS
\* (duplex scripts) + the real-server scripts: <= 2 connections (trusted client certificate / none / other CA) x <= 2 reloads x <= 1 use
\* + rotation of the client CA in place (mutual TLS; a connection presents no certificate or one of any generation of the CA),
\*   duplex and real server: 2 connections x 1 rotation x 1 reload x <= 1 use
\* + failed reloads (real server, without mutual TLS): 2 connections x 1 failed reload x 1 reload x <= 1 use
\* + unusable client-CA bundle (mutual TLS; duplex and real server; bounds F*): connections presenting no / a foreign / the trusted
\*   certificate x failed reloads caused by a bundle that yields no CA x reloads (duplex: x <= FUse uses, optionally a botched start-up)
\* + client side: 3 connections x 1 replacement of the roots file in place
SPECIFICATION Spec
CONSTANTS
  Mode = "swap"
  MaxConn = 2
  MaxReload = 2
  MaxUse = 2
  Mtls = {FALSE, TRUE}
  RMaxConn = 2
  RMaxReload = 2
  RMaxUse = 1
  RealMtls = {FALSE, TRUE}
  RotConn = 2
  RotReload = 1
  RotRotate = 1
  RotUse = 1
  RRotConn = 2
  RRotReload = 1
  RRotRotate = 1
  RRotUse = 1
  CliConn = 3
  CliRotate = 1
  FConn = 2
  FReload = 1
  FBotch = 1
  FUse = 1
  FailMtls = {FALSE}
  ResConn = 2
  ResReload = 1
  ResRotate = 1
  ResUse = 1
  ResMtls = {FALSE, TRUE}
  RResConn = 2
  RResReload = 1
  RResRotate = 1
  RResUse = 1
  RResMtls = {FALSE, TRUE}
  Extra = {"rot", "rrot", "client", "rfail", "res", "rres", "fca", "rfca"}
INVARIANTS TypeOK Undisturbed Fresh ConfigKept CAFollows JudgedAsConfigured TicketsOfThisConfiguration Authenticated ClientFollowsRoots Emit
CHECK_DEADLOCK FALSE
