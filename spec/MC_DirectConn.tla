---------------------------- MODULE MC_DirectConn ----------------------------
(***************************************************************************)
(* Model checking of the oracle DirectConn.tla on itself, and generation   *)
(* of the scenario scripts of property C01.                                *)
(*                                                                         *)
(* TCP (Proto = "tcp").  Every pair of endpoint programs (a "shape") is an *)
(* initial state; the two programs run over an IDEAL direct connection     *)
(* (FIFO pipes that deliver in arbitrary pieces, end-of-stream after the   *)
(* last octet, a reset after an abortive close, the target may refuse),    *)
(* every event is fed to the monitors, and TLC checks on every             *)
(* interleaving that no monitor fires (the monitors are satisfiable: the   *)
(* oracle accepts what a direct connection does) and that every program    *)
(* pair runs to its end (no deadlock).  With Fault # "none" the network is *)
(* broken in one specific way and the invariant named after the monitor    *)
(* that must catch it is violated (negative controls: no monitor is        *)
(* vacuous).                                                               *)
(*                                                                         *)
(* A program:  up to MaxW writes with sizes from Sizes, at most one `wait` *)
(* (for the peer's end-of-stream / reset) anywhere before the end, then    *)
(* either  hc, wait, close  (half-close, read to the end, close)  or       *)
(* close  at once.  The `wait`s are what fixes an ORDER of half-close /    *)
(* close between the two endpoints: whoever waits finishes second.  Two    *)
(* programs that both wait before finishing would wait forever and are     *)
(* left out.  The target may instead refuse.                               *)
(*                                                                         *)
(* BACK-PRESSURE (the "hold" shapes).  One endpoint starts with its reader *)
(* HELD: it reads nothing until its program says `ron`.  The other         *)
(* endpoint streams: its program contains a big write (`wbig`, more octets *)
(* than the pipe holds: Big > Cap), which over a bounded pipe only         *)
(* completes once the held endpoint reads.  Meanwhile the held endpoint    *)
(* writes small requests and `sync`s: it waits until the peer has received *)
(* everything it sent so far.  Over a direct connection that happens at    *)
(* once, because the two directions are independent pipes; TLC checks that *)
(* no such program pair deadlocks over the ideal (bounded) connection and  *)
(* that no monitor fires.  `sleep` lets the pipe fill before the request   *)
(* is written (no effect on the ideal connection; on the real tunnel: until*)
(* the peer's writer stands still).  Both mirror images                    *)
(* (client held / target held) are generated.  The negative control        *)
(* "coupled" is a network that does not deliver y -> x while x -> y is     *)
(* blocked: the held endpoint's `sync` never completes, the harness gives  *)
(* up (timeout "delivery") and the monitor Independent fires.              *)
(* The "sync" shapes demand the same of small exchanges without any        *)
(* back-pressure: a request is `sync`ed while its sender keeps its own     *)
(* direction open, after the peer's end-of-stream or concurrently with the *)
(* peer's own request.                                                     *)
(*                                                                         *)
(* UDP (Proto = "udp"): every exchange shape is an initial state; the      *)
(* history an ideal relay produces satisfies the relation UdpFailing = {}  *)
(* and broken relays violate the named clause.  A profile element a >= 10  *)
(* is a datagram of size class a - 10 addressed to the SECOND target: one  *)
(* client (one SOCKS5 association, one local socket) alternating between   *)
(* two targets; a relay that keeps sending to the first target of a flow   *)
(* (fault "u_wrongtarget") violates U_Target.                              *)
(*                                                                         *)
(* With Gen = TRUE every initial state prints its shape as a JSON line     *)
(* (SHAPE / USHAPE) and the dimensions of concretisation (entry point      *)
(* kinds, size classes, chunkings) are printed as one DIM line: the        *)
(* scenario scripts executed on the real tunnel are these shapes.          *)
(***************************************************************************)
EXTENDS DirectConn, Json

CONSTANTS MaxW, Sizes, Fault, Proto, Gen, MaxK

VARIABLES prog, pc, st, viol, uh, blk    \* blk[x]: x is inside a big write that has not completed yet
vars == <<prog, pc, st, viol, uh, blk>>

(* ------------------------------ dimensions of concretisation ------------------------------ *)
Entries == <<"tcp", "unix", "socks4", "socks4a", "socks5", "socks5d", "http">>
\* what an abstract non-empty write becomes; "frames": more Push frames than the 512-frame window of the
\* multiplexer; w-1 / w / w+1: around the 64 KiB buffers; "several": several buffers; "huge": more octets than
\* a window of full frames (thorough tier only)
SizeClasses == <<
  [name |-> "one",     n |-> 1,       chunk |-> 1,     quick |-> TRUE],
  [name |-> "small",   n |-> 1000,    chunk |-> 7,     quick |-> TRUE],
  [name |-> "frames",  n |-> 1300,    chunk |-> 1,     quick |-> TRUE],
  [name |-> "w-1",     n |-> 65535,   chunk |-> 65536, quick |-> TRUE],
  [name |-> "w",       n |-> 65536,   chunk |-> 4096,  quick |-> TRUE],
  [name |-> "w+1",     n |-> 65537,   chunk |-> 65536, quick |-> TRUE],
  [name |-> "2w+1",    n |-> 131073,  chunk |-> 1000,  quick |-> FALSE],
  [name |-> "several", n |-> 300000,  chunk |-> 65536, quick |-> TRUE],
  [name |-> "huge",    n |-> 5000000, chunk |-> 65536, quick |-> FALSE] >>
ReadBufs == <<65536, 4096, 100, 1>>
\* UDP payload lengths of the abstract classes 0 (empty), 1 (small), 2 (large)
UdpSizes == [empty |-> <<0>>, small |-> <<1, 2, 3, 4, 5, 100, 1400>>, large |-> <<1472, 8000, 30000, 65000>>]
\* what `wbig` becomes: more octets than everything on the way can hold (socket buffers on both sides of the tunnel,
\* the multiplexer's window), so that the writer really blocks while the peer does not read
\* (measured on the unchanged tree: 90 - 450 MiB are absorbed before a writer blocks - frames are counted, not octets -
\* so the size is not fixed: the harness writes piece after piece until the held reader is started, at most `max`)
BigSizes == << [name |-> "16M-pieces", piece |-> 16777216, max |-> 1610612736, chunk |-> 65536, quick |-> TRUE],
               [name |-> "4M-pieces",  piece |-> 4194304,  max |-> 1610612736, chunk |-> 262144, quick |-> FALSE] >>
Dims == [entries |-> Entries, sizes |-> SizeClasses, rbufs |-> ReadBufs, udp |-> UdpSizes, conc |-> <<1, 2, 3>>,
         big |-> BigSizes, sleep_ms |-> 300]
ASSUME Gen => PrintT(<<"DIM", ToJson(Dims)>>)

(* ------------------------------ TCP: programs ------------------------------ *)
Op(o, n) == [op |-> o, n |-> n]
WriteSeqs == UNION {[1 .. n -> Sizes] : n \in 0 .. MaxW}
\* the writes ws with a `wait` before write number wp + 1 (wp = Len(ws): before finishing; wp = -1: no wait)
Body(ws, wp) ==
  IF wp < 0 THEN [i \in 1 .. Len(ws) |-> Op("w", ws[i])]
  ELSE [i \in 1 .. Len(ws) + 1 |-> IF i <= wp THEN Op("w", ws[i])
                                    ELSE IF i = wp + 1 THEN Op("wait", 0) ELSE Op("w", ws[i - 1])]
Finish(f) == IF f = 1 THEN <<Op("hc", 0), Op("wait", 0), Op("close", 0)>> ELSE <<Op("close", 0)>>
SideShapes == UNION {{[ws |-> ws, wp |-> wp, fin |-> f] : wp \in -1 .. Len(ws), f \in 1 .. 2} : ws \in WriteSeqs}
ProgOf(sh) == Body(sh.ws, sh.wp) \o Finish(sh.fin)
Refuse == <<Op("refuse", 0)>>
Refusing == prog["t"] = Refuse

(* ------------------------------ TCP: programs with a held reader (back-pressure) ------------------------------ *)
Cap == 2          \* octets a direction of the ideal connection holds before a writer blocks
Big == Cap + 1
Grace == <<Op("hc", 0), Op("wait", 0), Op("close", 0)>>
Small == Op("w", 1)
Req == <<Small, Op("sync", 0)>>          \* a request, and the wait until the peer has it
StreamProgs == {b \o Grace : b \in {<<Op("wbig", Big)>>, <<Op("wbig", Big), Small>>, <<Small, Op("wbig", Big)>>}}
HeldBodies == { <<Op("sleep", 0)>> \o Req \o <<Op("ron", 0)>>,
                <<Op("sleep", 0)>> \o Req \o Req \o <<Op("ron", 0)>>,
                Req \o <<Op("sleep", 0)>> \o Req \o <<Op("ron", 0)>>,
                <<Op("sleep", 0)>> \o Req \o <<Op("ron", 0)>> \o Req }
HeldProgs == {b \o f : b \in HeldBodies, f \in {Grace, <<Op("wait", 0), Op("close", 0)>>}}

\* The same demand without back-pressure: a request must ARRIVE (`sync`) while the connection stays open - not only
\* by the time its sender half-closes - also after the peer has finished its own direction (`wait` first) and when
\* both endpoints send at the same instant.  A = the endpoint that syncs, B = its peer.
SyncBodies == { Req, <<Op("wait", 0)>> \o Req, Req \o Req, <<Op("wait", 0)>> \o Req \o Req }
SyncProgs == {b \o Grace : b \in SyncBodies}
PeerProgs == {Grace, <<Small>> \o Grace, Req \o Grace}

(* ------------------------------ UDP: exchange shapes and the ideal relay ------------------------------ *)
Profiles == {<<0>>, <<1>>, <<2>>, <<0, 1>>, <<1, 2>>}
ReplyPatterns == {<<1>>, <<0, 2, 1>>}
\* -1 in a profile: the client stays silent for longer than the relay's idle timeout before its next datagram
\* (a history the property quantifies over; expensive in real time, hence only these few shapes)
IdleProfile == <<1, -1, 1>>
IdleShapes == {[mode |-> m, assoc |-> "own", clients |-> cl, replies |-> <<1>>] :
                  m \in {"udp", "socks5"}, cl \in {<<IdleProfile>>, <<IdleProfile, <<1>>>>}}
\* a >= 10 in a profile: a datagram of size class a - 10 for the SECOND target (SOCKS5 only: the header of every
\* datagram names its target; a UDP remote has one target).  One client alternates between the two targets.
AltProfiles == {<<1, 11>>, <<11, 1, 11>>, <<2, 10, 1, 11>>}
AltShapes == {[mode |-> "socks5", assoc |-> a, clients |-> cl, replies |-> rp] :
                 a \in {"own", "shared"},
                 cl \in {<<p>> : p \in AltProfiles} \cup {<<p, q>> : p \in AltProfiles, q \in AltProfiles \cup {<<1>>, <<11>>}},
                 rp \in ReplyPatterns}
SizeOf(a) == IF a >= 10 THEN a - 10 ELSE a
TgtOf(a) == IF a >= 10 THEN 2 ELSE 1
UShapes == UNION {{[mode |-> m[1], assoc |-> m[2], clients |-> cl, replies |-> rp] :
                      m \in {m \in {<<"udp", "own">>, <<"socks5", "own">>, <<"socks5", "shared">>} : m[2] = "shared" => K >= 2},
                      cl \in [1 .. K -> Profiles], rp \in ReplyPatterns} : K \in 1 .. MaxK}
           \cup IdleShapes
           \cup {u \in AltShapes : u.assoc = "shared" => Len(u.clients) >= 2}

TgtAddr == <<127, 0, 0, 1>>
TgtPort == 4242
TgtPorts == <<4242, 4343>>
DestOf(u, k) == IF u.mode = "udp" THEN <<"remote", 0>> ELSE IF u.assoc = "shared" THEN <<"relay", 1>> ELSE <<"relay", k>>
Dg(tag, n, a, b) == IF n = 0 THEN <<"empty">> ELSE <<tag, a, b>>

RECURSIVE SentUpTo(_, _)
SentUpTo(u, k) ==
  IF k = 0 THEN <<>>
  ELSE LET ds == SelectSeq(u.clients[k], LAMBDA a : a >= 0)   \* the datagrams (an idle period sends nothing)
       IN SentUpTo(u, k - 1) \o [j \in 1 .. Len(ds) |->
            [k |-> k, j |-> j, n |-> SizeOf(ds[j]), dg |-> Dg("q", SizeOf(ds[j]), k, j), to |-> DestOf(u, k), tgt |-> TgtOf(ds[j])]]

\* the history of an ideal relay: every datagram arrives from a source of its client's own, every reply goes back
Ideal(u) ==
  LET sent == SentUpTo(u, Len(u.clients))
      RLen(r) == u.replies[((r - 1) % Len(u.replies)) + 1]
      Hdr(r) == IF u.mode = "socks5" THEN UdpHeader(1, TgtAddr, TgtPorts[sent[r].tgt], <<>>) ELSE <<>>
  IN [mode |-> u.mode, tgts |-> [t \in 1 .. 2 |-> [addr |-> TgtAddr, port |-> TgtPorts[t]]], sent |-> sent, timeouts |-> <<>>,
      trecv  |-> [r \in 1 .. Len(sent) |-> [r |-> r, src |-> <<"flow", sent[r].k>>, n |-> sent[r].n, dg |-> sent[r].dg, tgt |-> sent[r].tgt]],
      treply |-> [r \in 1 .. Len(sent) |-> [r |-> r, to |-> <<"flow", sent[r].k>>, n |-> RLen(r), dg |-> Dg("p", RLen(r), r, 0), tgt |-> sent[r].tgt]],
      crecv  |-> [r \in 1 .. Len(sent) |->
                    [k |-> sent[r].k, from |-> sent[r].to, n |-> Len(Hdr(r)) + RLen(r), head |-> Hdr(r),
                     sfx |-> [i \in 1 .. Len(Hdr(r)) + 1 |-> IF i = Len(Hdr(r)) + 1 THEN Dg("p", RLen(r), r, 0) ELSE <<"inside the header", i>>]]]]

\* the first index whose reply went to a client other than that of reply 1 (0: there is none)
OtherClient(h) == LET S == {i \in Idx(h.crecv) : h.crecv[i].k # h.crecv[1].k} IN IF S = {} THEN 0 ELSE CHOOSE i \in S : \A j \in S : i <= j

Broken(h) ==
  CASE Fault = "u_wrongclient" ->  \* two replies swap their recipients
         LET o == OtherClient(h) IN
         IF o = 0 THEN h ELSE [h EXCEPT !.crecv[1].k = h.crecv[o].k, !.crecv[1].from = h.crecv[o].from,
                                        !.crecv[o].k = h.crecv[1].k, !.crecv[o].from = h.crecv[1].from]
    [] Fault = "u_wrongsrc"    -> [h EXCEPT !.crecv[1].from = <<"somewhere else", 0>>]
    [] Fault = "u_lostreply"   -> [h EXCEPT !.crecv = SubSeq(h.crecv, 1, Len(h.crecv) - 1), !.timeouts = <<1>>]
    [] Fault = "u_modified"    -> [h EXCEPT !.trecv[1].dg = <<"something else">>]
    [] Fault = "u_replymod"    -> [h EXCEPT !.crecv[1].sfx = [i \in DOMAIN h.crecv[1].sfx |-> <<"something else">>]]
                                  \* ADDR before ATYP (the layout defect once present in penguin-socks)
    [] Fault = "u_layout"      -> IF h.mode = "socks5"
                                  THEN [h EXCEPT !.crecv[1].head = <<0, 0, 0>> \o TgtAddr \o <<1>> \o PortBytes(TgtPort)]
                                  ELSE h
    [] Fault = "u_frag"        -> IF h.mode = "socks5" THEN [h EXCEPT !.crecv[1].head[3] = 1] ELSE h
                                  \* every datagram of a flow goes where the FIRST datagram of the flow went
    [] Fault = "u_wrongtarget" -> [h EXCEPT !.trecv = [r \in DOMAIN h.trecv |->
                                     LET first == CHOOSE i \in 1 .. r : h.trecv[i].src = h.trecv[r].src /\
                                                        \A j \in 1 .. r : h.trecv[j].src = h.trecv[r].src => i <= j
                                     IN [h.trecv[r] EXCEPT !.tgt = h.trecv[first].tgt]]]
    [] OTHER -> h

Hist == Broken(Ideal(uh))
UViol == UdpFailing(Hist, FALSE)

(* ------------------------------ the machine ------------------------------ *)
Init ==
  \/ /\ Proto = "tcp"
     /\ uh = 0
     /\ \E a \in SideShapes :
          \/ \E b \in SideShapes :
               /\ ~(a.wp >= 0 /\ b.wp >= 0)
               /\ prog = [c |-> ProgOf(a), t |-> ProgOf(b)]
               /\ st = Step(Step(TcpInit, "c", [ev |-> "hs", ok |-> TRUE]), "t", [ev |-> "accepted"])
          \/ /\ prog = [c |-> ProgOf(a), t |-> Refuse]
             /\ st = Step(Step(TcpInit, "c", [ev |-> "hs", ok |-> TRUE]), "t", [ev |-> "refused"])
     /\ pc = Both(1) /\ blk = Both(FALSE)
     /\ viol = {}
     /\ Gen => PrintT(<<"SHAPE", ToJson([c |-> prog["c"], t |-> prog["t"], rhold |-> "none"])>>)
     \* back-pressure: endpoint h starts with its reader held, the other one streams
  \/ /\ Proto = "tcp" /\ Fault \in {"none", "coupled"}
     /\ uh = 0
     /\ \E h \in Sides, sp \in StreamProgs, hp \in HeldProgs :
          /\ prog = [x \in Sides |-> IF x = h THEN hp ELSE sp]
          /\ st = Step(Step(TcpInitHeld({h}), "c", [ev |-> "hs", ok |-> TRUE]), "t", [ev |-> "accepted"])
          /\ Gen => PrintT(<<"SHAPE", ToJson([c |-> prog["c"], t |-> prog["t"], rhold |-> h])>>)
     /\ pc = Both(1) /\ blk = Both(FALSE)
     /\ viol = {}
     \* requests that must arrive while the connection stays open (no held reader)
  \/ /\ Proto = "tcp" /\ Fault \in {"none", "coupled"}
     /\ uh = 0
     /\ \E a \in Sides, ap \in SyncProgs, bp \in PeerProgs :
          /\ prog = [x \in Sides |-> IF x = a THEN ap ELSE bp]
          /\ st = Step(Step(TcpInit, "c", [ev |-> "hs", ok |-> TRUE]), "t", [ev |-> "accepted"])
          /\ Gen => PrintT(<<"SHAPE", ToJson([c |-> prog["c"], t |-> prog["t"], rhold |-> "none"])>>)
     /\ pc = Both(1) /\ blk = Both(FALSE)
     /\ viol = {}
  \/ /\ Proto = "udp"
     /\ uh \in UShapes
     /\ prog = 0 /\ pc = 0 /\ st = 0 /\ blk = 0
     /\ viol = UViol
     /\ Gen => PrintT(<<"USHAPE", ToJson(uh)>>)

Emit(x, e) == /\ viol' = viol \cup Failing(st, x, e)
              /\ st' = Step(st, x, e)
Advance(x) == pc' = [pc EXCEPT ![x] = @ + 1] /\ UNCHANGED blk
Fin(y)  == st.hc[y] \/ st.closed[y] \/ st.refused
Gone(y) == st.closed[y] \/ st.refused

\* the next step of x's program
Script(x) ==
  /\ pc[x] <= Len(prog[x])
  /\ LET o == prog[x][pc[x]] y == Other(x) IN
     \/ o.op = "w" /\ Emit(x, [ev |-> "send", n |-> o.n]) /\ Advance(x)
     \/ o.op = "hc" /\ Emit(x, [ev |-> "hc"]) /\ Advance(x)
     \/ o.op = "close" /\ Emit(x, [ev |-> "close"]) /\ Advance(x)
     \/ o.op = "refuse" /\ Advance(x) /\ UNCHANGED <<st, viol>>
     \/ o.op = "wait" /\ (st.eof[x] \/ st.rst[x]) /\ Advance(x) /\ UNCHANGED <<st, viol>>
        \* a broken network never tells: the harness gives up after the deadline
     \/ /\ o.op = "wait" /\ ~st.eof[x] /\ ~st.rst[x]
        /\ \/ Fault = "nofin" /\ st.hc[y] /\ ~Gone(y)
           \/ Fault = "hang" /\ Gone(y)
        /\ Emit(x, [ev |-> "timeout", what |-> "eof", peer_fin |-> TRUE]) /\ Advance(x)
        \* a big write: announced, then it completes once the pipe has room again (or nobody will ever read)
     \/ /\ o.op = "wbig" /\ ~blk[x]
        /\ Emit(x, [ev |-> "send", n |-> o.n]) /\ blk' = [blk EXCEPT ![x] = TRUE] /\ UNCHANGED pc
     \/ /\ o.op = "wbig" /\ blk[x]
        /\ st.sent[x] - st.rcvd[y] <= Cap \/ st.abort \/ Gone(y) \/ st.eof[y] \/ st.rst[y]
        /\ blk' = [blk EXCEPT ![x] = FALSE] /\ pc' = [pc EXCEPT ![x] = @ + 1] /\ UNCHANGED <<st, viol>>
     \/ o.op = "sleep" /\ Advance(x) /\ UNCHANGED <<st, viol>>
     \/ o.op = "ron" /\ Emit(x, [ev |-> "ron"]) /\ Advance(x)
        \* the peer has everything I sent
     \/ /\ o.op = "sync" /\ (st.rcvd[y] = st.sent[x] \/ st.abort \/ Gone(y))
        /\ Advance(x) /\ UNCHANGED <<st, viol>>
        \* coupled directions: it never gets there while its own writer is stuck; the harness gives up
     \/ /\ o.op = "sync" /\ Fault = "coupled" /\ st.rcvd[y] < st.sent[x] /\ st.reading[y]
        /\ Emit(x, [ev |-> "timeout", what |-> "delivery", peer_reading |-> TRUE]) /\ Advance(x)

\* what the network lets x observe
Observe(x) ==
  LET y == Other(x)
      avail == st.sent[y] - st.rcvd[x]
  IN
  /\ ~st.closed[x] /\ ~st.eof[x] /\ ~st.rst[x]
  /\ st.reading[x]
  /\ ~(Refusing /\ x = "t")
  /\ UNCHANGED <<pc, blk>>
  /\ \/ /\ avail > 0
        \* coupled directions: nothing for x while x's own big write is stuck
        /\ ~(Fault = "coupled" /\ blk[x] /\ st.sent[x] - st.rcvd[y] > Cap)
        /\ \E n \in {1, avail} : Emit(x, [ev |-> "recv", a |-> st.rcvd[x], b |-> st.rcvd[x] + n])
     \/ Fault = "gap" /\ avail >= 2 /\ Emit(x, [ev |-> "recv", a |-> st.rcvd[x] + 1, b |-> st.rcvd[x] + avail])
     \/ Fault = "dup" /\ st.rcvd[x] > 0 /\ Emit(x, [ev |-> "recv", a |-> st.rcvd[x] - 1, b |-> st.rcvd[x]])
     \/ Fault = "invent" /\ Emit(x, [ev |-> "recv", a |-> st.rcvd[x], b |-> st.sent[y] + 1])
     \/ /\ Fin(y)
        /\ avail = 0 \/ Fault = "lose"
        /\ ~(Fault = "nofin" /\ ~Gone(y))
        /\ ~(Fault = "hang" /\ Gone(y))
        /\ Emit(x, [ev |-> "eof"])
     \/ /\ \/ st.abort /\ Gone(y) /\ Fault # "hang"
           \/ Fault = "killother" /\ st.hc[y] /\ ~Gone(y)
        /\ Emit(x, [ev |-> "reset"])

AllDone == IF Proto = "udp" THEN TRUE ELSE \A x \in Sides : pc[x] > Len(prog[x])

Next ==
  \/ Proto = "tcp" /\ \E x \in Sides : (Script(x) \/ Observe(x)) /\ UNCHANGED <<prog, uh>>
  \/ AllDone /\ UNCHANGED vars

Spec == Init /\ [][Next]_vars

(* ------------------------------ what is checked ------------------------------ *)
EndViol == IF Proto = "tcp" /\ AllDone THEN EndFailing(st) ELSE {}
Inv_Prefix    == "Prefix" \notin viol
Inv_Complete  == "Complete" \notin viol \cup EndViol
Inv_HalfClose == "HalfClose" \notin viol
Inv_Closed    == "ClosedNotHanging" \notin viol
Inv_Independent == "Independent" \notin viol
Inv_Other     == Proto = "tcp" => viol \subseteq Monitors
U_Target      == "udp_datagram_wrong_target" \notin viol
U_Datagram    == viol \cap {"udp_datagram_modified", "udp_datagram_duplicated", "udp_datagram_lost"} = {}
U_Header      == "socks5_udp_header" \notin viol
U_Client      == "udp_reply_wrong_client" \notin viol
U_Source      == "udp_reply_wrong_source" \notin viol
U_Reply       == viol \cap {"udp_reply_modified", "udp_reply_lost", "udp_reply_duplicated", "udp_timeout"} = {}
\* every header the ideal relay builds is read back by the grammar (ties the relation to Socks.tla)
U_RoundTrip   == Proto = "udp" /\ uh.mode = "socks5" =>
                   \A i \in Idx(Ideal(uh).crecv) : HeaderNamesTarget(Ideal(uh), Ideal(uh).crecv[i])
=============================================================================
