#!/usr/bin/env python3
"""Developer tool: validate a batch of simulator traces and describe every failing trace.
usage: tvbatch.py <trace.ndjson> [module] [cfg]"""
import sys, os, json
sys.path.insert(0, os.path.dirname(os.path.abspath(__file__)))
import vlib
mod = sys.argv[2] if len(sys.argv) > 2 else "MuxTrace"
cfg = sys.argv[3] if len(sys.argv) > 3 else mod
r = vlib.validate_batch(mod, cfg, sys.argv[1])
print(f"traces={r['traces']} accepted={r['accepted']} failures={len(r['failures'])} states={r['states']}")
for f in r["failures"]:
    print(f"--- trace #{f['index']} fails at its line {f['line_in_trace']}")
    print(vlib.describe_failure(f))
    p = vlib.save_replay("dev", f"t{f['index']}", f["lines"])
    print("    saved", p)
