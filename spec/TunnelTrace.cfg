\* C01 trace validation: the property's words (a well-formed RFC 1928 header and the unmodified payload; closed = the read side saw eof / reset)
SPECIFICATION Spec
CONSTANTS
  HdrAddr = "any"
  Stall = "note"
CONSTRAINT Track
POSTCONDITION Accepted
CHECK_DEADLOCK FALSE
