\* C17 negative control: "sharedcache", observable form before any connection is made after the reload: after rotation + reload a
\* client of the retired CA offering the ticket it holds would be admitted; TLC must find JudgedAsConfigured violated
SPECIFICATION Spec
CONSTANTS
  Mode = "sharedcache"
  MaxConn = 2
  MaxReload = 2
  MaxUse = 2
  Mtls = {}
  RMaxConn = 2
  RMaxReload = 1
  RMaxUse = 1
  RealMtls = {}
  RotConn = 2
  RotReload = 1
  RotRotate = 1
  RotUse = 1
  RRotConn = 2
  RRotReload = 1
  RRotRotate = 1
  RRotUse = 1
  CliConn = 2
  CliRotate = 1
  FConn = 2
  FReload = 1
  FBotch = 1
  FUse = 1
  FailMtls = {}
  ResConn = 2
  ResReload = 1
  ResRotate = 1
  ResUse = 1
  ResMtls = {TRUE}
  RResConn = 2
  RResReload = 1
  RResRotate = 1
  RResUse = 1
  RResMtls = {TRUE}
  Extra = {"res"}
INVARIANTS TypeOK Undisturbed ConfigKept CAFollows JudgedAsConfigured
CHECK_DEADLOCK FALSE
