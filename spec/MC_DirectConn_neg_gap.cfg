\* C01: negative control: a network with the fault `gap` must violate Inv_Prefix
SPECIFICATION Spec
CONSTANTS
  MaxW = 1
  Sizes = {0, 2}
  Fault = "gap"
  Proto = "tcp"
  Gen = FALSE
  MaxK = 1
INVARIANTS Inv_Prefix
