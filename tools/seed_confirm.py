#!/usr/bin/env python3
"""Confirm a seeded change delivered by a sub-agent in its scratch worktree /tmp/seed/<name> and store it.
usage: seed_confirm.py <name> <crate> -- <demo cargo test args...>
  e.g. seed_confirm.py C20_3 cow-bytes -- --test split_inside_inner_chunk
Steps (all in the scratch worktree, never in /repo): clean checkout; demo.diff only -> demo must PASS;
+ patch.diff -> demo must FAIL; the crate's own tests (`cargo test -p <crate> --lib`, plus its other pre-existing
test targets) must pass with the patch (the two Internet tests of rusty-penguin are ignored).  On success the
three files are copied to /verif/seeded/<name>/ and `confirmed` is recorded in meta.json."""
import json, os, re, shutil, subprocess, sys
name, crate = sys.argv[1], sys.argv[2]
demo = sys.argv[sys.argv.index("--") + 1:]
W = f"/tmp/seed/{name}"
S = f"{W}/_seed"
def sh(cmd, **kw):
    return subprocess.run(cmd, cwd=W, capture_output=True, text=True, **kw)
def cargo_test(args):
    r = sh(["cargo", "test", "--offline", "-j", "8", "-p", crate] + args + ["--", "--test-threads", "4"])
    out = r.stdout + r.stderr
    failed = sorted(set(re.findall(r"^test (\S+) \.\.\. FAILED", out, re.M)))
    npass = sum(int(x) for x in re.findall(r"test result: \w+\. (\d+) passed", out))
    return r.returncode, npass, failed, out
sh(["git", "reset", "-q", "--hard", "HEAD"]); sh(["git", "clean", "-fdq", "-e", "_seed", "-e", "target"])
assert sh(["git", "apply", f"{S}/demo.diff"]).returncode == 0, "demo.diff does not apply"
rc0, np0, f0, o0 = cargo_test(demo)
print("demo without patch:", rc0, np0, f0)
assert sh(["git", "apply", f"{S}/patch.diff"]).returncode == 0, "patch.diff does not apply"
rc1, np1, f1, o1 = cargo_test(demo)
print("demo with patch:", rc1, np1, f1)
if rc1 == 0:
    print(o1[-1500:])
# the crate's own tests are run with the patch alone (a demonstration that lives inside the crate would list itself)
sh(["git", "reset", "-q", "--hard", "HEAD"]); sh(["git", "clean", "-fdq", "-e", "_seed", "-e", "target"])
assert sh(["git", "apply", f"{S}/patch.diff"]).returncode == 0, "patch.diff does not apply on its own"
rc2, np2, f2, o2 = cargo_test(["--lib"])
ignorable = {"server::service::tests::test_backend_tls", "tests::test_it_works_dns_v4"}
f2x = [t for t in f2 if t not in ignorable]
if f2x:
    # timing-sensitive tests may flake under load: re-run the failing ones alone, once
    still = []
    for t in f2x:
        r = sh(["cargo", "test", "--offline", "-j", "8", "-p", crate, "--lib", "--", t])
        if r.returncode != 0:
            still.append(t)
    f2x = still
print("crate lib tests with patch:", rc2, np2, "failed (not ignorable):", f2x)
ok = rc0 == 0 and rc1 != 0 and not f2x and np2 > 0
conf = dict(demo_cmd=f"cargo test --offline -p {crate} " + " ".join(demo), demo_without_patch_rc=rc0, demo_with_patch_rc=rc1,
            demo_failed_tests=f1[:5], lib_tests_passed_with_patch=np2, lib_tests_failed_with_patch=f2x, ok=ok)
print("CONFIRMED" if ok else "NOT CONFIRMED", json.dumps(conf))
if ok:
    d = f"/verif/seeded/{name}"
    os.makedirs(d, exist_ok=True)
    for f in ("patch.diff", "demo.diff"):
        shutil.copy(f"{S}/{f}", f"{d}/{f}")
    try:
        meta = json.load(open(f"{S}/meta.json"))
    except Exception as e:
        meta = {"property": name.split("_")[0], "summary": "(meta.json of the sub-agent unreadable: %s)" % e}
    meta["confirmed"] = conf
    json.dump(meta, open(f"{d}/meta.json", "w"), indent=1)
sys.exit(0 if ok else 1)
