SPECIFICATION Spec
CONSTANTS
  Trailing = "ignore"
CONSTRAINT Track
POSTCONDITION Accepted
CHECK_DEADLOCK FALSE
