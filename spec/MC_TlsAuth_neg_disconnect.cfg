\* C17 negative control: a wrong implementation of the reload ("disconnect"); TLC must find Undisturbed or Fresh violated
SPECIFICATION Spec
CONSTANTS
  Mode = "disconnect"
  MaxConn = 2
  MaxReload = 2
  MaxUse = 2
  Mtls = {FALSE}
  RMaxConn = 2
  RMaxReload = 1
  RMaxUse = 1
  RealMtls = {}
INVARIANTS TypeOK Undisturbed Fresh
CHECK_DEADLOCK FALSE
