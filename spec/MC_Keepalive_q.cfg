SPECIFICATION Spec
CONSTANTS
  Is = {0, 1, 2, 3}
  Ts = {0, 1, 2, 3, 4, 5, 6}
  MaxD = 3
  Horizon = 9
INVARIANTS InvPing InvDisabled InvNotEarly InvNotLate InvNoFalseOutsideF12 InvClamp
CHECK_DEADLOCK FALSE
