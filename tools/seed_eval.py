#!/usr/bin/env python3
"""Evaluate the registered checks against a seeded change kept under /verif/seeded/<name>/.
usage: seed_eval.py <name> <property> [<property> ...] [--tier quick|thorough]
Applies patch.diff to /repo (git apply), runs ./check <prop> <tier>, restores /repo (git checkout -- .),
and records the outcome in seeded/<name>/meta.json under "framework"."""
import json, os, signal, subprocess, sys, time
def _term(*a):
    raise KeyboardInterrupt()
signal.signal(signal.SIGTERM, _term)
V = "/verif"
name = sys.argv[1]
tier = "quick"
props = []
args = sys.argv[2:]
while args:
    a = args.pop(0)
    if a == "--tier":
        tier = args.pop(0)
    else:
        props.append(a)
d = os.path.join(V, "seeded", name)
patch = os.path.join(d, "patch.diff")
st = subprocess.run(["git", "-C", "/repo", "status", "--porcelain", "--untracked-files=no"], capture_output=True, text=True).stdout.strip()
if st:
    sys.exit("refusing: /repo has uncommitted changes:\n" + st)
subprocess.run(["git", "-C", "/repo", "apply", patch], check=True)
res = {}
try:
    for p in props:
        t0 = time.time()
        # the evidence file describes the unchanged tree: it is put back after the run against the seeded change
        ev = os.path.join(V, "evidence", p + ".json")
        saved = open(ev, "rb").read() if os.path.exists(ev) else None
        r = subprocess.run([os.path.join(V, "check"), p, tier], cwd=V, capture_output=True, text=True,
                           env=dict(os.environ, VERIF_MAX_FAILURES=os.environ.get("VERIF_MAX_FAILURES", "60")))
        viol = [l for l in r.stdout.splitlines() if l.startswith("VIOLATION")]
        res[p] = dict(exit=r.returncode, violation_lines=viol[:3], wall_s=round(time.time() - t0, 1), tier=tier)
        if saved is not None:
            open(ev, "wb").write(saved)
        print(p, "exit", r.returncode, viol[:1])
        if r.returncode == 2:
            print(r.stdout[-1500:])
finally:
    subprocess.run(["git", "-C", "/repo", "checkout", "--", "."], check=True)
mp = os.path.join(d, "meta.json")
meta = json.load(open(mp)) if os.path.exists(mp) else {}
fw = meta.setdefault("framework", {})
fw.update(res)
json.dump(meta, open(mp, "w"), indent=1)
