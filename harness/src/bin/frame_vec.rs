//! C09 driver: replays frame-codec cases on the real `penguin_mux::frame` codec and logs what it observes.
//!
//!   frame_vec cases  <cases.ndjson> <out.ndjson> [enc-only]   replay the cases printed by spec/MC_Frame.tla
//!   frame_vec random <seed> <count> <out.ndjson> [enc-only]   seeded random frames / byte strings
//!
//! This program never judges: it executes the public API (constructors, `Vec<u8>::from(&Frame)`,
//! `Bytes::from(&Frame)`, `Frame::try_from`, `append_push_data`, `==`), every call under `catch_unwind`, and
//! projects the outcome into one ndjson line per case.  TLC (spec/FrameTrace.tla) decides.
//!
//! Byte strings are written in run-length form `[[byte, count], ...]`; 32-bit fields as their four
//! big-endian octets (TLC integers are 32-bit).
//!
//! Line formats
//!   {"k":"enc","f":F,"nv":n,"out":[{"p":false,"b":RLE}..],"ceq":[bool..],"back":[OBS..]}
//!       F    = {"op","id":[4],"n":[4],"port","bt","host":RLE,"data":RLE}
//!       out  = the distinct results of encoding every constructor variant (p = the call panicked)
//!       ceq  = the distinct results ("true" / "false" / "panic") of comparing the constructor variants
//!              with each other
//!       back = the distinct observations of decoding every produced byte string with every decoder,
//!              compared (`eq`, `eqr`) with every constructor variant
//!   {"k":"dec","b":RLE,"hp":bool,"p":F,"nv":n,"o":[OBS..]}
//!       p    = probe frame the decoded frame is compared with (present when hp)
//!   OBS = {"r":"err","e":"FrameTooShort"} | {"r":"panic","e":msg}
//!       | {"r":"ok","id":[4],"op":u8,"re":RLE,"reb":RLE,"eq":bool,"eqr":bool}
//!         (re / reb = the decoded frame re-encoded through Vec / Bytes; r = "panic_re" / "panic_eq" when
//!          re-encoding / comparing panicked)

use bytes::Bytes;
use cow_bytes::CowBytes;
use penguin_mux::frame::{append_push_data, BindType, Frame, OpCode};
use rand::rngs::SmallRng;
use rand::{RngExt, SeedableRng};
use serde_json::{json, Value};
use std::io::{BufRead, BufReader, BufWriter, Write};
use std::panic::{catch_unwind, AssertUnwindSafe};

// ------------------------------------------------------------------------------------------------
// plain data
// ------------------------------------------------------------------------------------------------
#[derive(Clone, Debug)]
struct Fields {
    op: String,
    id: u32,
    n: u32,
    port: u16,
    bt: u8,
    host: Vec<u8>,
    data: Vec<u8>,
}

fn rle(b: &[u8]) -> Value {
    let mut runs: Vec<Value> = Vec::new();
    let mut i = 0;
    while i < b.len() {
        let mut j = i;
        while j < b.len() && b[j] == b[i] {
            j += 1;
        }
        runs.push(json!([b[i], j - i]));
        i = j;
    }
    Value::Array(runs)
}

fn unrle(v: &Value) -> Vec<u8> {
    let mut out = Vec::new();
    for r in v.as_array().expect("rle array") {
        let b = r[0].as_u64().expect("byte") as u8;
        let n = r[1].as_u64().expect("count") as usize;
        out.extend(std::iter::repeat_n(b, n));
    }
    out
}

fn u32_of(v: &Value) -> u32 {
    let a = v.as_array().expect("u32 octets");
    let mut x = 0u32;
    for o in a {
        x = (x << 8) | (o.as_u64().expect("octet") as u32);
    }
    x
}

fn octets(x: u32) -> Value {
    json!(x.to_be_bytes())
}

fn fields_of(v: &Value) -> Fields {
    Fields {
        op: v["op"].as_str().expect("op").to_string(),
        id: u32_of(&v["id"]),
        n: u32_of(&v["n"]),
        port: v["port"].as_u64().expect("port") as u16,
        bt: v["bt"].as_u64().expect("bt") as u8,
        host: unrle(&v["host"]),
        data: unrle(&v["data"]),
    }
}

fn fields_json(f: &Fields) -> Value {
    json!({"op": f.op, "id": octets(f.id), "n": octets(f.n), "port": f.port, "bt": f.bt,
           "host": rle(&f.host), "data": rle(&f.data)})
}

fn panic_msg(e: Box<dyn std::any::Any + Send>) -> String {
    let s = if let Some(s) = e.downcast_ref::<&str>() {
        (*s).to_string()
    } else if let Some(s) = e.downcast_ref::<String>() {
        s.clone()
    } else {
        "?".to_string()
    };
    s.chars().take(120).collect()
}

// ------------------------------------------------------------------------------------------------
// building frames through the public constructors
// ------------------------------------------------------------------------------------------------
/// Owned parts a vectored Push is assembled from (kept alive by the caller).
fn split_points(len: usize) -> Vec<Vec<usize>> {
    // every entry is a list of cut positions; the slices between them (some empty) form the vector
    let mid = len / 2;
    let third = len / 3;
    vec![
        vec![],                      // one slice
        vec![0],                     // empty + all
        vec![len],                   // all + empty
        vec![mid],                   // two halves
        vec![mid, mid],              // half, empty, half
        vec![third, len - third],    // three parts
        vec![0, len],                // empty, all, empty
        vec![1.min(len), len.saturating_sub(1).max(1.min(len))], // first octet, middle, last octet
    ]
}

fn slices<'a>(data: &'a [u8], cuts: &[usize]) -> Vec<&'a [u8]> {
    let mut out = Vec::new();
    let mut prev = 0;
    for &c in cuts {
        out.push(&data[prev..c]);
        prev = c;
    }
    out.push(&data[prev..]);
    out
}

/// All the ways the public API can build the frame described by `f`.  `None` = not constructible
/// (unknown opcode name or bind type).
fn variants<'a>(f: &'a Fields) -> Option<Vec<(String, Frame<'a>)>> {
    let mut v: Vec<(String, Frame<'a>)> = Vec::new();
    match f.op.as_str() {
        "connect" => v.push(("new_connect".into(), Frame::new_connect(&f.host, f.port, f.id, f.n))),
        "ack" => v.push(("new_acknowledge".into(), Frame::new_acknowledge(f.id, f.n))),
        "reset" => v.push(("new_reset".into(), Frame::new_reset(f.id))),
        "finish" => v.push(("new_finish".into(), Frame::new_finish(f.id))),
        "push" => {
            v.push(("new_push".into(), Frame::new_push(f.id, &f.data)));
            v.push(("new_push_owned".into(), Frame::new_push_owned(f.id, Bytes::copy_from_slice(&f.data))));
            if f.data.is_empty() {
                v.push(("new_push_vectored()".into(), Frame::new_push_vectored(f.id, Vec::new())));
            }
            for (k, cuts) in split_points(f.data.len()).iter().enumerate() {
                let parts: Vec<CowBytes<'a>> = slices(&f.data, cuts)
                    .into_iter()
                    .enumerate()
                    .map(|(i, s)| {
                        if (i + k) % 2 == 0 {
                            CowBytes::Temporary(s)
                        } else {
                            CowBytes::Static(Bytes::copy_from_slice(s))
                        }
                    })
                    .collect();
                v.push((format!("new_push_vectored{cuts:?}"), Frame::new_push_vectored(f.id, parts)));
            }
        }
        "bind" => {
            let bt = BindType::try_from(f.bt).ok()?;
            v.push(("new_bind".into(), Frame::new_bind(f.id, bt, &f.host, f.port)));
        }
        "dgram" => {
            v.push(("new_datagram".into(), Frame::new_datagram(f.id, &f.host, f.port, &f.data)));
            v.push((
                "new_datagram_owned".into(),
                Frame::new_datagram_owned(f.id, Bytes::copy_from_slice(&f.host), f.port, Bytes::copy_from_slice(&f.data)),
            ));
        }
        _ => return None,
    }
    Some(v)
}

// ------------------------------------------------------------------------------------------------
// observing
// ------------------------------------------------------------------------------------------------
/// Distinct JSON values, in first-seen order.
#[derive(Default)]
struct Distinct {
    keys: Vec<String>,
    vals: Vec<Value>,
}
impl Distinct {
    fn add(&mut self, v: Value) {
        let k = v.to_string();
        if !self.keys.contains(&k) {
            self.keys.push(k);
            self.vals.push(v);
        }
    }
    fn take(self) -> Value {
        Value::Array(self.vals)
    }
}

fn enc_result(r: std::thread::Result<Vec<u8>>) -> (Value, Option<Vec<u8>>) {
    match r {
        Ok(b) => (json!({"p": false, "b": rle(&b)}), Some(b)),
        Err(e) => (json!({"p": true, "b": [], "e": panic_msg(e)}), None),
    }
}

/// Every encoder of the public API applied to one frame.
fn encodings(fr: &Frame<'_>) -> Vec<std::thread::Result<Vec<u8>>> {
    vec![
        catch_unwind(AssertUnwindSafe(|| Vec::<u8>::from(fr))),
        catch_unwind(AssertUnwindSafe(|| Bytes::from(fr).to_vec())),
        catch_unwind(AssertUnwindSafe(|| Vec::<u8>::from(fr.clone()))),
        catch_unwind(AssertUnwindSafe(|| Bytes::from(fr.clone()).to_vec())),
    ]
}

/// What can be seen of a decoding result, compared with `cmp` (if any).
fn observe(res: std::thread::Result<Result<Frame<'_>, penguin_mux::frame::Error>>, cmp: Option<&Frame<'_>>) -> Value {
    match res {
        Err(e) => json!({"r": "panic", "e": panic_msg(e)}),
        Ok(Err(e)) => {
            let name = format!("{e:?}");
            let name = name.split('(').next().unwrap_or("").to_string();
            json!({"r": "err", "e": name})
        }
        Ok(Ok(fr)) => {
            let id = fr.id;
            let op: OpCode = fr.opcode();
            let re = catch_unwind(AssertUnwindSafe(|| Vec::<u8>::from(&fr)));
            let reb = catch_unwind(AssertUnwindSafe(|| Bytes::from(&fr).to_vec()));
            let (re, reb) = match (re, reb) {
                (Ok(a), Ok(b)) => (a, b),
                (Err(e), _) | (_, Err(e)) => return json!({"r": "panic_re", "e": panic_msg(e)}),
            };
            let (eq, eqr) = match cmp {
                None => (false, false),
                Some(c) => {
                    let r = catch_unwind(AssertUnwindSafe(|| (fr == *c, *c == fr)));
                    match r {
                        Ok(x) => x,
                        Err(e) => return json!({"r": "panic_eq", "e": panic_msg(e)}),
                    }
                }
            };
            json!({"r": "ok", "id": octets(id), "op": op as u8, "re": rle(&re), "reb": rle(&reb), "eq": eq, "eqr": eqr})
        }
    }
}

/// Every decoder of the public API applied to one byte string; observations go to `into`.
fn decode_all(b: &[u8], cmp: Option<&Frame<'_>>, into: &mut Distinct) -> usize {
    into.add(observe(catch_unwind(AssertUnwindSafe(|| Frame::try_from(b))), cmp));
    into.add(observe(catch_unwind(AssertUnwindSafe(|| Frame::try_from(Bytes::copy_from_slice(b)))), cmp));
    into.add(observe(catch_unwind(AssertUnwindSafe(|| Frame::try_from(b.to_vec()))), cmp));
    into.add(observe(catch_unwind(AssertUnwindSafe(|| Frame::try_from(CowBytes::Temporary(b)))), cmp));
    into.add(observe(
        catch_unwind(AssertUnwindSafe(|| Frame::try_from(CowBytes::Static(Bytes::copy_from_slice(b))))),
        cmp,
    ));
    5
}

// ------------------------------------------------------------------------------------------------
// the two kinds of case
// ------------------------------------------------------------------------------------------------
fn run_enc(f: &Fields) -> Value {
    let fj = fields_json(f);
    let Some(vs) = variants(f) else {
        return json!({"k": "enc", "f": fj, "nv": 0, "out": [], "ceq": [], "back": []});
    };
    let mut out = Distinct::default();
    let mut produced: Vec<Vec<u8>> = Vec::new();
    let mut nv = 0usize;
    for (_, fr) in &vs {
        for r in encodings(fr) {
            nv += 1;
            let (j, b) = enc_result(r);
            out.add(j);
            if let Some(b) = b {
                if !produced.contains(&b) {
                    produced.push(b);
                }
            }
        }
    }
    // the in-place append used by the bridge: encode a Push of a prefix, append the rest
    if f.op == "push" {
        let len = f.data.len();
        for k in [0, len / 2, len] {
            let r = catch_unwind(AssertUnwindSafe(|| {
                let mut e = Vec::<u8>::from(&Frame::new_push(f.id, &f.data[..k]));
                append_push_data(&mut e, &f.data[k..]);
                e
            }));
            nv += 1;
            let (j, b) = enc_result(r);
            out.add(j);
            if let Some(b) = b {
                if !produced.contains(&b) {
                    produced.push(b);
                }
            }
        }
    }
    // constructor variants are equal frames
    let mut ceq = Distinct::default();
    for (_, a) in &vs {
        for (_, b) in &vs {
            match catch_unwind(AssertUnwindSafe(|| a == b)) {
                Ok(x) => ceq.add(json!(x.to_string())),
                Err(_) => ceq.add(json!("panic")),
            }
        }
    }
    // decoding what was produced
    let mut back = Distinct::default();
    for b in &produced {
        for (_, fr) in &vs {
            decode_all(b, Some(fr), &mut back);
        }
    }
    json!({"k": "enc", "f": fj, "nv": nv, "out": out.take(), "ceq": ceq.take(), "back": back.take()})
}

fn run_dec(b: &[u8], probe: Option<&Fields>) -> Value {
    let mut obs = Distinct::default();
    let mut nv = 0;
    let pv = probe.and_then(|p| variants(p));
    match &pv {
        Some(vs) if !vs.is_empty() => {
            for (_, fr) in vs {
                nv += decode_all(b, Some(fr), &mut obs);
            }
        }
        _ => {
            nv += decode_all(b, None, &mut obs);
        }
    }
    match (probe, &pv) {
        (Some(p), Some(_)) => json!({"k": "dec", "b": rle(b), "hp": true, "p": fields_json(p), "nv": nv, "o": obs.take()}),
        _ => json!({"k": "dec", "b": rle(b), "hp": false, "nv": nv, "o": obs.take()}),
    }
}

// ------------------------------------------------------------------------------------------------
// random mode
// ------------------------------------------------------------------------------------------------
const CORNERS: [u32; 10] = [0, 1, 255, 256, 65535, 65536, 0x7FFF_FFFF, 0x8000_0000, 0xFFFF_FFFE, 0xFFFF_FFFF];

fn rand_u32(rng: &mut SmallRng) -> u32 {
    match rng.random_range(0..10) {
        0 | 1 => CORNERS[rng.random_range(0..CORNERS.len())],
        2 => rng.random_range(0..=0xFFFFu32),
        _ => rng.random::<u32>(),
    }
}

fn rand_port(rng: &mut SmallRng) -> u16 {
    match rng.random_range(0..8) {
        0 => [0u16, 1, 255, 256, 65535][rng.random_range(0..5)],
        _ => rng.random::<u16>(),
    }
}

/// `len` octets: fully random when short, otherwise a few runs (the codec treats contents as opaque,
/// and the log stays small).
fn rand_bytes(rng: &mut SmallRng, len: usize) -> Vec<u8> {
    if len <= 24 || (len <= 160 && rng.random_range(0..10) == 0) {
        return (0..len).map(|_| rng.random::<u8>()).collect();
    }
    let runs = rng.random_range(1..=6usize);
    let mut cuts: Vec<usize> = (0..runs - 1).map(|_| rng.random_range(0..=len)).collect();
    cuts.push(len);
    cuts.sort_unstable();
    let mut out = Vec::with_capacity(len);
    let mut prev = 0;
    for c in cuts {
        let b = rng.random::<u8>();
        out.extend(std::iter::repeat_n(b, c - prev));
        prev = c;
    }
    out
}

fn rand_host_len(rng: &mut SmallRng) -> usize {
    match rng.random_range(0..8) {
        0 => [0usize, 1, 2, 253, 254, 255][rng.random_range(0..6)],
        1 | 2 => rng.random_range(0..=16),
        _ => rng.random_range(0..=255),
    }
}

fn rand_payload_len(rng: &mut SmallRng) -> usize {
    match rng.random_range(0..10) {
        0..=3 => rng.random_range(0..=8),
        4..=6 => rng.random_range(0..=64),
        7 | 8 => rng.random_range(0..=600),
        _ => rng.random_range(0..=2000),
    }
}

fn rand_fields(rng: &mut SmallRng) -> Fields {
    let op = ["connect", "ack", "reset", "finish", "push", "bind", "dgram"][rng.random_range(0..7)];
    let mut f = Fields { op: op.to_string(), id: rand_u32(rng), n: 0, port: 0, bt: 0, host: vec![], data: vec![] };
    match op {
        "connect" => {
            f.n = rand_u32(rng);
            f.port = rand_port(rng);
            let hl = rand_host_len(rng);
            f.host = rand_bytes(rng, hl);
        }
        "ack" => f.n = rand_u32(rng),
        "push" => {
            let pl = rand_payload_len(rng);
            f.data = rand_bytes(rng, pl);
        }
        "bind" => {
            f.bt = if rng.random_range(0..2) == 0 { 1 } else { 3 };
            f.port = rand_port(rng);
            let hl = rand_host_len(rng);
            f.host = rand_bytes(rng, hl);
        }
        "dgram" => {
            f.port = rand_port(rng);
            let hl = rand_host_len(rng);
            f.host = rand_bytes(rng, hl);
            let pl = rand_payload_len(rng);
            f.data = rand_bytes(rng, pl);
        }
        _ => {}
    }
    f
}

/// A valid encoding, damaged in one of the ways a decoder must cope with.
fn mutate(rng: &mut SmallRng, e: &[u8]) -> Vec<u8> {
    let mut b = e.to_vec();
    match rng.random_range(0..9) {
        0 => {
            // truncate anywhere (biased to the fixed fields)
            let to = if rng.random_range(0..2) == 0 { rng.random_range(0..=b.len().min(13)) } else { rng.random_range(0..=b.len()) };
            b.truncate(to);
        }
        1 => {
            // surplus octets
            let k = rng.random_range(1..=6);
            b.extend((0..k).map(|_| rng.random::<u8>()));
        }
        2 => b[0] &= 0x0F,                                                  // zero-filled version
        3 => b[0] = (b[0] & 0x0F) | (rng.random_range(0..16u8) << 4),        // any version
        4 => b[0] = (b[0] & 0xF0) | rng.random_range(0..16u8),               // any opcode
        5 => b[0] = rng.random::<u8>(),
        6 => {
            // the sixth octet: bind_type / host_len / first field octet
            if b.len() > 5 {
                b[5] = match rng.random_range(0..4) {
                    0 => rng.random::<u8>(),
                    1 => b[5].wrapping_add(1),
                    2 => b[5].wrapping_sub(1),
                    _ => [0u8, 1, 2, 3, 4, 255][rng.random_range(0..6)],
                };
            } else {
                b.push(rng.random::<u8>());
            }
        }
        7 => {
            // one octet anywhere in the first 16
            let n = b.len().min(16);
            let i = rng.random_range(0..n);
            b[i] ^= 1 << rng.random_range(0..8);
        }
        _ => {
            // drop the tail down to a length near the minimum for the opcode
            let to = rng.random_range(4..=12usize).min(b.len());
            b.truncate(to);
        }
    }
    b
}

fn rand_string(rng: &mut SmallRng) -> Vec<u8> {
    let len = match rng.random_range(0..4) {
        0 => rng.random_range(0..=12),
        1 => rng.random_range(0..=40),
        _ => rng.random_range(5..=300),
    };
    let mut b = rand_bytes(rng, len);
    if !b.is_empty() && rng.random_range(0..3) != 0 {
        // most strings get a plausible first octet so that the deeper checks are reached
        let ver = if rng.random_range(0..4) == 0 { 0 } else { 7u8 };
        b[0] = (ver << 4) | rng.random_range(0..8u8);
    }
    b
}

// ------------------------------------------------------------------------------------------------
fn main() {
    std::panic::set_hook(Box::new(|_| {})); // panics of the code under test are data
    let args: Vec<String> = std::env::args().collect();
    let usage = "usage: frame_vec cases <cases.ndjson> <out.ndjson> [enc-only] | frame_vec random <seed> <count> <out.ndjson> [enc-only]";
    if args.len() < 4 {
        eprintln!("{usage}");
        std::process::exit(2);
    }
    match args[1].as_str() {
        "cases" => {
            let enc_only = args.get(4).map(String::as_str) == Some("enc-only");
            let inp = BufReader::new(std::fs::File::open(&args[2]).expect("open cases"));
            let mut out = BufWriter::new(std::fs::File::create(&args[3]).expect("create log"));
            let mut n = 0usize;
            for line in inp.lines() {
                let line = line.expect("read");
                if line.trim().is_empty() {
                    continue;
                }
                let c: Value = serde_json::from_str(&line).expect("case json");
                let rec = match c["k"].as_str() {
                    Some("enc") => run_enc(&fields_of(&c["f"])),
                    // a frame the constructors accept but the layout cannot carry (a Datagram host of more than 255 octets):
                    // same execution, judged by a different clause (every encoding must be refused)
                    Some("encx") => {
                        let mut v = run_enc(&fields_of(&c["f"]));
                        v["k"] = json!("encx");
                        v
                    }
                    Some("dec") => {
                        if enc_only {
                            continue;
                        }
                        let b = unrle(&c["b"]);
                        // the probe is the frame the case expects (field projection of TLC's Decode)
                        let probe = if c["ok"].as_bool() == Some(true) { Some(fields_of(&c["f"])) } else { None };
                        run_dec(&b, probe.as_ref())
                    }
                    _ => panic!("unknown case kind"),
                };
                writeln!(out, "{rec}").expect("write");
                n += 1;
            }
            out.flush().expect("flush");
            println!("{n}");
        }
        "random" => {
            if args.len() < 5 {
                eprintln!("{usage}");
                std::process::exit(2);
            }
            let seed: u64 = args[2].parse().expect("seed");
            let count: usize = args[3].parse().expect("count");
            let enc_only = args.get(5).map(String::as_str) == Some("enc-only");
            let mut out = BufWriter::new(std::fs::File::create(&args[4]).expect("create log"));
            let mut rng = SmallRng::seed_from_u64(seed.wrapping_mul(0x9E37_79B9_7F4A_7C15).wrapping_add(9));
            let mut n = 0usize;
            for _ in 0..count {
                let f = rand_fields(&mut rng);
                writeln!(out, "{}", run_enc(&f)).expect("write");
                n += 1;
                // the generator draws the same sequence with and without enc-only
                let e = variants(&f).and_then(|vs| catch_unwind(AssertUnwindSafe(|| Vec::<u8>::from(&vs[0].1))).ok());
                let m = e.as_ref().map(|e| mutate(&mut rng, e));
                let s = rand_string(&mut rng);
                if enc_only {
                    continue;
                }
                if let Some(m) = m {
                    writeln!(out, "{}", run_dec(&m, Some(&f))).expect("write");
                    n += 1;
                }
                writeln!(out, "{}", run_dec(&s, None)).expect("write");
                n += 1;
            }
            out.flush().expect("flush");
            println!("{n}");
        }
        _ => {
            eprintln!("{usage}");
            std::process::exit(2);
        }
    }
}
