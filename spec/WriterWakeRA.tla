---------------------------- MODULE WriterWakeRA ----------------------------
(***************************************************************************)
(* C12 under a weak memory model: the writer's credit / wake-up protocol   *)
(* of penguin-mux (stream.rs poll_obtain_write_permission, lib.rs          *)
(* acknowledge / disallow_write) TOGETHER WITH the internals of            *)
(* futures' AtomicWaker (register / wake as sequences of atomic            *)
(* operations on its state word and plain accesses to its waker cell),     *)
(* executed on a view-based operational semantics of the release/acquire   *)
(* + relaxed fragment of the C11 model (Kang et al. "A promising           *)
(* semantics", without promises; Lahav et al. "Taming release-acquire").   *)
(*                                                                         *)
(* Memory: every location holds its whole modification order, a sequence   *)
(* of messages [val, view]; a thread has a view (for every location the    *)
(* index of the oldest message it may still read).  A load may read ANY    *)
(* message at or after the thread's view (stale values!); an acquire load  *)
(* joins the message's view into the thread's; a read-modify-write reads   *)
(* the LAST message and appends; a release write attaches the thread's     *)
(* view to its message, a relaxed RMW continues the release sequence of    *)
(* the message it read.  Every modification in this protocol is an RMW or  *)
(* a store to a location with a single storing thread, so appending at the *)
(* end of the modification order loses no behaviour.  Plain (non-atomic)   *)
(* accesses to the waker cell must see its last write, else it is a data   *)
(* race (ghost `race`).                                                    *)
(*                                                                         *)
(* The orderings are those of the code.  OrdMode = "relaxed" weakens every *)
(* ordering chosen by penguin-mux to Relaxed (the AtomicWaker keeps its    *)
(* own): the contract must still hold, because all the synchronisation the *)
(* protocol needs comes from the RMWs on the AtomicWaker's state word.     *)
(* Mode = "pinned": check, register, return (defect F4): must fail.        *)
(* Mode = "flagged": a plausible optimisation -- the task skips the wake   *)
(* unless a `waiting` flag set by the writer is seen -- is correct under   *)
(* sequential consistency and loses wake-ups under release/acquire (store  *)
(* buffering): must fail HERE and must pass in WriterWake.tla's memory     *)
(* model (SC = "yes" makes every load read the last message).              *)
(***************************************************************************)
EXTENDS WriterWakeDefs, Integers

CONSTANTS Mode,      \* "fixed" | "pinned" | "flagged"
          OrdMode,   \* "code" | "relaxed"
          SC,        \* "no" (release/acquire) | "yes" (every load reads the last message)
          NPolls

Locs == {"C", "F", "S", "cell", "flag"}
Max(a, b) == IF a >= b THEN a ELSE b
Join(v, w) == [l \in Locs |-> Max(v[l], w[l])]
V1 == [l \in Locs |-> 1]

Scenarios == {<<0, <<"a">>>>, <<0, <<"c">>>>, <<0, <<"a", "c">>>>, <<0, <<"a", "a">>>>, <<0, <<"c", "a">>>>,
              <<1, <<"a">>>>, <<1, <<"c">>>>, <<1, <<"a", "a">>>>}

(* AtomicWaker state word *)
WAITING == 0
REGISTERING == 1
WAKING == 2

VARIABLES mem,      \* location -> sequence of [val, view]
          tv,       \* thread -> view ("w" writer, "t" task)
          wpc, wi, wv, wtmp, results,
          tpc, ti, ttmp,
          woken, oks, race,
          InitCredit, TaskOps
vars == <<mem, tv, wpc, wi, wv, wtmp, results, tpc, ti, ttmp, woken, oks, race, InitCredit, TaskOps>>

Last(l) == Len(mem[l])
Val(l, i) == mem[l][i].val
(* orderings chosen by penguin-mux; the AtomicWaker's are fixed below *)
Acq(x) == IF OrdMode = "relaxed" THEN FALSE ELSE x
Rel(x) == IF OrdMode = "relaxed" THEN FALSE ELSE x

Readable(t, l) == IF SC = "yes" THEN {Last(l)} ELSE tv[t][l] .. Last(l)

(* a load by thread t of message i of l *)
AfterLoad(t, l, i, acq) ==
  IF acq THEN Join(tv[t], mem[l][i].view) ELSE [tv[t] EXCEPT ![l] = Max(@, i)]
(* an RMW by t on l writing nv: new memory and new view *)
RmwView(t, l, acq) ==
  LET i == Last(l)
      a == IF acq THEN Join(tv[t], mem[l][i].view) ELSE tv[t]
  IN [a EXCEPT ![l] = i + 1]
RmwMsg(t, l, nv, acq, rel) ==
  LET i == Last(l)
      nvw == RmwView(t, l, acq)
  IN [val |-> nv, view |-> IF rel THEN nvw ELSE [mem[l][i].view EXCEPT ![l] = i + 1]]
DoRmw(t, l, nv, acq, rel) ==
  /\ mem' = [mem EXCEPT ![l] = Append(@, RmwMsg(t, l, nv, acq, rel))]
  /\ tv' = [tv EXCEPT ![t] = RmwView(t, l, acq)]
(* a store (the storing thread is the only one that stores to l, or the access is protected) *)
DoStore(t, l, nv, rel) ==
  LET i == Last(l)
      nvw == [tv[t] EXCEPT ![l] = i + 1]
  IN /\ mem' = [mem EXCEPT ![l] = Append(@, [val |-> nv, view |-> IF rel THEN nvw ELSE [V1 EXCEPT ![l] = i + 1]])]
     /\ tv' = [tv EXCEPT ![t] = nvw]
(* plain accesses to the waker cell: racy unless the thread has seen the last write *)
Racy(t) == tv[t]["cell"] # Last("cell")

Init ==
  /\ \E sc \in Scenarios : InitCredit = sc[1] /\ TaskOps = sc[2]
  /\ mem = [l \in Locs |-> <<[val |-> IF l = "C" THEN InitCredit ELSE 0, view |-> V1]>>]
  /\ tv = [t \in {"w", "t"} |-> V1]
  /\ wpc = "w0" /\ wi = 1 /\ wv = 0 /\ wtmp = 0 /\ results = <<>>
  /\ tpc = "next" /\ ti = 1 /\ ttmp = 0
  /\ woken = [k \in 1 .. NPolls |-> 0] /\ oks = 0 /\ race = FALSE

Finish(r) == /\ results' = Append(results, r)
             /\ wi' = wi + 1
             /\ wpc' = IF wi + 1 > NPolls THEN "done" ELSE "w0"
WU == <<tpc, ti, ttmp, InitCredit, TaskOps>>      \* unchanged by writer steps
TU == <<wpc, wi, wv, wtmp, results, InitCredit, TaskOps>>

(* ------------------------------ writer ------------------------------ *)
W0 == /\ wpc = "w0"                                  \* finish_sent.load(Relaxed)
      /\ \E i \in Readable("w", "F") :
           /\ tv' = [tv EXCEPT !["w"] = AfterLoad("w", "F", i, FALSE)]
           /\ IF Val("F", i) = 1 THEN Finish("broken") ELSE wpc' = "w1" /\ UNCHANGED <<results, wi>>
      /\ UNCHANGED <<mem, wv, wtmp, woken, oks, race>> /\ UNCHANGED WU
W1 == /\ wpc = "w1"                                  \* psh_send_remaining.load(Acquire)
      /\ \E i \in Readable("w", "C") :
           /\ tv' = [tv EXCEPT !["w"] = AfterLoad("w", "C", i, Acq(TRUE))]
           /\ wv' = Val("C", i)
           /\ wpc' = IF Val("C", i) = 0 THEN "r1" ELSE "w4"
      /\ UNCHANGED <<mem, wtmp, results, wi, woken, oks, race>> /\ UNCHANGED WU
(* AtomicWaker::register *)
R1 == /\ wpc = "r1"                                  \* state.compare_exchange(WAITING, REGISTERING, Acquire, Acquire)
      /\ \E i \in Readable("w", "S") :
           IF Val("S", i) = WAITING
           THEN /\ i = Last("S")                     \* an RMW reads the last message
                /\ DoRmw("w", "S", REGISTERING, TRUE, FALSE)
                /\ wpc' = "r2" /\ UNCHANGED <<woken>>
           ELSE /\ tv' = [tv EXCEPT !["w"] = AfterLoad("w", "S", i, TRUE)] /\ UNCHANGED mem
                /\ IF Val("S", i) = WAKING
                   THEN woken' = [woken EXCEPT ![wi] = @ + 1]   \* waker.wake_by_ref(): the writer wakes itself
                   ELSE UNCHANGED woken
                /\ wpc' = "rdone"
      /\ UNCHANGED <<wv, wtmp, results, wi, oks, race>> /\ UNCHANGED WU
R2 == /\ wpc = "r2"                                  \* *cell = Some(waker)   (plain write)
      /\ race' = (race \/ Racy("w"))
      /\ DoStore("w", "cell", wi, FALSE)
      /\ wpc' = "r3"
      /\ UNCHANGED <<wv, wtmp, results, wi, woken, oks>> /\ UNCHANGED WU
R3 == /\ wpc = "r3"                                  \* state.compare_exchange(REGISTERING, WAITING, AcqRel, Acquire)
      /\ \E i \in Readable("w", "S") :
           IF Val("S", i) = REGISTERING
           THEN /\ i = Last("S")
                /\ DoRmw("w", "S", WAITING, TRUE, TRUE)
                /\ wpc' = "rdone"
           ELSE /\ tv' = [tv EXCEPT !["w"] = AfterLoad("w", "S", i, TRUE)] /\ UNCHANGED mem
                /\ wpc' = "r4"                       \* REGISTERING | WAKING: a wake came in meanwhile
      /\ UNCHANGED <<wv, wtmp, results, wi, woken, oks, race>> /\ UNCHANGED WU
R4 == /\ wpc = "r4"                                  \* cell.take()
      /\ race' = (race \/ Racy("w"))
      /\ wtmp' = Val("cell", Last("cell"))
      /\ DoStore("w", "cell", 0, FALSE)
      /\ wpc' = "r5"
      /\ UNCHANGED <<wv, results, wi, woken, oks>> /\ UNCHANGED WU
R5 == /\ wpc = "r5"                                  \* state.swap(WAITING, AcqRel); waker.wake()
      /\ DoRmw("w", "S", WAITING, TRUE, TRUE)
      /\ woken' = IF wtmp # 0 THEN [woken EXCEPT ![wtmp] = @ + 1] ELSE woken
      /\ wpc' = "rdone"
      /\ UNCHANGED <<wv, wtmp, results, wi, oks, race>> /\ UNCHANGED WU
RDone == /\ wpc = "rdone"
         /\ IF Mode = "pinned" THEN Finish("pending")
            ELSE wpc' = (IF Mode = "flagged" THEN "wf" ELSE "w2") /\ UNCHANGED <<results, wi>>
         /\ UNCHANGED <<mem, tv, wv, wtmp, woken, oks, race>> /\ UNCHANGED WU
WF == /\ wpc = "wf"                                  \* (flagged) waiting.store(true, Release)
      /\ DoStore("w", "flag", 1, TRUE)
      /\ wpc' = "w2"
      /\ UNCHANGED <<wv, wtmp, results, wi, woken, oks, race>> /\ UNCHANGED WU
W2 == /\ wpc = "w2"                                  \* finish_sent.load(Acquire)
      /\ \E i \in Readable("w", "F") :
           /\ tv' = [tv EXCEPT !["w"] = AfterLoad("w", "F", i, Acq(TRUE))]
           /\ IF Val("F", i) = 1 THEN Finish("broken") ELSE wpc' = "w3" /\ UNCHANGED <<results, wi>>
      /\ UNCHANGED <<mem, wv, wtmp, woken, oks, race>> /\ UNCHANGED WU
W3 == /\ wpc = "w3"                                  \* psh_send_remaining.load(Acquire) != 0 -> continue
      /\ \E i \in Readable("w", "C") :
           /\ tv' = [tv EXCEPT !["w"] = AfterLoad("w", "C", i, Acq(TRUE))]
           /\ IF Val("C", i) # 0 THEN wpc' = "w1" /\ UNCHANGED <<results, wi>> ELSE Finish("pending")
      /\ UNCHANGED <<mem, wv, wtmp, woken, oks, race>> /\ UNCHANGED WU
W4 == /\ wpc = "w4"                                  \* compare_exchange_weak(original, original - 1, AcqRel, Relaxed)
      /\ \/ /\ Val("C", Last("C")) = wv              \* success
            /\ DoRmw("w", "C", wv - 1, Acq(TRUE), Rel(TRUE))
            /\ oks' = oks + 1
            /\ Finish("ok")
         \/ /\ \E i \in Readable("w", "C") :         \* failure: a (relaxed) load, possibly spurious
                 tv' = [tv EXCEPT !["w"] = AfterLoad("w", "C", i, FALSE)]
            /\ wpc' = "w1"
            /\ UNCHANGED <<mem, oks, results, wi>>
      /\ UNCHANGED <<wv, wtmp, woken, race>> /\ UNCHANGED WU

(* ------------------------------- task ------------------------------- *)
Op == IF ti <= Len(TaskOps) THEN TaskOps[ti] ELSE "-"
TNext ==
  /\ tpc = "next" /\ Op # "-"
  /\ IF Op = "a" THEN DoRmw("t", "C", Val("C", Last("C")) + 1, FALSE, FALSE)     \* fetch_add(n, Relaxed)
                 ELSE DoRmw("t", "F", 1, Acq(TRUE), Rel(TRUE))                    \* swap(true, AcqRel)
  /\ tpc' = IF Mode = "flagged" THEN "k0" ELSE "k1"
  /\ UNCHANGED <<ti, ttmp, woken, oks, race>> /\ UNCHANGED TU
K0 == /\ tpc = "k0"                                  \* (flagged) if !waiting.load(Acquire) { skip the wake }
      /\ \E i \in Readable("t", "flag") :
           /\ tv' = [tv EXCEPT !["t"] = AfterLoad("t", "flag", i, TRUE)]
           /\ IF Val("flag", i) = 1 THEN tpc' = "k1" /\ UNCHANGED ti ELSE tpc' = "next" /\ ti' = ti + 1
      /\ UNCHANGED <<mem, ttmp, woken, oks, race>> /\ UNCHANGED TU
(* AtomicWaker::wake = take() + wake *)
K1 == /\ tpc = "k1"                                  \* state.fetch_or(WAKING, AcqRel)
      /\ LET old == Val("S", Last("S"))
             new == IF old >= WAKING THEN old ELSE old + WAKING
         IN /\ DoRmw("t", "S", new, TRUE, TRUE)
            /\ IF old = WAITING THEN tpc' = "k2" /\ UNCHANGED ti ELSE tpc' = "next" /\ ti' = ti + 1
      /\ UNCHANGED <<ttmp, woken, oks, race>> /\ UNCHANGED TU
K2 == /\ tpc = "k2"                                  \* cell.take()
      /\ race' = (race \/ Racy("t"))
      /\ ttmp' = Val("cell", Last("cell"))
      /\ DoStore("t", "cell", 0, FALSE)
      /\ tpc' = "k3"
      /\ UNCHANGED <<ti, woken, oks>> /\ UNCHANGED TU
K3 == /\ tpc = "k3"                                  \* state.fetch_and(!WAKING, Release); waker.wake()
      /\ LET old == Val("S", Last("S")) IN DoRmw("t", "S", IF old >= WAKING THEN old - WAKING ELSE old, FALSE, TRUE)
      /\ woken' = IF ttmp # 0 THEN [woken EXCEPT ![ttmp] = @ + 1] ELSE woken
      /\ tpc' = "next" /\ ti' = ti + 1
      /\ UNCHANGED <<ttmp, oks, race>> /\ UNCHANGED TU

Next == W0 \/ W1 \/ R1 \/ R2 \/ R3 \/ R4 \/ R5 \/ RDone \/ WF \/ W2 \/ W3 \/ W4 \/ TNext \/ K0 \/ K1 \/ K2 \/ K3
Spec == Init /\ [][Next]_vars

Done == wpc = "done" /\ Op = "-" /\ tpc = "next"
FinalC == Val("C", Last("C"))
FinalF == Val("F", Last("F")) = 1
(* what a poll made after everything (by a thread that has synchronised with both) returns *)
After == IF FinalF THEN "broken" ELSE IF FinalC = 0 THEN "pending" ELSE "ok"
ContractHolds ==
  Done => Contract(InitCredit, TaskOps, results, woken,
                   After, IF After = "ok" THEN FinalC - 1 ELSE FinalC, FinalF)
NoRace == ~race
(* the state word never shows REGISTERING from two threads, the cell is empty whenever nobody is registered *)
StateWordSane == \A i \in 1 .. Len(mem["S"]) : mem["S"][i].val \in 0 .. 3
(* vacuity guard: under release/acquire some load did read a stale message *)
StaleReadSeen == \E t \in {"w", "t"}, l \in Locs : tv[t][l] < Last(l)
=============================================================================
