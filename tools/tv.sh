#!/bin/bash
# usage: tv.sh <trace.ndjson> [cfg]   -- validate a simulator trace against spec/MuxTrace.tla
T=$(readlink -f "$1"); CFG=${2:-MuxTrace}
MOD=${3:-$CFG}
cd /verif/spec
W=/verif/.work/tv_$$
TRACE=$T JAVA_TOOL_OPTIONS="-Xss1g -Dtlc2.tool.queue.IStateQueue=StateDeque" timeout ${TV_TIMEOUT:-600} tlc -workers 1 -metadir $W -cleanup -noGenerateSpecTE -config $CFG.cfg $MOD.tla 2>&1 | grep -v "^Picked up"
rc=${PIPESTATUS[0]}
rm -rf $W
exit $rc
