SPECIFICATION Spec
CONSTANTS
  MaxChunks = 2
  Sizes = {1, 2}
  Segs <- SegsQuick
  Depth = 2
  Mode = "pinned"
  StopAtOOR = FALSE
  CowAlphabet = {}
  CowMaxLen = 0
INVARIANTS ApplyMeetsPost NoEmptyChunk LenIsSum
CHECK_DEADLOCK FALSE
