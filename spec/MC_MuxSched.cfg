SPECIFICATION Spec
CONSTANTS
  AckMode = "shaped"
  ThrMode = "fixed"
  EmptyMode = "fixed"
  RstMode = "fixed"
  CfgSet <- SchedCfgs
  Ids = {1, 2}
  Hosts = {"h0", ""}
  Lens = {0, 1, 2, 3}
  ReadMax = {1, 2, 8}
  MaxOpens = 2
  MaxBytes = 8
  MaxDgrams = 2
  Depth = 60
  EmitEvery = 20
  Faults = {"cutsrc", "cutsrcs", "endsrc", "cutsink", "softcut"}
  WithBind = FALSE
  AdvMsgs = {}
  MaxAdv = 0
  MaxNow = 0
  WithBridge = FALSE
INVARIANTS Emit NoViolation
CHECK_DEADLOCK FALSE
