SPECIFICATION Spec
CONSTANTS
  MaxChunks = 3
  Sizes = {1, 2}
  Segs <- SegsQuick
  Depth = 3
  Mode = "fixed"
  StopAtOOR = TRUE
  CowAlphabet = {0, 1, 200}
  CowMaxLen = 2
INVARIANTS ApplyMeetsPost NoEmptyChunk LenIsSum PanicOnlyOutOfRange Emit
CHECK_DEADLOCK FALSE
