SPECIFICATION Spec
CONSTANTS
  Mode = "flagged"
  OrdMode = "code"
  SC = "no"
  NPolls = 2
INVARIANTS ContractHolds NoRace StateWordSane
CHECK_DEADLOCK FALSE
