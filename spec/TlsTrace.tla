------------------------------ MODULE TlsTrace ------------------------------
(***************************************************************************)
(* Trace specification for property C17: validates an ndjson log written   *)
(* by harness_app/src/bin/tls_matrix.rs (real handshakes of the            *)
(* application's TLS configuration code over an in-memory duplex) against  *)
(* TlsAuth.tla.                                                            *)
(*                                                                         *)
(*  ev = "case"    one cell of the matrix was executed.  The harness logs  *)
(*                 raw facts per side: how the handshake ended (hs), how   *)
(*                 the application-data round trip ended (rt), the octets  *)
(*                 each application received, the certificate the client   *)
(*                 saw, whether the server saw a client certificate.  The  *)
(*                 outcome class is derived HERE (Obs):                    *)
(*                   ok             both applications received "ping"      *)
(*                   clientRejects  the client itself refused the server's *)
(*                                  certificate                            *)
(*                   serverRejects  the server itself refused the client's *)
(*                                  certificate / demanded one             *)
(*                 and must be in the set TlsAuth!Expected allows.         *)
(*                 Moreover: no application data is delivered unless the   *)
(*                 outcome is ok; a client that completed its handshake    *)
(*                 saw exactly the configured certificate; a server        *)
(*                 without a client CA saw no client certificate (it did   *)
(*                 not ask: the harness's client presents its certificate  *)
(*                 whenever asked); a server with one, on success, saw it. *)
(*  ev = "script"  a reload script starts: the machine of TlsAuth.tla is   *)
(*                 reset.                                                  *)
(*  ev = "step"    Connect / Reload / Use(c) of that machine, with what    *)
(*                 was observed: a handshake sees the identity `live`, an  *)
(*                 established connection still round-trips and still     *)
(*                 shows the identity it handshook with.                   *)
(*                                                                         *)
(*  ev = "rscript" / "rstep"   the same machine, observed through the REAL  *)
(*                 server entry point: server_main running in the harness  *)
(*                 process on a loopback TCP port with --tls-cert/--tls-key *)
(*                 (and --tls-ca for mtls), connections made with the      *)
(*                 application's tls_connect presenting `cc`, an HTTP      *)
(*                 request/response as the application-data round trip,    *)
(*                 reloads by rewriting the files and raising SIGUSR1.     *)
(*                 Only the client end is observable.  The outcome class   *)
(*                 (RObs): ok = an HTTP response came back; clientRejects  *)
(*                 = the client refused the server's certificate;          *)
(*                 serverRejects = no response and the server ended the    *)
(*                 connection (alert / EOF / reset, during the handshake   *)
(*                 or - TLS 1.3 - at the first round trip).  It must be    *)
(*                 in TlsAuth!HandshakeOutcome(cc), i.e. the cell of the   *)
(*                 decision table for the CONFIGURED client CA, before and *)
(*                 after every reload; every handshake that got as far as  *)
(*                 the server's certificate saw the identity `live`.       *)
(*                 A reload line reports what the harness waited for: a    *)
(*                 probe handshake that was served the new identity        *)
(*                 (res = "ok"), or "stale" when SIGUSR1 was delivered to  *)
(*                 the process and the old identity was still served at    *)
(*                 the deadline.                                           *)
(*                                                                         *)
(*  op = "rotate"  (step / rstep) the harness overwrote the server's client *)
(*                 CA bundle IN PLACE with the next generation of the CA    *)
(*                 (TlsAuth!Rotate); nothing is reloaded.  A connect line   *)
(*                 carries `cc`: the client certificate presented ("none",  *)
(*                 "otherCA", "trustedCA" = generation 0, "gen<g>"), and is *)
(*                 judged by the decision table for the CA generation in    *)
(*                 force (HandshakeOutcome): the one that was at the path   *)
(*                 at the last reload - a client of a retired generation is *)
(*                 refused, one of the generation configured at the reload  *)
(*                 is admitted, and a rotation without reload changes       *)
(*                 nothing.  The probe handshake of a real-server reload    *)
(*                 line presents the certificate of the generation at the   *)
(*                 path and must be admitted.                               *)
(*  op = "botch"   (rstep) a reload request that FAILS: the harness made    *)
(*                 the key file unusable and raised SIGUSR1                 *)
(*                 (TlsAuth!BotchedReload): nothing changes - later         *)
(*                 handshakes see the identity installed last, and the next *)
(*                 reload takes effect like any other.                      *)
(*  op = "botch" with cause = "ca" (step / rstep): the reload request      *)
(*                 found the client-CA BUNDLE unusable: the harness         *)
(*                 overwrote the file at the configured path in place with  *)
(*                 `junk` (nothing, a PEM private key, a PEM certificate    *)
(*                 cut short, random bytes) and called reload_tls_identity  *)
(*                 (duplex: `res` = what the call returned) or raised       *)
(*                 SIGUSR1 (TlsAuth!BotchedReloadCA).  Nothing changes: the *)
(*                 connects that follow are judged by the configuration in  *)
(*                 force BEFORE the botch - a client without a certificate  *)
(*                 or with a foreign one is refused, the trusted one is     *)
(*                 served.  The next "reload" restores the bundle first.    *)
(*  op = "badstart" (step, first line of a script): make_tls_identity was   *)
(*                 called on such a file (TlsAuth!BotchedStart): res =      *)
(*                 "err" (the harness then starts the server on the valid   *)
(*                 bundle) or "ok" (the connects that follow are served by  *)
(*                 THAT identity); either way they are judged by the        *)
(*                 configured client CA.                                    *)
(*  RETURNING CLIENTS THAT RESUME.  Every connect line (step / rstep) says    *)
(*                 how the client was made and what it observed of           *)
(*                 resumption: keep (a raw rustls client whose ClientConfig, *)
(*                 i.e. its resumption store, is kept for the whole script,  *)
(*                 one per client certificate; FALSE = the application's     *)
(*                 tls_connect, which keeps nothing), tls (the protocol      *)
(*                 version that client speaks), offered (its store handed    *)
(*                 out a ticket / session for this ClientHello), stored (how *)
(*                 many tickets / sessions this connect put into the store), *)
(*                 resumed (rustls's handshake_kind() of the client end),    *)
(*                 srv_resumed (of the server end, duplex only).  The        *)
(*                 machine's `tickets` follow the log: after a line with     *)
(*                 stored > 0 the client holds a ticket of the identity it   *)
(*                 saw and of the client-CA generation in force.  The line   *)
(*                 is judged like any other connect - the configuration in   *)
(*                 force decides who gets in and which identity is seen,     *)
(*                 whether or not a ticket was offered - and moreover a      *)
(*                 handshake may BE a resumption only if the client holds a  *)
(*                 ticket of the configuration in force (TlsAuth!Usable):    *)
(*                 resumption within one generation is accepted, one across  *)
(*                 a reload is not.                                          *)
(*  ev = "cscript" / "cstep"   the client-side machine (c): one client      *)
(*                 process, its roots file replaced in place (op "rotate"), *)
(*                 connections (op "connect") to a server whose certificate *)
(*                 was issued by `srv`; each must be validated against the  *)
(*                 roots the file holds when the connection is made.        *)
(*                                                                         *)
(* Acceptance: POSTCONDITION Accepted (as in SocksTrace.tla / MuxTrace).   *)
(* With Collect = TRUE unmatched lines are recorded (with a signature) and *)
(* the walk goes on, the machine following the specification.              *)
(***************************************************************************)
EXTENDS TlsAuth, Integers, Json, IOUtils

CONSTANT Collect

Rec == ndJsonDeserialize(IOEnv.TRACE)

VARIABLE l
\* the client-CA bundle was unusable when the server read it last (botch / badstart with cause "ca" since the last reload
\* of the script): only names the signature of a deviation, the judgement is the machine's
VARIABLE caBroken

(* ------------------------------ matrix lines ------------------------------ *)
CaseOf(r) == [serverCert |-> r.serverCert, nameMatches |-> r.nameMatches, skipVerify |-> r.skipVerify,
              clientCert |-> r.clientCert, serverClientCA |-> r.serverClientCA]

\* the subject the harness gives the server certificate of a cell
ServerCN(k) == "srv-" \o k.serverCert \o "-" \o (IF k.nameMatches THEN "match" ELSE "differ")

Reached(r) == r.srv_data = "ping" /\ r.cli_data = "ping"

Obs(r) ==
  IF Reached(r) THEN "ok"
  ELSE IF r.client_hs = "bad_cert" THEN "clientRejects"
  ELSE IF r.server_hs \in {"bad_cert", "no_cert"} THEN "serverRejects"
  ELSE "undetermined"

Clients == {"penguin", "ref12"}

WellFormedCase(r) ==
  /\ CaseOf(r) \in Cases
  /\ r.client \in Clients
  \* the reference TLS 1.2 client of the harness has no skip-verify arm
  /\ r.client = "ref12" => ~r.skipVerify

MatchCase(r) ==
  /\ WellFormedCase(r)
  /\ LET k == CaseOf(r)
         o == Obs(r)
     IN /\ o \in Expected(k)
        /\ o = "ok" => r.client_hs = "ok" /\ r.server_hs = "ok" /\ r.client_rt = "ok" /\ r.server_rt = "ok"
        /\ o # "ok" => r.srv_data = "" /\ r.cli_data = ""
        /\ r.client_hs = "ok" => r.seen_cn = ServerCN(k)
        /\ ~ServerAsksForCert(k) => ~r.srv_saw_client_cert
        /\ (ServerAsksForCert(k) /\ o = "ok") => r.srv_saw_client_cert /\ r.srv_saw_client_cn = "cli-trustedCA"
        /\ (r.client = "ref12" /\ r.client_hs = "ok") => r.proto = "Some(TLSv1_2)"

SigCase(r) ==
  IF ~WellFormedCase(r) THEN "other:malformed_line"
  ELSE LET k == CaseOf(r)
           o == Obs(r)
       IN IF "panic" \in {r.client_hs, r.server_hs, r.client_rt, r.server_rt} THEN "panic"
          ELSE IF o = "ok" /\ ~ClientAccepts(k) THEN "client_accepts_invalid_server_cert"
          ELSE IF o = "ok" /\ ~ServerAccepts(k) THEN "server_accepts_unauthenticated_client"
          ELSE IF o = "clientRejects" /\ ClientAccepts(k)
               THEN (IF k.skipVerify THEN "skip_verify_still_verifies" ELSE "client_rejects_valid_server_cert")
          ELSE IF o = "serverRejects" /\ ServerAccepts(k)
               THEN (IF ServerAsksForCert(k) THEN "server_rejects_valid_client_cert"
                     ELSE "server_demands_client_cert_without_ca")
          ELSE IF o = "undetermined" THEN "other:undetermined_failure"
          ELSE IF o # "ok" /\ (r.srv_data # "" \/ r.cli_data # "") THEN "data_delivered_despite_rejection"
          ELSE IF r.client_hs = "ok" /\ r.seen_cn # ServerCN(k) THEN "wrong_server_cert_presented"
          ELSE IF ~ServerAsksForCert(k) /\ r.srv_saw_client_cert THEN "server_asks_client_cert_without_ca"
          ELSE IF ServerAsksForCert(k) /\ o = "ok" /\ ~r.srv_saw_client_cert THEN "server_did_not_authenticate_client"
          ELSE "other:case"

(* ------------------------------ reload lines ------------------------------ *)
\* the subject / serial number the harness gives identity number v
IdentCN(v) == "srv-v" \o ToString(v)
IdentSerial(v) == 100 + v

RoundTrips(r) ==
  /\ r.client_rt = "ok" /\ r.server_rt = "ok"
  /\ r.srv_data = "ping" /\ r.cli_data = "ping"

ShowsIdentity(r, v) == r.seen_cn = IdentCN(v) /\ r.seen_serial = IdentSerial(v) /\ r.seen_issuer = "trusted-ca"

StepOps == {"connect", "reload", "rotate", "use", "botch", "badstart"}
RStepOps == {"connect", "reload", "rotate", "use", "botch"}
BotchCauses == {"key", "ca"}
Junk == {"empty", "key", "truncated", "random"}
\* a botch / badstart line whose cause is the client-CA bundle
CaBotch(r) == r.cause = "ca" /\ r.junk \in Junk /\ wantCA = "configured"

\* the subject the harness gives the client certificate `cc`, and the CA certificate of `x`
ClientCN(cc) == "cli-" \o cc
CaCN(x) == IF x = "otherCA" THEN "other-ca" ELSE IF x = "trustedCA" THEN "trusted-ca" ELSE "trusted-ca-" \o x

\* ---- resumption fields of a connect line ----
TlsVersions == {"1.3", "1.2"}
ProtoOf(v) == IF v = "1.3" THEN "Some(TLSv1_3)" ELSE "Some(TLSv1_2)"
\* well formed and consistent with the harness's own bookkeeping (nothing of this is a judgement of the code under test:
\* a client that keeps nothing offers nothing, a client can only offer what an earlier connect of the script stored, a
\* handshake that was a resumption offered something, the client speaks the version the script says)
ResumeFields(r) ==
  /\ r.keep \in BOOLEAN /\ r.offered \in BOOLEAN /\ r.resumed \in BOOLEAN /\ r.stored \in Nat /\ r.tls \in TlsVersions
  /\ ~r.keep => (~r.offered /\ r.stored = 0 /\ r.tls = "1.3")
  /\ r.offered => Held(r.cc) # {}
  /\ r.resumed => r.offered
  /\ r.client_hs = "ok" => r.proto = ProtoOf(r.tls)
\* the property allows the handshake of `cc` that starts now to be a resumption: the client holds a ticket issued by the
\* configuration in force
MayResume(cc) == Usable(Held(cc)) # {}
\* signature of a resumption the property does not allow (a ticket of a replaced configuration was honoured), by what it led to
ResumeSig(r, o) ==
  IF o = "ok" /\ ~ServerAccepts(HandshakeCellG(r.cc, wantCA, dueGen)) THEN "resumption_bypasses_reloaded_client_ca"
  ELSE IF r.client_hs = "ok" /\ ~ShowsIdentity(r, live) THEN "resumption_shows_retired_identity"
  ELSE "ticket_of_retired_configuration_honoured"

\* The server's judgement of a client presenting cc, observed as outcome class o, against what the configuration read
\* at the last reload demands: "" = as configured, else the signature of the deviation.
JudgeSig(o, cc) ==
  LET k == HandshakeCellG(cc, wantCA, dueGen)
      isgen == IsGen(cc, wantGen)
      g == IF isgen THEN GenOf(cc, wantGen) ELSE 0
  IN IF o = "ok" /\ ~ServerAccepts(k)
     THEN (IF caBroken THEN "unusable_client_ca_disables_client_auth"
           ELSE IF isgen /\ g < dueGen THEN "reload_keeps_retired_client_ca"
           ELSE IF isgen /\ g > dueGen THEN "ca_rotation_effective_before_reload"
           ELSE IF identityVersion > 0 THEN "reload_drops_client_auth"
           ELSE "server_accepts_unauthenticated_client")
     ELSE IF o = "serverRejects" /\ ServerAccepts(k)
     THEN (IF caBroken THEN "unusable_client_ca_locks_out_clients"
           ELSE IF dueGen > 0 THEN "reload_rejects_new_client_ca"
           ELSE IF wantGen > dueGen THEN "ca_rotation_effective_before_reload"
           ELSE IF identityVersion > 0 THEN "handshake_fails_after_reload"
           ELSE IF ServerAsksForCert(k) THEN "server_rejects_valid_client_cert"
           ELSE "server_demands_client_cert_without_ca")
     ELSE ""

MatchRotate(r) ==
  /\ wantCA = "configured"
  /\ r.res = "ok"
  /\ r.to = wantGen + 1

MatchStep(r) ==
  CASE r.op = "connect" ->
         \* the handshake is judged by the CA generation in force and, when it reaches the server, is served with the
         \* identity installed last (a script without rotation presents RightCert: always admitted)
         /\ r.cc \in Presentable
         /\ r.mtls = (wantCA = "configured") /\ ConfigKept /\ CAFollows
         /\ ResumeFields(r)
         \* a resumption only with a ticket of the configuration in force; both ends agree on what the handshake was
         /\ r.resumed => MayResume(r.cc)
         /\ (r.client_hs = "ok" /\ r.server_hs = "ok") => r.srv_resumed = r.resumed
         /\ LET o == Obs(r)
            IN \* (whatever was offered: OutcomeWith(cc, offer) = HandshakeOutcome(cc) for the machine the property demands)
               /\ o \in HandshakeOutcome(r.cc)
               /\ r.conn = (IF Admitted(r.cc) THEN Len(conns) + 1 ELSE 0)
               /\ o = "ok" => r.client_hs = "ok" /\ r.server_hs = "ok" /\ RoundTrips(r)
               /\ o # "ok" => r.srv_data = "" /\ r.cli_data = ""
               /\ r.client_hs = "ok" => ShowsIdentity(r, live)
               /\ live = identityVersion
               /\ o = "ok" => r.srv_saw_client_cert = r.mtls
               /\ ~r.mtls => ~r.srv_saw_client_cert
               /\ (o = "ok" /\ r.mtls) => r.srv_saw_client_cn = ClientCN(r.cc)
    [] r.op = "reload" ->
         /\ r.res = "ok"
         /\ r.to = identityVersion + 1
    [] r.op = "rotate" -> MatchRotate(r)
    [] r.op = "botch" ->
         \* reload_tls_identity was called while the client-CA bundle was unusable: it reported a failure - or it did not;
         \* what it did to the server is judged at the connects that follow
         /\ CaBotch(r)
         /\ r.n = botched + 1
         /\ r.res \in {"err", "ok"}
    [] r.op = "badstart" ->
         /\ CaBotch(r)
         /\ identityVersion = 0 /\ conns = <<>> /\ botched = 0
         /\ r.res \in {"err", "ok"}
    [] r.op = "use" ->
         \* an established connection is not disturbed by the reloads since and keeps its identity
         /\ r.conn \in DOMAIN conns
         /\ RoundTrips(r)
         /\ Works(r.conn)
         /\ ShowsIdentity(r, Sees(r.conn))
         /\ Sees(r.conn) = conns[r.conn].ver
    [] OTHER -> FALSE

SigStep(r) ==
  IF r.op \notin StepOps THEN (IF r.op = "panic" THEN "panic:script" ELSE "other:malformed_line")
  ELSE IF r.op = "reload" THEN (IF r.res = "panic" THEN "panic:reload" ELSE "reload_failed")
  ELSE IF r.op = "rotate" THEN "other:malformed_line"
  ELSE IF r.op \in {"botch", "badstart"}
  THEN (IF r.res = "panic" THEN "panic:" \o r.op ELSE IF r.res = "timeout" THEN "failed_reload_hangs" ELSE "other:malformed_line")
  ELSE IF "panic" \in {r.client_hs, r.server_hs, r.client_rt, r.server_rt} THEN "panic:" \o r.op
  ELSE IF r.op = "connect"
  THEN IF r.cc \notin Presentable \/ r.mtls # (wantCA = "configured") \/ ~ResumeFields(r) THEN "other:malformed_line"
       ELSE LET o == Obs(r)
                j == JudgeSig(o, r.cc)
            IN IF r.resumed /\ ~MayResume(r.cc) THEN ResumeSig(r, o)
               ELSE IF j # "" THEN j
               ELSE IF r.client_hs = "ok" /\ r.server_hs = "ok" /\ r.srv_resumed # r.resumed THEN "ends_disagree_on_resumption"
               ELSE IF o = "clientRejects" THEN "client_rejects_valid_server_cert"
               ELSE IF o = "undetermined" \/ (o = "ok" /\ ~(r.client_hs = "ok" /\ r.server_hs = "ok" /\ RoundTrips(r)))
               THEN "handshake_fails_after_reload"
               ELSE IF r.client_hs = "ok" /\ ~ShowsIdentity(r, live) THEN "new_handshake_sees_stale_identity"
               ELSE IF o # "ok" /\ (r.srv_data # "" \/ r.cli_data # "") THEN "data_delivered_despite_rejection"
               ELSE IF o = "ok" /\ r.mtls /\ ~r.srv_saw_client_cert
               THEN (IF caBroken THEN "unusable_client_ca_disables_client_auth" ELSE "server_did_not_authenticate_client")
               ELSE IF ~r.mtls /\ r.srv_saw_client_cert THEN "server_asks_client_cert_without_ca"
               ELSE IF o = "ok" /\ r.mtls /\ r.srv_saw_client_cn # ClientCN(r.cc) THEN "server_saw_another_client_cert"
               ELSE "other:connect"
  ELSE IF r.conn \notin DOMAIN conns THEN "other:malformed_line"
  ELSE IF r.client_hs = "gone" THEN "other:use_of_failed_connection"
  ELSE IF ~RoundTrips(r) THEN "reload_disturbs_established_connection"
       ELSE IF ~ShowsIdentity(r, Sees(r.conn)) THEN "established_connection_changes_identity"
       ELSE "other:use"

(* ------------------------------ real-server lines ------------------------------ *)
\* an HTTP response came back: the request reached the server's application layer
RReached(r) == r.http_status \in 100 .. 599
\* how a connection the server ended looks from the client end
Refusal == {"alert", "eof", "closed"}
Refused(r) == r.client_hs \in Refusal \/ (r.client_hs = "ok" /\ r.client_rt \in Refusal)

RObs(r) ==
  IF RReached(r) THEN "ok"
  ELSE IF r.client_hs = "bad_cert" THEN "clientRejects"
  ELSE IF Refused(r) THEN "serverRejects"
  ELSE "undetermined"

MatchRStep(r) ==
  CASE r.op = "connect" ->
         /\ r.cc \in Presentable
         /\ r.mtls = (wantCA = "configured")
         \* authenticated exactly as configured, whatever number of reloads happened, against the CA bundle that was at
         \* the configured path at the last reload
         /\ ConfigKept /\ CAFollows
         /\ ResumeFields(r)
         \* a resumption only with a ticket of the configuration in force
         /\ r.resumed => MayResume(r.cc)
         /\ LET o == RObs(r)
            IN /\ o \in HandshakeOutcome(r.cc)
               /\ r.conn = (IF Admitted(r.cc) THEN Len(conns) + 1 ELSE 0)
               /\ o = "ok" => r.client_hs = "ok" /\ r.client_rt = "ok"
               /\ o # "ok" => r.http_status = 0 /\ r.cli_data = ""
               \* TLS 1.3: the client has the server's certificate before the server judges the client's
               /\ r.client_hs = "ok" => ShowsIdentity(r, live)
               /\ live = identityVersion
    [] r.op = "reload" ->
         \* the harness saw a handshake served with the new identity after SIGUSR1; that handshake presented the
         \* certificate of the CA generation at the configured path (none without mutual TLS) and was admitted
         /\ r.res = "ok"
         /\ r.to = identityVersion + 1
         /\ r.seen_serial = IdentSerial(identityVersion + 1)
         /\ r.cc = (IF wantCA = "configured" THEN GenName(wantGen) ELSE "none")
         /\ RReached(r) /\ r.client_rt = "ok"
    [] r.op = "rotate" -> MatchRotate(r)
    [] r.op = "botch" ->
         \* the harness made the key file (cause "key") or the client-CA bundle (cause "ca") unusable and its SIGUSR1 was
         \* delivered
         /\ r.res = "signalled"
         /\ r.n = botched + 1
         /\ r.cause \in BotchCauses
         /\ r.cause = "ca" => CaBotch(r)
    [] r.op = "use" ->
         /\ r.conn \in DOMAIN conns
         /\ RReached(r) /\ r.client_rt = "ok"
         /\ Works(r.conn)
         /\ ShowsIdentity(r, Sees(r.conn))
         /\ Sees(r.conn) = conns[r.conn].ver
    [] OTHER -> FALSE

SigRStep(r) ==
  IF r.op \notin RStepOps THEN (IF r.op = "panic" THEN "panic:script" ELSE "other:malformed_line")
  ELSE IF r.op = "reload"
  THEN (IF r.res = "panic" THEN "panic:reload"
        ELSE IF r.res = "stale" THEN (IF botched > 0 THEN "reload_dead_after_failed_reload" ELSE "reload_not_effective")
        ELSE IF r.res # "ok" \/ r.to # identityVersion + 1 \/ r.seen_serial # IdentSerial(identityVersion + 1) THEN "reload_failed"
        ELSE IF r.cc # (IF wantCA = "configured" THEN GenName(wantGen) ELSE "none") THEN "other:malformed_line"
        ELSE IF wantGen > 0 THEN "reload_rejects_new_client_ca"
        ELSE "handshake_fails_after_reload")
  ELSE IF r.op \in {"rotate", "botch"} THEN "other:malformed_line"
  ELSE IF "panic" \in {r.client_hs, r.client_rt} THEN "panic:" \o r.op
  ELSE IF r.op = "connect"
  THEN IF r.cc \notin Presentable \/ r.mtls # (wantCA = "configured") \/ ~ResumeFields(r) THEN "other:malformed_line"
       ELSE LET o == RObs(r)
                j == JudgeSig(o, r.cc)
            IN IF r.resumed /\ ~MayResume(r.cc) THEN ResumeSig(r, o)
               ELSE IF j # "" THEN j
               ELSE IF o = "clientRejects" THEN "client_rejects_valid_server_cert"
               ELSE IF o = "undetermined" THEN "other:undetermined_failure"
               ELSE IF r.client_hs = "ok" /\ ~ShowsIdentity(r, live) THEN "new_handshake_sees_stale_identity"
               ELSE IF o # "ok" /\ (r.http_status # 0 \/ r.cli_data # "") THEN "data_delivered_despite_rejection"
               ELSE "other:connect"
  ELSE IF r.conn \notin DOMAIN conns THEN "other:malformed_line"
  ELSE IF r.client_hs = "gone" THEN "other:use_of_failed_connection"
  ELSE IF ~(RReached(r) /\ r.client_rt = "ok") THEN "reload_disturbs_established_connection"
       ELSE IF ~ShowsIdentity(r, Sees(r.conn)) THEN "established_connection_changes_identity"
       ELSE "other:use"

(* ------------------------------ client-side lines ------------------------------ *)
CStepOps == {"connect", "rotate"}

MatchCStep(r) ==
  CASE r.op = "connect" ->
         /\ r.srv \in CPresentable
         /\ r.roots = rootsGen
         /\ LET o == Obs(r)
            IN \* validated against the roots the file holds NOW
               /\ o \in CConnectOutcome(r.srv)
               /\ o = "ok" => r.client_hs = "ok" /\ r.server_hs = "ok" /\ RoundTrips(r)
               /\ o # "ok" => r.srv_data = "" /\ r.cli_data = ""
               /\ r.client_hs = "ok" => r.seen_cn = "srv-" \o r.srv \o "-match" /\ r.seen_issuer = CaCN(r.srv)
               /\ ~r.srv_saw_client_cert
    [] r.op = "rotate" ->
         /\ r.res = "ok"
         /\ r.to = rootsGen + 1
    [] OTHER -> FALSE

SigCStep(r) ==
  IF r.op \notin CStepOps THEN (IF r.op = "panic" THEN "panic:script" ELSE "other:malformed_line")
  ELSE IF r.op = "rotate" THEN "other:malformed_line"
  ELSE IF "panic" \in {r.client_hs, r.server_hs, r.client_rt, r.server_rt} THEN "panic:" \o r.op
  ELSE IF r.srv \notin CPresentable \/ r.roots # rootsGen THEN "other:malformed_line"
  ELSE LET k == ClientCell(r.srv, rootsGen)
           o == Obs(r)
       IN IF o = "ok" /\ ~ClientAccepts(k)
          THEN (IF IsGen(r.srv, rootsGen) /\ GenOf(r.srv, rootsGen) < rootsGen THEN "client_uses_stale_roots"
                ELSE "client_accepts_invalid_server_cert")
          ELSE IF o = "clientRejects" /\ ClientAccepts(k)
          THEN (IF rootsGen > 0 THEN "client_ignores_replaced_roots" ELSE "client_rejects_valid_server_cert")
          ELSE IF o = "serverRejects" THEN "server_demands_client_cert_without_ca"
          ELSE IF o = "undetermined" THEN "other:undetermined_failure"
          ELSE IF o # "ok" /\ (r.srv_data # "" \/ r.cli_data # "") THEN "data_delivered_despite_rejection"
          ELSE IF r.client_hs = "ok" /\ ~(r.seen_cn = "srv-" \o r.srv \o "-match" /\ r.seen_issuer = CaCN(r.srv))
          THEN "wrong_server_cert_presented"
          ELSE IF r.srv_saw_client_cert THEN "server_asks_client_cert_without_ca"
          ELSE "other:cconnect"

\* The machine follows the specification whatever was observed, with one exception: a handshake that was
\* served with an identity other than `live` (an unmatched line, recorded above) pins the connection to the
\* identity it actually saw, so that later uses of it are judged by "keeps seeing the identity it handshook
\* with" and one defect does not cascade into a second signature.
ObsVer(r) == IF r.seen_serial - 100 \in 0 .. identityVersion THEN r.seen_serial - 100 ELSE live
\* A connect line.  For a matched line this is TlsAuth!ConnectWith(cc, offer, keep) - the full handshake, or the
\* resumption with a ticket of the configuration in force, which leaves the same state behind.  The tickets follow the
\* LOG (what the client's store really took in), also on an unmatched line, so that what a later line offers is known: a
\* ticket stored by this connect carries the identity the client saw and the client-CA generation in force.
ConnectLine(r) ==
  /\ conns' = IF Admitted(r.cc)
              THEN Append(conns, [born |-> identityVersion, ver |-> ObsVer(r), cfg |-> ObsVer(r), alive |-> TRUE, cc |-> r.cc,
                                  gen |-> dueGen])
              ELSE conns
  /\ tickets' = IF ResumeFields(r) /\ r.keep /\ r.stored > 0 THEN tickets \cup {[cc |-> r.cc, ver |-> ObsVer(r), gen |-> liveGen]} ELSE tickets
  /\ UNCHANGED <<identityVersion, live, wantCA, liveCA, wantGen, liveGen, dueGen, botched>>
  /\ UNCHANGED cvars
Advance(r) ==
  CASE r.ev \in {"script", "rscript"} ->
         /\ identityVersion' = 0 /\ live' = 0 /\ conns' = <<>>
         /\ wantCA' = CAOf(r.mtls) /\ liveCA' = CAOf(r.mtls)
         /\ wantGen' = 0 /\ liveGen' = 0 /\ dueGen' = 0 /\ botched' = 0
         \* the returning clients of a script are made for that script: nobody holds a ticket
         /\ tickets' = {}
         /\ UNCHANGED cvars
    [] r.ev = "cscript" ->
         /\ rootsGen' = 0 /\ rootsRead' = {} /\ cseen' = <<>>
         /\ UNCHANGED svars
    [] r.ev \in {"step", "rstep"} /\ r.op = "connect" /\ r.cc \in Presentable -> ConnectLine(r)
    [] r.ev \in {"step", "rstep"} /\ r.op = "reload" -> Reload
    [] r.ev \in {"step", "rstep"} /\ r.op = "rotate" /\ wantCA = "configured" -> Rotate
    [] r.ev \in {"step", "rstep"} /\ r.op = "botch" -> IF r.cause = "ca" /\ wantCA = "configured" THEN BotchedReloadCA ELSE BotchedReload
    [] r.ev \in {"step", "rstep"} /\ r.op = "use" /\ r.conn \in DOMAIN conns -> Use(r.conn)
    [] r.ev = "cstep" /\ r.op = "connect" /\ r.srv \in CPresentable -> CConnect(r.srv)
    [] r.ev = "cstep" /\ r.op = "rotate" -> CRotate
    [] OTHER -> UNCHANGED mvars

\* (a script header, a reload: the bundle at the path is the valid one again)
NextBroken(r) ==
  IF r.ev \in {"script", "rscript", "cscript"} THEN FALSE
  ELSE IF r.ev \in {"step", "rstep"} /\ r.op = "reload" THEN FALSE
  ELSE IF r.ev \in {"step", "rstep"} /\ r.op \in {"botch", "badstart"} THEN (caBroken \/ r.cause = "ca")
  ELSE caBroken

Match(r) ==
  CASE r.ev = "case"   -> MatchCase(r)
    [] r.ev = "script" -> r.mtls \in BOOLEAN
    [] r.ev = "step"   -> MatchStep(r)
    [] r.ev = "rscript" -> r.mtls \in BOOLEAN
    [] r.ev = "rstep"  -> MatchRStep(r)
    [] r.ev = "cscript" -> TRUE
    [] r.ev = "cstep"  -> MatchCStep(r)
    [] OTHER -> FALSE

Sig(r) ==
  CASE r.ev = "case" -> SigCase(r)
    [] r.ev = "step" -> SigStep(r)
    [] r.ev = "rstep" -> SigRStep(r)
    [] r.ev = "cstep" -> SigCStep(r)
    [] OTHER -> "other:malformed_line"

ConnectView(r, o) ==
  [outcome |-> HandshakeOutcome(r.cc), observed |-> o, clientHoldsTicket |-> Held(r.cc) # {}, mayBeResumption |-> MayResume(r.cc),
   serverClientCA |-> wantCA, reloadsSoFar |-> identityVersion, clientCaBundleUnusableWhenReadLast |-> caBroken,
   caGenerationAtPath |-> wantGen, caGenerationAtLastReload |-> dueGen, failedReloadsSoFar |-> botched,
   identity |-> live, cn |-> IdentCN(live), conn |-> (IF Admitted(r.cc) THEN Len(conns) + 1 ELSE 0)]

ExpectView(r) ==
  CASE r.ev = "case" ->
         IF WellFormedCase(r)
         THEN [outcome |-> Expected(CaseOf(r)), observed |-> Obs(r), serverAsksForCert |-> ServerAsksForCert(CaseOf(r)),
               serverCN |-> ServerCN(CaseOf(r))]
         ELSE [error |-> "malformed line"]
    [] r.ev = "step" /\ r.op = "connect" /\ r.cc \in Presentable -> ConnectView(r, Obs(r))
    [] r.ev = "step" /\ r.op = "reload" -> [res |-> "ok", to |-> identityVersion + 1]
    [] r.ev \in {"step", "rstep"} /\ r.op = "rotate" -> [res |-> "ok", to |-> wantGen + 1, serverClientCA |-> wantCA]
    [] r.ev = "step" /\ r.op = "use" /\ r.conn \in DOMAIN conns ->
         [roundtrip |-> "ok", identity |-> conns[r.conn].ver, cn |-> IdentCN(conns[r.conn].ver)]
    [] r.ev = "rstep" /\ r.op = "connect" /\ r.cc \in Presentable -> ConnectView(r, RObs(r))
    [] r.ev = "rstep" /\ r.op = "reload" ->
         [res |-> "ok", to |-> identityVersion + 1, serial |-> IdentSerial(identityVersion + 1), failedReloadsSoFar |-> botched,
          probe |-> (IF wantCA = "configured" THEN GenName(wantGen) ELSE "none"), probeOutcome |-> "ok"]
    [] r.ev = "rstep" /\ r.op = "botch" -> [res |-> "signalled", n |-> botched + 1, identityServedAfterwards |-> live,
                                           clientCAInForceAfterwards |-> liveCA]
    [] r.ev = "step" /\ r.op \in {"botch", "badstart"} ->
         [res |-> {"err", "ok"}, n |-> botched + 1, identityServedAfterwards |-> live, clientCAInForceAfterwards |-> liveCA]
    [] r.ev = "rstep" /\ r.op = "use" /\ r.conn \in DOMAIN conns ->
         [roundtrip |-> "ok", identity |-> conns[r.conn].ver, cn |-> IdentCN(conns[r.conn].ver)]
    [] r.ev = "cstep" /\ r.op = "connect" /\ r.srv \in CPresentable ->
         [outcome |-> CConnectOutcome(r.srv), observed |-> Obs(r), rootsGenerationAtPath |-> rootsGen]
    [] r.ev = "cstep" /\ r.op = "rotate" -> [res |-> "ok", to |-> rootsGen + 1]
    [] OTHER -> [error |-> "malformed line"]

(* ------------------------------ the walk over the log ------------------------------ *)
\* registers: 1 = furthest line reached, 3 = unmatched lines (Collect) as <<line, signature, expectation>>
Init == /\ l = 1
        /\ MInit
        /\ caBroken = FALSE
        /\ TLCSet(1, 1) /\ TLCSet(3, <<>>)

Step ==
  /\ l <= Len(Rec)
  /\ IF Match(Rec[l]) THEN TRUE
     ELSE Collect /\ TLCSet(3, Append(TLCGet(3), <<l, Sig(Rec[l]), ToJson(ExpectView(Rec[l]))>>))
  /\ Advance(Rec[l])
  /\ caBroken' = NextBroken(Rec[l])
  /\ l' = l + 1

Next == Step
Spec == Init /\ [][Next]_<<l, mvars, caBroken>>

Track == IF TLCGet(1) < l THEN TLCSet(1, l) ELSE TRUE

Bad == TLCGet(3)
FirstBad == IF Len(Bad) > 0 THEN Bad[1][1] ELSE TLCGet(1)

Accepted ==
  \/ /\ TLCGet(1) = Len(Rec) + 1
     /\ Len(Bad) = 0
     /\ PrintT(<<"ACCEPTED lines", Len(Rec)>>)
  \/ /\ PrintT(<<"REJECTED at line", FirstBad, "of", Len(Rec)>>)
     /\ FirstBad <= Len(Rec) => PrintT(<<"UNMATCHED", ToJson(Rec[FirstBad])>>)
     /\ \A k \in 1 .. Len(Bad) : PrintT(<<"BAD", Bad[k][1], Bad[k][2], Bad[k][3]>>)
     /\ PrintT(<<"BADCOUNT", Len(Bad)>>)
     /\ FALSE
=============================================================================
