SPECIFICATION Spec
CONSTANTS
  Mode = "fixed"
  NPolls = 2
INVARIANT ContractHolds
CHECK_DEADLOCK FALSE
