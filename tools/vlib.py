#!/usr/bin/env python3
"""Shared machinery of the /verif checks: building the harness, running TLC (model checking and
trace validation), batching traces, evidence and known-findings handling."""
import json, os, re, subprocess, sys, time, hashlib, shutil, tempfile

VERIF = os.path.dirname(os.path.dirname(os.path.abspath(__file__)))
SPEC = os.path.join(VERIF, "spec")
HARNESS = os.path.join(VERIF, "harness")
HARNESS_APP = os.path.join(VERIF, "harness_app")
WORK = os.path.join(VERIF, ".work")
REPLAYS = os.path.join(VERIF, "replays")
EVIDENCE = os.path.join(VERIF, "evidence")
TLA_JAR_CP = "/opt/veriftools/tla/tla2tools.jar:/opt/veriftools/tla/CommunityModules-deps.jar"


class ToolError(Exception):
    pass


def log(*a):
    print(*a, flush=True)


def ensure_dirs():
    for d in (WORK, REPLAYS, EVIDENCE):
        os.makedirs(d, exist_ok=True)


# --------------------------------------------------------------------------------------
# cargo
# --------------------------------------------------------------------------------------
def build_harness(bins, release=False, features=None, crate=None):
    """Build harness binaries from /repo's current working tree (path dependencies). Returns dir.
    crate: harness crate directory (default /verif/harness; /verif/harness_app links the whole application)."""
    ensure_dirs()
    HARNESS = crate or globals()["HARNESS"]
    lock = os.path.join(HARNESS, "Cargo.lock")
    if not os.path.exists(lock):
        shutil.copy("/repo/Cargo.lock", lock)
    cmd = ["cargo", "build", "--offline", "--quiet"]
    if release:
        cmd.append("--release")
    for b in bins:
        cmd += ["--bin", b]
    env = dict(os.environ, CARGO_NET_OFFLINE="true")
    t0 = time.time()
    p = subprocess.run(cmd, cwd=HARNESS, env=env, stdout=subprocess.PIPE, stderr=subprocess.STDOUT, text=True)
    if p.returncode != 0:
        log(p.stdout[-6000:])
        raise ToolError("cargo build failed")
    log(f"[build] {' '.join(bins)} ({'release' if release else 'debug'}) {time.time()-t0:.1f}s")
    return os.path.join(HARNESS, "target", "release" if release else "debug")


def run(cmd, timeout=600, cwd=None, env=None, input=None):
    try:
        p = subprocess.run(cmd, cwd=cwd, env=env, stdout=subprocess.PIPE, stderr=subprocess.STDOUT,
                           text=True, timeout=timeout, input=input)
    except subprocess.TimeoutExpired as e:
        raise ToolError(f"timeout after {timeout}s: {' '.join(cmd[:4])}") from e
    return p.returncode, p.stdout


# --------------------------------------------------------------------------------------
# TLC
# --------------------------------------------------------------------------------------
def tlc_cmd(module, cfg, workers, meta, extra=(), jvm=()):
    return ["java", "-XX:+UseParallelGC", *jvm, "-cp", TLA_JAR_CP, "tlc2.TLC",
            "-workers", str(workers), "-metadir", meta, "-cleanup", "-noGenerateSpecTE",
            "-config", cfg, *extra, module]


STAT_RE = re.compile(r"(\d+) states generated, (\d+) distinct states found, (\d+) states left on queue")


def parse_coverage(out):
    """action name -> (distinct, total) from `-coverage 1` output (last report)."""
    cov = {}
    for m in re.finditer(r"^<(\w+) line \d+, col \d+ to line \d+, col \d+ of module (\w+)>: (\d+):(\d+)", out, re.M):
        cov[m.group(1)] = (int(m.group(3)), int(m.group(4)))
    return cov


def model_check(module, cfg, workers=8, timeout=1800, coverage=True, simulate=None, xmx="8g"):
    """Run TLC on spec/<module>.tla with spec/<cfg>.cfg. Returns dict(ok, states, distinct, violated, out, coverage)."""
    ensure_dirs()
    meta = tempfile.mkdtemp(prefix="mc_", dir=WORK)
    extra = []
    if coverage:
        extra += ["-coverage", "1"]
    if simulate:
        extra += ["-simulate", simulate]
    cmd = ["timeout", str(timeout)] + tlc_cmd(module + ".tla", cfg + ".cfg", workers, meta, extra, jvm=(f"-Xmx{xmx}",))
    t0 = time.time()
    rc, out = run(cmd, timeout=timeout + 30, cwd=SPEC)
    shutil.rmtree(meta, ignore_errors=True)
    wall = time.time() - t0
    if rc == 124:
        raise ToolError(f"TLC timed out on {cfg}")
    m = None
    for m in STAT_RE.finditer(out):
        pass
    states = int(m.group(1)) if m else 0
    distinct = int(m.group(2)) if m else 0
    violated = None
    mi = re.search(r"Error: Invariant (\w+) is violated", out)
    if mi:
        violated = mi.group(1)
    mt = re.search(r"Error: Temporal properties were violated", out)
    if mt:
        violated = "temporal"
    mp = re.search(r"Error: Temporal property (\w+) was violated", out)
    if mp:
        violated = mp.group(1)
    ma = re.search(r"Error: Action property (\w+)", out)
    if ma:
        violated = ma.group(1)
    ok = "Model checking completed. No error has been found." in out or (simulate and violated is None and rc in (0,))
    if not ok and violated is None:
        log(out[-4000:])
        raise ToolError(f"TLC failed on {cfg} (rc={rc})")
    return dict(ok=ok and violated is None, states=states, distinct=distinct, violated=violated, out=out,
                coverage=parse_coverage(out), wall=wall)


def split_batch(path):
    """Return list of (start_line_index, lines) for each trace (starting with a reset event) in a batch file."""
    traces = []
    with open(path) as f:
        cur = None
        for n, l in enumerate(f, 1):
            if '"ev":"reset"' in l:
                cur = [n, []]
                traces.append(cur)
            if cur is None:
                raise ToolError("trace batch does not start with a reset event")
            cur[1].append(l)
    return traces


def validate_once(module, cfg, trace_path, timeout=900, xmx="4g", raw=False):
    """One TLC run over a trace file. Returns dict(accepted, line, unmatched, laststate, invariant, out)."""
    meta = tempfile.mkdtemp(prefix="tv_", dir=WORK)
    env = dict(os.environ, TRACE=os.path.abspath(trace_path))
    cmd = ["timeout", str(timeout)] + tlc_cmd(module + ".tla", cfg + ".cfg", 1, meta,
                                                jvm=("-Xss1g", f"-Xmx{xmx}", "-Dtlc2.tool.queue.IStateQueue=StateDeque"))
    rc, out = run(cmd, timeout=timeout + 30, cwd=SPEC, env=env)
    shutil.rmtree(meta, ignore_errors=True)
    if rc == 124:
        raise ToolError("TLC timed out validating " + trace_path)
    if raw:
        m = None
        for m in STAT_RE.finditer(out):
            pass
        return dict(out=out, states=int(m.group(2)) if m else 0)
    res = dict(accepted=False, line=None, unmatched=None, laststate=None, invariant=None, out=out, states=0,
               expected=None, kf=set())
    for mk in re.finditer(r'<<"KF", \{([^}]*)\}>>', out):
        res["kf"] |= set(x.strip().strip('"') for x in mk.group(1).split(",") if x.strip())
    m = None
    for m in STAT_RE.finditer(out):
        pass
    if m:
        res["states"] = int(m.group(2))
    mi = re.search(r"Error: Invariant (\w+) is violated", out)
    if mi:
        res["invariant"] = mi.group(1)
        # the line reached when the invariant failed: last "l = n" of the printed behaviour
        ls = re.findall(r"^/\\ l = (\d+)", out, re.M)
        res["line"] = int(ls[-1]) - 1 if ls else None
        mv = re.findall(r"viol \|-> \{([^}]*)\}", out)
        if mv:
            res["flags"] = mv[-1]
        return res
    if "Model checking completed. No error has been found." in out:
        res["accepted"] = True
        return res
    mr = re.search(r'<<"REJECTED at line", (\d+), "of", (\d+)>>', out)
    if mr:
        res["line"] = int(mr.group(1))
        mu = re.search(r'<<"UNMATCHED", "(.*)">>', out)
        if mu:
            try:
                res["unmatched"] = json.loads(mu.group(1).encode().decode("unicode_escape"))
            except Exception:
                res["unmatched"] = mu.group(1)
        me = re.search(r'<<"EXPECTED", "(.*)">>', out)
        if me:
            try:
                res["expected"] = json.loads(me.group(1).encode().decode("unicode_escape"))
            except Exception:
                res["expected"] = None
        ml = re.search(r'<<"LASTSTATE", "(.*)">>', out)
        if ml:
            try:
                res["laststate"] = json.loads(ml.group(1).encode().decode("unicode_escape"))
            except Exception:
                res["laststate"] = None
        return res
    log(out[-5000:])
    raise ToolError("TLC failed while validating " + trace_path)


def validate_batch(module, cfg, trace_path, timeout=900, max_failures=None):
    """Validate a batch of traces. On a rejection the offending trace is isolated and validation resumes
    with the traces after it, so every failing trace of the batch is found.
    Returns dict(traces, accepted, failures=[{index, lines, line_in_trace, unmatched, invariant, ...}], states)."""
    if max_failures is None:
        # every further failing trace of a batch costs one more TLC run; evaluations of seeded changes lower the bound
        max_failures = int(os.environ.get("VERIF_MAX_FAILURES", "120"))
    traces = split_batch(trace_path)
    total = len(traces)
    failures = []
    states = 0
    start = 0
    kf = set()
    tmpdir = tempfile.mkdtemp(prefix="vb_", dir=WORK)
    # The first run takes the whole batch (one TLC start when everything conforms).  After a rejection the runs take a
    # window of traces behind the failing one -- small at first, growing again while windows are accepted -- so that a
    # batch with many failing traces costs a JVM start and a short parse per failure, not a parse of the whole rest.
    win = None
    validated = 0
    try:
        while start < total and len(failures) < max_failures:
            end = total if win is None else min(total, start + win)
            part = os.path.join(tmpdir, f"part_{start}.ndjson")
            with open(part, "w") as f:
                for t in traces[start:end]:
                    f.writelines(t[1])
            r = validate_once(module, cfg, part, timeout=timeout)
            states += r["states"]
            kf |= r.get("kf", set())
            if r["accepted"]:
                validated += end - start
                start = end
                if win is not None:
                    win = min(win * 4, 4096)
                continue
            # locate the failing trace
            line = r["line"] or 1
            acc = 0
            k = start
            for k in range(start, end):
                n = len(traces[k][1])
                if line <= acc + n:
                    break
                acc += n
            fail = dict(index=k, lines=traces[k][1], line_in_trace=line - acc, unmatched=r["unmatched"],
                        invariant=r["invariant"], flags=r.get("flags"), laststate=r["laststate"],
                        expected=r.get("expected"))
            failures.append(fail)
            validated += k - start + 1
            start = k + 1
            win = 16
    finally:
        shutil.rmtree(tmpdir, ignore_errors=True)
    # traces behind the last one examined (the bound on failures was reached) are neither accepted nor rejected
    return dict(traces=total, accepted=validated - len(failures), failures=failures, states=states, kf=kf, not_examined=total - validated,
                all_lines=[t[1] for t in traces])


def api_oracle(traces, timeout=900):
    """The second, coarser oracle (spec/MuxApi.tla via spec/MuxApiTrace.tla): the application-level clauses of the mux
    family evaluated over WHOLE traces, also behind the point where a trace stopped conforming to PenguinMux.
    traces: list of lists of ndjson lines (each starting with its `reset` event).
    Returns a list, per trace, of [(line_in_trace, {clause names})]."""
    if not traces:
        return []
    tmpdir = tempfile.mkdtemp(prefix="api_", dir=WORK)
    try:
        path = os.path.join(tmpdir, "traces.ndjson")
        starts, acc = [], 0
        with open(path, "w") as f:
            for t in traces:
                starts.append(acc)
                f.writelines(t)
                acc += len(t)
        r = validate_once("MuxApiTrace", "MuxApiTrace", path, timeout=timeout, raw=True)
        m = re.search(r'<<"APIVIOL", "(.*)">>', r["out"])
        if not m:
            log(r["out"][-2000:])
            raise ToolError("MuxApiTrace did not run to the end")
        found = json.loads(m.group(1).encode().decode("unicode_escape"))
        res = [[] for _ in traces]
        for rec in found:
            ln = rec["line"]
            k = max(i for i, s0 in enumerate(starts) if s0 < ln)
            res[k].append((ln - starts[k], set(rec["viol"])))
        return res
    finally:
        shutil.rmtree(tmpdir, ignore_errors=True)


def summarize_event(r):
    if r.get("ev") == "task":
        return f"{r['e']} task gr={r['gr']} gs={r['gs']} rcv={r['rcv']['op']}:{r['rcv']['id']} sent={[(m['op'], m['id'], m['n'], m['len']) for m in r['sent']]} -> {r['res']} woke={r.get('woke')}"
    return json.dumps({k: v for k, v in r.items() if k not in ("cmd",)}, sort_keys=True)


def describe_failure(f, context=14):
    lines = f["lines"]
    n = f["line_in_trace"]
    out = []
    lo = max(1, n - context)
    for i in range(lo, min(len(lines), n) + 1):
        try:
            r = json.loads(lines[i - 1])
        except Exception:
            continue
        mark = ">>" if i == n else "  "
        out.append(f"{mark}{i:4d} {summarize_event(r)}")
    if f.get("invariant"):
        out.append(f"   invariant violated: {f['invariant']} flags={f.get('flags')}")
    if f.get("expected") is not None:
        out.append(f"   specification expected one of: {json.dumps(f['expected'])[:900]}")
    ls = f.get("laststate")
    if ls:
        for e in ("A", "B"):
            try:
                hs = ls["hnd"][e]
                hsum = [dict(h=i + 1, id=x["id"], st=x["st"], cr=x["credit"], cW=x["closedW"], inq=len(x["inq"]), buf=x["buf"]["len"],
                             since=x["since"], thr=x["thr"], eof=x["eof"], conn=x["conn"]) for i, x in enumerate(hs)]
                out.append(f"   spec[{e}] task={ls['task'][e]} mux={ls['mux'][e]} sink={ls['sink'][e]} src={ls['src'][e]} outClosed={ls['outClosed'][e]} rxblk={ls['rxblk'][e]['k']}")
                out.append(f"   spec[{e}] outq={[(m['op'], m['id'], m['n'], m['len']) for m in ls['outq'][e]]} wire={[(m['op'], m['id'], m['n'], m['len']) for m in ls['wire'][e]]} drops={ls['drops'][e]}")
                out.append(f"   spec[{e}] slot={ls['slot'][e]} acceptq={ls['acceptq'][e]} calls={ls['calls'][e]}")
                out.append(f"   spec[{e}] hnd={hsum}")
            except Exception as ex:
                out.append(f"   (laststate summary failed: {ex})")
    return "\n".join(out)


def save_replay(prop, name, lines, note=None):
    ensure_dirs()
    h = hashlib.sha1("".join(lines).encode()).hexdigest()[:10]
    # the name may come from a signature that quotes a panic message: keep the path free of blanks and quotes
    name = re.sub(r"[^A-Za-z0-9_.-]+", "_", str(name))[:80]
    path = os.path.join(REPLAYS, f"{prop}_{name}_{h}.ndjson")
    with open(path, "w") as f:
        f.writelines(lines)
    if note:
        with open(path + ".txt", "w") as f:
            f.write(note + "\n")
    return path


def trace_hash(lines):
    """hash of a trace that ignores nothing: used to count distinct traces"""
    return hashlib.sha1("".join(lines).encode()).hexdigest()


# --------------------------------------------------------------------------------------
# evidence / known findings
# --------------------------------------------------------------------------------------
def load_known():
    p = os.path.join(VERIF, "KNOWN_FINDINGS.json")
    if not os.path.exists(p):
        return []
    return json.load(open(p)).get("findings", [])


def write_evidence(prop, tier, seed, coverage, wall, violations, assumptions=None, level="model_checking"):
    ensure_dirs()
    ev = dict(property_id=prop, tier=tier, seed=int(seed), level=level, coverage=coverage,
              assumptions=assumptions or [], wall_s=round(wall, 2), violations=int(violations))
    with open(os.path.join(EVIDENCE, f"{prop}.json"), "w") as f:
        json.dump(ev, f, indent=1, sort_keys=True)
        f.write("\n")
    return ev
