//! Threaded stress driver for the multiplexor (checks C02..C06, second leg "threads").
//!
//! The deterministic simulator (mux_sim) polls everything on one thread: a step of the application and a step of the
//! connection task never overlap.  Here two real `Multiplexor`s run on a multi-thread tokio runtime over an in-memory
//! WebSocket that is always ready, and the application's calls (write, shutdown, drop of a stream -- from a blocking
//! thread --, read) race with the connection tasks for real.  Every iteration runs one small scenario on a fresh
//! stream and logs what was OBSERVED as one ndjson record; it judges nothing: TLC decides every record against the
//! contracts of spec/MuxStressDefs.tla (spec/StressTrace.tla).
//!
//!   mux_stress <seed> <iterations per scenario> <out.ndjson>
//!
//! Scenarios (sc):
//!   abort      A writes `wrote` octets, then drops its stream without shutdown from a blocking thread while B is reading;
//!              B reads to end-of-stream (`got`, `eof`, `data_ok`), then writes until it fails (`wafter`)
//!   abort_buf  the same, but the dropped stream still holds frames B sent that A never read
//!   halfclose  A writes and shuts down while B, on another task, writes back and shuts down; both read to end-of-stream
//!   flow       A writes many frames beyond the window as fast as it can while B reads with random pauses
//! A step that does not complete within the deadline (10 s) is reported as such (`timeout`), never waited for.
use penguin_mux::config::Options;
use penguin_mux::ws::{Message, WebSocket};
use penguin_mux::{Multiplexor, MuxStream};
use rand::rngs::SmallRng;
use rand::{RngExt, SeedableRng};
use serde_json::{Value, json};
use std::io::Write;
use std::sync::Arc;
use std::task::{Context, Poll};
use std::time::Duration;
use tokio::io::{AsyncReadExt, AsyncWriteExt};
use tokio::sync::mpsc;

const DEADLINE: Duration = Duration::from_secs(10);

struct ChanWs {
    tx: mpsc::UnboundedSender<Message>,
    rx: mpsc::UnboundedReceiver<Message>,
    closed: bool,
    ended: bool,
}
fn pair() -> (ChanWs, ChanWs) {
    let (t1, r1) = mpsc::unbounded_channel();
    let (t2, r2) = mpsc::unbounded_channel();
    (ChanWs { tx: t1, rx: r2, closed: false, ended: false }, ChanWs { tx: t2, rx: r1, closed: false, ended: false })
}
fn gone() -> penguin_mux::Error {
    penguin_mux::Error::WebSocket(Box::new(std::io::Error::other("peer gone")))
}
impl WebSocket for ChanWs {
    fn poll_ready_unpin(&mut self, _cx: &mut Context<'_>) -> Poll<Result<(), penguin_mux::Error>> {
        Poll::Ready(if self.closed { Err(gone()) } else { Ok(()) })
    }
    fn start_send_unpin(&mut self, item: Message) -> Result<(), penguin_mux::Error> {
        self.tx.send(item).map_err(|_| gone())
    }
    fn poll_flush_unpin(&mut self, _cx: &mut Context<'_>) -> Poll<Result<(), penguin_mux::Error>> {
        Poll::Ready(Ok(()))
    }
    fn poll_close_unpin(&mut self, _cx: &mut Context<'_>) -> Poll<Result<(), penguin_mux::Error>> {
        if !self.closed {
            self.closed = true;
            let _ = self.tx.send(Message::Close);
        }
        Poll::Ready(Ok(()))
    }
    fn poll_next_unpin(&mut self, cx: &mut Context<'_>) -> Poll<Option<Result<Message, penguin_mux::Error>>> {
        if self.ended {
            return Poll::Ready(None);
        }
        match self.rx.poll_recv(cx) {
            Poll::Ready(Some(m)) => {
                if m == Message::Close {
                    self.ended = true;
                }
                Poll::Ready(Some(Ok(m)))
            }
            Poll::Ready(None) => {
                self.ended = true;
                Poll::Ready(None)
            }
            Poll::Pending => Poll::Pending,
        }
    }
}

fn pat(off: usize, n: usize) -> Vec<u8> {
    (off..off + n).map(|i| (i % 251) as u8).collect()
}

/// read to end-of-stream: (octets, all octets match the pattern, saw end-of-stream, timed out)
async fn read_all(s: &mut (impl tokio::io::AsyncRead + Unpin), pause: Option<&mut SmallRng>) -> (usize, bool, bool, bool) {
    let mut got = 0usize;
    let mut ok = true;
    let mut buf = vec![0u8; 4096];
    let mut pause = pause;
    loop {
        match tokio::time::timeout(DEADLINE, s.read(&mut buf)).await {
            Err(_) => return (got, ok, false, true),
            Ok(Err(_)) => return (got, ok, false, false),
            Ok(Ok(0)) => return (got, ok, true, false),
            Ok(Ok(n)) => {
                ok &= buf[..n] == pat(got, n)[..];
                got += n;
            }
        }
        if let Some(r) = pause.as_deref_mut() {
            match r.random_range(0..4) {
                0 => tokio::task::yield_now().await,
                1 => tokio::time::sleep(Duration::from_micros(r.random_range(1..200))).await,
                _ => {}
            }
        }
    }
}

/// write until it fails: "broken" | "err:<kind>" | "ok" (a bounded number of writes all succeeded) | "timeout"
async fn write_until_fail(s: &mut (impl tokio::io::AsyncWrite + Unpin)) -> String {
    for _ in 0..64 {
        match tokio::time::timeout(DEADLINE, s.write_all(&[7u8; 16])).await {
            Err(_) => return "timeout".into(),
            Ok(Err(e)) => return if e.kind() == std::io::ErrorKind::BrokenPipe { "broken".into() } else { format!("err:{:?}", e.kind()) },
            Ok(Ok(())) => {}
        }
        tokio::task::yield_now().await;
    }
    "ok".into()
}

async fn open_pair(a: &Multiplexor, b: &Multiplexor) -> Option<(MuxStream, MuxStream)> {
    let (x, y) = tokio::join!(
        tokio::time::timeout(DEADLINE, a.new_stream_channel(b"h", 1)),
        tokio::time::timeout(DEADLINE, b.accept_stream_channel())
    );
    match (x, y) {
        (Ok(Ok(x)), Ok(Ok(y))) => Some((x, y)),
        _ => None,
    }
}

async fn scenario(sc: &str, a: &Arc<Multiplexor>, b: &Arc<Multiplexor>, rng: &mut SmallRng) -> Value {
    if std::env::var("STRESS_DEBUG").is_ok() { eprintln!("scenario {sc}: opening"); }
    let Some((mut sa, mut sb)) = open_pair(a, b).await else {
        return json!({"sc": sc, "opened": false});
    };
    if std::env::var("STRESS_DEBUG").is_ok() { eprintln!("scenario {sc}: opened"); }
    match sc {
        "abort" | "abort_buf" => {
            // B reads from the start (so that A's writes complete whatever the windows are)
            let mut r2 = SmallRng::seed_from_u64(rng.random());
            if sc == "abort_buf" {
                // frames for A that A never reads: they are still buffered in the stream when it is dropped
                let _ = tokio::time::timeout(DEADLINE, sb.write_all(&[9u8; 8])).await;
            }
            let reader = tokio::spawn(async move {
                let (got, ok, eof, timeout) = read_all(&mut sb, Some(&mut r2)).await;
                let wafter = if eof { write_until_fail(&mut sb).await } else { "skipped".to_string() };
                (got, ok, eof, timeout, wafter)
            });
            let frames = rng.random_range(0..=3usize);
            let mut wrote = 0usize;
            for _ in 0..frames {
                let n = rng.random_range(1..=40usize);
                match tokio::time::timeout(DEADLINE, sa.write_all(&pat(wrote, n))).await {
                    Ok(Ok(())) => wrote += n,
                    _ => break,
                }
            }
            if sc == "abort_buf" {
                tokio::time::sleep(Duration::from_micros(rng.random_range(0..300))).await;
            }
            let spin = rng.random_range(0..2000u32);
            let dropper = tokio::task::spawn_blocking(move || {
                for _ in 0..spin {
                    std::hint::spin_loop();
                }
                drop(sa);
            });
            let _ = dropper.await;
            let (got, ok, eof, timeout, wafter) = reader.await.unwrap_or((0, false, false, true, "panic".into()));
            json!({"sc": sc, "opened": true, "wrote": wrote, "got": got, "data_ok": ok, "eof": eof, "timeout": timeout, "wafter": wafter})
        }
        "halfclose" => {
            let n = rng.random_range(0..=300usize);
            let m = rng.random_range(0..=300usize);
            let (mut ra, mut wa) = tokio::io::split(sa);
            let (mut rb, mut wb) = tokio::io::split(sb);
            let chunk_a = rng.random_range(1..=64usize);
            let chunk_b = rng.random_range(1..=64usize);
            let ta = tokio::spawn(async move {
                let mut off = 0;
                while off < n {
                    let k = chunk_a.min(n - off);
                    if wa.write_all(&pat(off, k)).await.is_err() {
                        return false;
                    }
                    off += k;
                }
                wa.shutdown().await.is_ok()
            });
            let tb = tokio::spawn(async move {
                let mut off = 0;
                while off < m {
                    let k = chunk_b.min(m - off);
                    if wb.write_all(&pat(off, k)).await.is_err() {
                        return false;
                    }
                    off += k;
                }
                wb.shutdown().await.is_ok()
            });
            let rra = tokio::spawn(async move { read_all(&mut ra, None).await });
            let rrb = tokio::spawn(async move { read_all(&mut rb, None).await });
            let wa_ok = tokio::time::timeout(DEADLINE, ta).await.map(|r| r.unwrap_or(false)).unwrap_or(false);
            let wb_ok = tokio::time::timeout(DEADLINE, tb).await.map(|r| r.unwrap_or(false)).unwrap_or(false);
            let (ga, oka, eofa, toa) = rra.await.unwrap_or((0, false, false, true));
            let (gb, okb, eofb, tob) = rrb.await.unwrap_or((0, false, false, true));
            json!({"sc": sc, "opened": true, "a_wrote": n, "b_wrote": m, "a_write_ok": wa_ok, "b_write_ok": wb_ok,
                   "a_got": ga, "a_data_ok": oka, "a_eof": eofa, "b_got": gb, "b_data_ok": okb, "b_eof": eofb, "timeout": toa || tob})
        }
        _ => {
            // flow
            let frames = rng.random_range(20..=80usize);
            let size = rng.random_range(1..=32usize);
            let mut r2 = SmallRng::seed_from_u64(rng.random());
            let reader = tokio::spawn(async move { read_all(&mut sb, Some(&mut r2)).await });
            let writer = tokio::spawn(async move {
                let mut off = 0usize;
                for _ in 0..frames {
                    match tokio::time::timeout(DEADLINE, sa.write_all(&pat(off, size))).await {
                        Ok(Ok(())) => off += size,
                        Ok(Err(_)) => return (off, "err"),
                        Err(_) => return (off, "timeout"),
                    }
                }
                match tokio::time::timeout(DEADLINE, sa.shutdown()).await {
                    Ok(Ok(())) => (off, "ok"),
                    Ok(Err(_)) => (off, "err"),
                    Err(_) => (off, "timeout"),
                }
            });
            let (wrote, wres) = writer.await.unwrap_or((0, "panic"));
            let (got, ok, eof, timeout) = reader.await.unwrap_or((0, false, false, true));
            json!({"sc": "flow", "opened": true, "wrote": wrote, "wres": wres, "got": got, "data_ok": ok, "eof": eof, "timeout": timeout})
        }
    }
}

fn main() {
    let args: Vec<String> = std::env::args().collect();
    if args.len() != 4 {
        eprintln!("usage: mux_stress <seed> <iterations per scenario> <out.ndjson>");
        std::process::exit(2);
    }
    let seed: u64 = args[1].parse().unwrap();
    let iters: usize = args[2].parse().unwrap();
    std::panic::set_hook(Box::new(|_| {}));
    let rt = tokio::runtime::Builder::new_multi_thread().worker_threads(4).enable_time().build().unwrap();
    let mut out = std::io::BufWriter::new(std::fs::File::create(&args[3]).unwrap());
    let lines: Vec<Value> = rt.block_on(async move {
        let mut rng = SmallRng::seed_from_u64(seed);
        let mut lines = Vec::new();
        for sc in ["abort", "abort_buf", "halfclose", "flow"] {
            let mut k = 0;
            while k < iters {
                // a fresh connection every 40 iterations; windows differ per side
                let (wa, wb) = pair();
                let oa = Options::new().rwnd(rng.random_range(1..=4)).default_rwnd_threshold(rng.random_range(1..=4));
                let ob = Options::new().rwnd(rng.random_range(1..=4)).default_rwnd_threshold(rng.random_range(1..=4));
                let (ma, ta) = Multiplexor::new_detailed::<_, std::time::Instant>(wa, oa, SmallRng::seed_from_u64(rng.random()));
                let (mb, tb) = Multiplexor::new_detailed::<_, std::time::Instant>(wb, ob, SmallRng::seed_from_u64(rng.random()));
                let ja = tokio::spawn(ta.into_task());
                let jb = tokio::spawn(tb.into_task());
                let (ma, mb) = (Arc::new(ma), Arc::new(mb));
                for _ in 0..40 {
                    if k >= iters {
                        break;
                    }
                    let fut = scenario(sc, &ma, &mb, &mut rng);
                    let rec = match tokio::time::timeout(DEADLINE * 4, fut).await {
                        Ok(v) => v,
                        Err(_) => json!({"sc": sc, "opened": true, "hang": true}),
                    };
                    let bad_conn = ja.is_finished() || jb.is_finished();
                    let mut rec = rec;
                    rec["conn_ended"] = json!(bad_conn);
                    lines.push(rec);
                    k += 1;
                    if bad_conn {
                        break;
                    }
                }
                drop(ma);
                drop(mb);
                let _ = tokio::time::timeout(Duration::from_secs(2), ja).await;
                let _ = tokio::time::timeout(Duration::from_secs(2), jb).await;
            }
        }
        lines
    });
    for l in lines {
        writeln!(out, "{l}").unwrap();
    }
}
