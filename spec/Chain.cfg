SPECIFICATION Spec
CONSTANTS
  MaxChunks = 3
  Sizes = {1, 2, 3}
  Segs <- SegsThorough
  Depth = 3
  Mode = "fixed"
  StopAtOOR = FALSE
  CowAlphabet = {0, 1, 127, 128, 255}
  CowMaxLen = 3
INVARIANTS ApplyMeetsPost NoEmptyChunk LenIsSum PanicOnlyOutOfRange Emit
CHECK_DEADLOCK FALSE
