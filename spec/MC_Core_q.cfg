SPECIFICATION Spec
CONSTANTS
  AckMode = "shaped"
  ThrMode = "fixed"
  EmptyMode = "fixed"
  RstMode = "fixed"
  CfgSet <- CoreCfgsQ
  SameCfg = FALSE
  Openers = {"A"}
  MaxOpens = 1
  Ids = {1}
  Hosts = {"h0"}
  MaxWrites = 3
  Writers = {"A", "B"}
  Lens = {1, 2}
  ReadMax = {1, 4}
  Closers = {}
  MuxDroppers = {}
  Cancellers = {}
  DgSenders = {}
  MaxDgrams = 0
  Binders = {}
  MaxBinds = 0
  Faults = {}
  AdvMsgs = {}
  MaxAdv = 0
  Bridgers = {}
  SplitFlush = FALSE
  MaxNow = 0
  MaxHandles = 2
  MaxCtr = 1
VIEW View
CONSTRAINT Bound
INVARIANTS NoViolation TypeOK AckSound QueueBound InitialCredit ExactlyOne TargetCarried BoundedRetry Released DoneResolved NoOrphanWriter
CHECK_DEADLOCK FALSE
