//! C19 part A driver: replays operation sequences on the real `penguin_mux::timing::Backoff` and logs
//! what it returned, one ndjson line per generator.  It never judges: TLC validates every line against
//! spec/Backoff.tla (spec/BackoffTrace.tla).
//!
//!   backoff_vec cases <cases.ndjson> <out.ndjson>
//!       one JSON object per line, a case printed by TLC (spec/MC_Backoff.tla) or a line of an earlier
//!       log (replay): {"initial":a,"max":b,"mult":m,"max_count":c,"ops":["a","r",..][,"unit":u]}
//!       ("a" = advance, "r" = reset; durations are multiples of the unit, default "ms")
//!   backoff_vec random <seed> <count> <out.ndjson>
//!       seeded random generators with larger values: sub-millisecond units, multipliers 0 and near
//!       u32::MAX, retry limits near u32::MAX, durations next to Duration::MAX (unit "s34" = 2^34 s).
//!
//! Output: {"ev":"backoff","src":..,"unit":u,"initial":a,"max":b,"mult":m,"max_count":c,"ops":[..],
//!          "rets":[..],"exact":bool,"res":"ok"|"panic","panic_at":p,"mult_real":"..","max_count_real":".."}
//! rets[i]: returned duration in units (-1 = None, -2 = reset, -3 = not below 2^31 units); `exact` is
//! false when a returned duration was not a multiple of the unit.  `mult` / `max_count` of 2^31 and more
//! are logged as 2^31 - 1 (TLC integers are 32-bit), the real value is in `*_real`.  A panic of the code
//! under test is data: res = "panic", panic_at = 1-based index of the operation, rets = what was returned
//! before it.
use penguin_mux::timing::Backoff;
use rand::rngs::SmallRng;
use rand::{RngExt, SeedableRng};
use serde_json::{Value, json};
use std::io::{BufRead, BufReader, BufWriter, Write};
use std::panic::{AssertUnwindSafe, catch_unwind};
use std::time::Duration;

const CAP: u64 = (1 << 31) - 1;

/// the unit as a number of nanoseconds
fn unit_ns(u: &str) -> u128 {
    match u {
        "ns" => 1,
        "ms" => 1_000_000,
        "s" => 1_000_000_000,
        "s34" => (1u128 << 34) * 1_000_000_000,
        _ => panic!("unknown unit {u}"),
    }
}

fn dur(u: &str, n: u64) -> Duration {
    let ns = unit_ns(u) * u128::from(n);
    let secs = ns / 1_000_000_000;
    let sub = (ns % 1_000_000_000) as u32;
    Duration::new(u64::try_from(secs).expect("duration out of range (harness bug)"), sub)
}

struct Case {
    unit: String,
    initial: u64,
    max: u64,
    mult: u32,
    max_count: u32,
    ops: Vec<String>,
}

fn run_case(c: &Case, src: &str, out: &mut impl Write) {
    let uns = unit_ns(&c.unit);
    let mut rets: Vec<i64> = Vec::new();
    let mut exact = true;
    let mut res = "ok";
    let mut panic_at = 0usize;
    let mut b = Backoff::new(dur(&c.unit, c.initial), dur(&c.unit, c.max), c.mult, c.max_count);
    for (i, op) in c.ops.iter().enumerate() {
        let r = catch_unwind(AssertUnwindSafe(|| match op.as_str() {
            "a" => Some(b.advance()),
            "r" => {
                b.reset();
                None
            }
            other => panic!("unknown op {other} (harness input)"),
        }));
        match r {
            Ok(Some(Some(d))) => {
                let ns = d.as_nanos();
                if ns % uns != 0 {
                    exact = false;
                }
                let q = ns / uns;
                rets.push(if q <= u128::from(CAP) { q as i64 } else { -3 });
            }
            Ok(Some(None)) => rets.push(-1),
            Ok(None) => rets.push(-2),
            Err(_) => {
                res = "panic";
                panic_at = i + 1;
                break;
            }
        }
    }
    let line = json!({
        "ev": "backoff", "src": src, "unit": c.unit, "initial": c.initial, "max": c.max,
        "mult": u64::from(c.mult).min(CAP), "max_count": u64::from(c.max_count).min(CAP),
        "mult_real": c.mult.to_string(), "max_count_real": c.max_count.to_string(),
        "ops": c.ops, "rets": rets, "exact": exact, "res": res, "panic_at": panic_at,
    });
    writeln!(out, "{line}").unwrap();
}

fn case_from_json(v: &Value) -> Case {
    let real = |k: &str, kr: &str| -> u32 {
        v.get(kr)
            .and_then(Value::as_str)
            .and_then(|s| s.parse::<u32>().ok())
            .unwrap_or_else(|| u32::try_from(v[k].as_u64().expect("number")).expect("u32"))
    };
    Case {
        unit: v.get("unit").and_then(Value::as_str).unwrap_or("ms").to_string(),
        initial: v["initial"].as_u64().expect("initial"),
        max: v["max"].as_u64().expect("max"),
        mult: real("mult", "mult_real"),
        max_count: real("max_count", "max_count_real"),
        ops: v["ops"].as_array().expect("ops").iter().map(|o| o.as_str().expect("op").to_string()).collect(),
    }
}

fn random_case(rng: &mut SmallRng) -> Case {
    let unit = ["ns", "ms", "ms", "s", "s34", "s34"][rng.random_range(0..6)].to_string();
    // largest multiple of the unit that is a Duration and below 2^30
    let lim: u64 = (1 << 30) - 1;
    let val = |rng: &mut SmallRng| -> u64 {
        match rng.random_range(0..10) {
            0 => 0,
            1..=4 => rng.random_range(0..=12),
            5..=6 => rng.random_range(0..=5000),
            7 => rng.random_range(0..=lim),
            8 => lim - rng.random_range(0..=3),
            _ => (lim / [2u64, 3, 4, 65536][rng.random_range(0..4)]) + rng.random_range(0..=2) - 1,
        }
    };
    let initial = val(rng);
    let max = if rng.random_range(0..5) == 0 { initial.saturating_add(rng.random_range(0..3)).min(lim) } else { val(rng) };
    let mult: u32 = match rng.random_range(0..12) {
        0 => 0,
        1..=2 => 1,
        3..=5 => 2,
        6 => 3,
        7 => rng.random_range(0..=1000),
        8 => [65535u32, 65536, 65537][rng.random_range(0..3)],
        9 => [(1u32 << 31) - 1, 1 << 31, (1 << 31) + 1][rng.random_range(0..3)],
        10 => u32::MAX - rng.random_range(0..=1),
        _ => rng.random::<u32>(),
    };
    let max_count: u32 = match rng.random_range(0..10) {
        0..=1 => 0,
        2..=6 => rng.random_range(1..=6),
        7 => rng.random_range(7..=40),
        8 => u32::MAX - rng.random_range(0..=1),
        _ => [1u32 << 31, (1 << 31) - 1][rng.random_range(0..2)],
    };
    let n = rng.random_range(1..=40usize);
    let preset = rng.random_range(0..100);
    let ops = (0..n)
        .map(|_| if rng.random_range(0..100) < preset.min(30) { "r" } else { "a" }.to_string())
        .collect();
    Case { unit, initial, max, mult, max_count, ops }
}

fn main() {
    std::panic::set_hook(Box::new(|_| {}));
    let args: Vec<String> = std::env::args().collect();
    match args.get(1).map(String::as_str) {
        Some("cases") if args.len() == 4 => {
            let inp = BufReader::new(std::fs::File::open(&args[2]).expect("open cases"));
            let mut out = BufWriter::new(std::fs::File::create(&args[3]).expect("create out"));
            for line in inp.lines() {
                let line = line.expect("read");
                if line.trim().is_empty() {
                    continue;
                }
                let v: Value = serde_json::from_str(&line).expect("case json");
                let src = v["src"].as_str().unwrap_or("tlc").to_string();
                run_case(&case_from_json(&v), &src, &mut out);
            }
            out.flush().unwrap();
        }
        Some("random") if args.len() == 5 => {
            let seed: u64 = args[2].parse().expect("seed");
            let count: usize = args[3].parse().expect("count");
            let mut rng = SmallRng::seed_from_u64(seed);
            let mut out = BufWriter::new(std::fs::File::create(&args[4]).expect("create out"));
            for _ in 0..count {
                run_case(&random_case(&mut rng), "random", &mut out);
            }
            out.flush().unwrap();
        }
        _ => {
            eprintln!("usage: backoff_vec cases <cases.ndjson> <out.ndjson> | random <seed> <count> <out.ndjson>");
            std::process::exit(2);
        }
    }
}
