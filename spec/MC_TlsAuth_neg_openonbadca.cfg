\* C17 negative control: a reload request that finds the client-CA bundle unusable turns client authentication off ("openonbadca"),
\* real-server scripts with such failed reloads; TLC must find Authenticated violated (a client without the certificate gets in)
SPECIFICATION Spec
CONSTANTS
  Mode = "openonbadca"
  MaxConn = 2
  MaxReload = 2
  MaxUse = 2
  Mtls = {}
  RMaxConn = 2
  RMaxReload = 1
  RMaxUse = 1
  RealMtls = {}
  RotConn = 0
  RotReload = 0
  RotRotate = 0
  RotUse = 0
  RRotConn = 0
  RRotReload = 0
  RRotRotate = 0
  RRotUse = 0
  CliConn = 0
  CliRotate = 0
  FConn = 2
  FReload = 1
  FBotch = 1
  FUse = 1
  FailMtls = {}
  ResConn = 0
  ResReload = 0
  ResRotate = 0
  ResUse = 0
  ResMtls = {}
  RResConn = 0
  RResReload = 0
  RResRotate = 0
  RResUse = 0
  RResMtls = {}
  Extra = {"rfca"}
INVARIANTS TypeOK Undisturbed Fresh Authenticated
CHECK_DEADLOCK FALSE
