//! Drivers that exercise the whole application (client + server of rusty-penguin).
