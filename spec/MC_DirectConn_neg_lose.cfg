\* C01: negative control: a network with the fault `lose` must violate Inv_Complete
SPECIFICATION Spec
CONSTANTS
  MaxW = 1
  Sizes = {0, 2}
  Fault = "lose"
  Proto = "tcp"
  Gen = FALSE
  MaxK = 1
INVARIANTS Inv_Complete
