---------------------------- MODULE ClientRetry ----------------------------
(***************************************************************************)
(* C19, part B: the reconnection loop of the client, written from the      *)
(* property text.                                                          *)
(*                                                                         *)
(*   After the tunnel connection is lost or cannot be established for a    *)
(*   retryable reason the client reconnects after min(200 ms x 2^k,        *)
(*   max_retry_interval) for the k-th consecutive failure, starts again    *)
(*   from the shortest delay after any successful connection, and gives up *)
(*   with MaxRetryCountReached once max_retry_count consecutive retries    *)
(*   have failed (never, if that is 0); a non-retryable error ends the     *)
(*   client at once.  Local listeners stay open throughout, and a local    *)
(*   connection accepted while the tunnel is down, or whose stream request *)
(*   timed out, is served by the next successful connection.               *)
(*                                                                         *)
(* One attempt meets one scripted server behaviour (a `step`):             *)
(*   refuse / rst   the TCP connection is closed (FIN / RST) before any    *)
(*                  HTTP: retryable                                        *)
(*   stall          TCP accepted, the upgrade request is never answered:   *)
(*                  the attempt ends after handshake_timeout, retryable    *)
(*   bad            the upgrade request is answered with a non-101         *)
(*                  response: not retryable (maybe_retryable.rs: an HTTP   *)
(*                  error of the WebSocket handshake is in no retryable    *)
(*                  class)                                                 *)
(*   mute           the WebSocket handshake completes, no frame is ever    *)
(*                  answered: a pending stream request ends the connection *)
(*                  after channel_timeout, retryable, request kept         *)
(*   close_orderly  handshake completes, streams are served, then the      *)
(*                  server ends the connection with a WebSocket Close      *)
(*   close_abrupt   ... then the server drops the TCP connection           *)
(*   drop_unserved  handshake completes, no frame is ever answered, and    *)
(*                  after d ms the server drops the TCP connection: a      *)
(*                  stream request that is IN FLIGHT when the connection   *)
(*                  is lost; retryable, request kept                       *)
(*   healthy        handshake completes and the connection stays (terminal)*)
(*   down           the server is gone for good: every further attempt is  *)
(*                  refused by the operating system (terminal; attempts    *)
(*                  are not observable)                                    *)
(* A step may also open a local connection (`open`) at its characteristic  *)
(* moment (see retry_sim.rs).                                              *)
(*                                                                         *)
(* OrderlyMode = "reconnect" is the property.  "pinned" describes finding  *)
(* orderly_close_no_reconnect: after an orderly close the client stays on  *)
(* the dead connection (phase "zombie") until a local connection arrives,  *)
(* whose stream request fails and starts the reconnection.                 *)
(***************************************************************************)
EXTENDS Integers, Sequences, FiniteSets, TLC

CONSTANT OrderlyMode        \* "reconnect" | "pinned"

BaseDelay == 200            \* ms, "200 ms x 2^k"

Min(a, b) == IF a <= b THEN a ELSE b
Max(a, b) == IF a >= b THEN a ELSE b

(* min(200 x 2^k, m) without leaving the range 0 .. max(200, m) *)
RECURSIVE DelayOf(_, _)
DelayOf(j, m) ==
  IF j = 0 THEN Min(BaseDelay, m)
  ELSE LET d == DelayOf(j - 1, m) IN IF d >= m THEN m ELSE Min(2 * d, m)

Refusals  == {"refuse", "rst", "stall", "down"}      \* the attempt fails, retryable
Connects  == {"mute", "close_orderly", "close_abrupt", "drop_unserved", "healthy"}   \* the handshake completes
Serving   == {"close_orderly", "close_abrupt", "healthy"}           \* ... and stream requests are answered
Terminal  == {"healthy", "down", "bad"}
Behs      == Refusals \cup Connects \cup {"bad"}

VARIABLES
  p,         \* parameters [mrc, mri, hs, ct]
  phase,     \* "connecting" | "trying" | "up" | "zombie" | "waiting" | "ended"
  k,         \* consecutive failures counted since the last successful connection
  delay,     \* the delay being waited (phase "waiting")
  acc,       \* delays waited since the last observable attempt (invisible attempts of `down` add up)
  att,       \* connection attempts made
  cur,       \* the step of the current attempt / connection
  result,    \* "none" | "MaxRetryCountReached" | "Fatal"
  srvDown,   \* the server is gone for good
  opened,    \* local connections opened so far (ids 1 .. opened)
  pending,   \* ids not served yet
  served,    \* ids served (bytes reached the target and came back)
  hist       \* one record per attempt: [beh, conn, delayAfter, gaveUp, waited]

cvars == <<p, phase, k, delay, acc, att, cur, result, srvDown, opened, pending, served, hist>>

NoStep == [beh |-> "none", d |-> 0, open |-> FALSE]

CInit(params) ==
  /\ p = params
  /\ phase = "connecting" /\ k = 0 /\ delay = 0 /\ acc = 0 /\ att = 0 /\ cur = NoStep
  /\ result = "none" /\ srvDown = FALSE /\ opened = 0 /\ pending = {} /\ served = {} /\ hist = <<>>

Running == phase # "ended"
ListenerUp == Running          \* "local listeners stay open throughout"

(* the failure of the current attempt / the loss of the current connection.  hist' gets the delay *)
Failure ==
  IF p.mrc # 0 /\ k >= p.mrc
  THEN /\ phase' = "ended" /\ result' = "MaxRetryCountReached"
       /\ UNCHANGED <<k, delay, acc>>
       /\ hist' = [hist EXCEPT ![Len(hist)].gaveUp = TRUE]
  ELSE /\ delay' = DelayOf(k, p.mri) /\ acc' = acc + DelayOf(k, p.mri) /\ k' = k + 1
       /\ phase' = "waiting" /\ result' = result
       /\ hist' = [hist EXCEPT ![Len(hist)].delayAfter = DelayOf(k, p.mri)]

(* a connection attempt begins and meets step s *)
Attempt(s) ==
  /\ phase = "connecting"
  /\ srvDown => s.beh = "down"
  /\ att' = att + 1 /\ cur' = s /\ phase' = "trying"
  /\ srvDown' = (srvDown \/ s.beh = "down")
  /\ acc' = IF s.beh = "down" THEN acc ELSE 0
  /\ hist' = Append(hist, [beh |-> s.beh, conn |-> FALSE, delayAfter |-> -1, gaveUp |-> FALSE, waited |-> delay])
  /\ UNCHANGED <<p, k, delay, result, opened, pending, served>>

(* the handshake completed: back-off starts again from the shortest delay; pending requests are served *)
Up ==
  /\ phase = "trying" /\ cur.beh \in Connects
  /\ phase' = "up" /\ k' = 0
  /\ hist' = [hist EXCEPT ![Len(hist)].conn = TRUE]
  /\ IF cur.beh \in Serving
     THEN served' = served \cup pending /\ pending' = {}
     ELSE UNCHANGED <<served, pending>>
  /\ UNCHANGED <<p, delay, acc, att, cur, result, srvDown, opened>>

(* the attempt failed for a retryable reason *)
FailTry ==
  /\ phase = "trying" /\ cur.beh \in Refusals
  /\ Failure
  /\ UNCHANGED <<p, att, cur, srvDown, opened, pending, served>>

(* the attempt failed for a non-retryable reason: the client ends at once *)
Fatal ==
  /\ phase = "trying" /\ cur.beh = "bad"
  /\ phase' = "ended" /\ result' = "Fatal"
  /\ UNCHANGED <<p, k, delay, acc, att, cur, srvDown, opened, pending, served, hist>>

(* the established connection is lost (server closes; or a stream request timed out on a mute server) *)
Lose ==
  /\ phase = "up" /\ cur.beh \in {"mute", "close_orderly", "close_abrupt", "drop_unserved"}
  /\ cur.beh = "mute" => pending # {}
  /\ IF OrderlyMode = "pinned" /\ cur.beh = "close_orderly"
     THEN phase' = "zombie" /\ UNCHANGED <<k, delay, acc, result, hist>>
     ELSE Failure
  /\ UNCHANGED <<p, att, cur, srvDown, opened, pending, served>>

(* pinned behaviour only: the server goes away for good while the client sits on the dead connection *)
DownUnnoticed(s) ==
  /\ phase = "zombie" /\ ~srvDown /\ s.beh = "down" /\ srvDown' = TRUE /\ cur' = s
  /\ UNCHANGED <<p, phase, k, delay, acc, att, result, opened, pending, served, hist>>

Wake ==
  /\ phase = "waiting" /\ phase' = "connecting"
  /\ UNCHANGED <<p, k, delay, acc, att, cur, result, srvDown, opened, pending, served, hist>>

(* a local connection is made to the listener *)
LocalOpen ==
  /\ ListenerUp
  /\ opened' = opened + 1
  /\ IF phase = "up" /\ cur.beh \in Serving
     THEN served' = served \cup {opened + 1} /\ pending' = pending
          /\ UNCHANGED <<phase, k, delay, acc, result, hist>>
     ELSE /\ pending' = pending \cup {opened + 1} /\ served' = served
          /\ IF phase = "zombie" THEN Failure ELSE UNCHANGED <<phase, k, delay, acc, result, hist>>
  /\ UNCHANGED <<p, att, cur, srvDown>>

(* ------------------------------------------------------------------ *)
(* Clauses of the property over the history                            *)
(* ------------------------------------------------------------------ *)
(* index of the failure of attempt i among the consecutive failures since the last successful connection *)
RECURSIVE CIdx(_, _)
CIdx(h, i) == IF h[i].conn THEN 0 ELSE IF i = 1 THEN 0 ELSE CIdx(h, i - 1) + 1

DelaySequence ==
  \A i \in 1 .. Len(hist) : hist[i].delayAfter # -1 =>
      hist[i].delayAfter = Min(BaseDelay * (2 ^ CIdx(hist, i)), p.mri)
WaitedIsPrescribed ==
  \A i \in 2 .. Len(hist) : hist[i].waited = hist[i - 1].delayAfter
ResetAfterSuccess ==
  \A i \in 1 .. Len(hist) : (hist[i].conn /\ hist[i].delayAfter # -1) => hist[i].delayAfter = Min(BaseDelay, p.mri)
GiveUpExactly ==
  /\ p.mrc = 0 => result # "MaxRetryCountReached"
  /\ \A i \in 1 .. Len(hist) : hist[i].gaveUp <=> (result = "MaxRetryCountReached" /\ i = Len(hist))
  /\ result = "MaxRetryCountReached" => p.mrc # 0 /\ CIdx(hist, Len(hist)) = p.mrc
  /\ p.mrc # 0 => \A i \in 1 .. Len(hist) :
        /\ CIdx(hist, i) <= p.mrc
        /\ CIdx(hist, i) = p.mrc => (i = Len(hist) /\ hist[i].delayAfter = -1)
NonRetryableEndsAtOnce ==
  \A i \in 1 .. Len(hist) : hist[i].beh = "bad" =>
      (i = Len(hist) /\ hist[i].delayAfter = -1 /\ (phase = "ended" => result = "Fatal") /\ phase \in {"trying", "ended"})
ListenerAlive == (result = "none") => ListenerUp
NoLostRequest ==
  /\ pending \cap served = {} /\ pending \cup served = 1 .. opened
  /\ (phase = "up" /\ cur.beh \in Serving) => pending = {}

TypeOK ==
  /\ phase \in {"connecting", "trying", "up", "zombie", "waiting", "ended"}
  /\ k \in Nat /\ att = Len(hist) /\ result \in {"none", "MaxRetryCountReached", "Fatal"}
  /\ (phase = "ended") <=> (result # "none")
  /\ phase = "zombie" => OrderlyMode = "pinned"

(* ------------------------------------------------------------------ *)
(* Observable timing (used by RetryTrace.tla and printed with scripts) *)
(* ------------------------------------------------------------------ *)
Gran == 5            \* clock granularity / rounding allowance of an exact lower bound
AcceptSlack == 250   \* a stalled handshake is timed by the client from a moment shortly BEFORE the server can observe the connection
Late == 1500         \* generous allowance for a loaded machine
(* time the step itself takes from its observable base event until the client notices the failure *)
Own(beh, params) == IF beh = "stall" THEN params.hs ELSE IF beh = "mute" THEN params.ct ELSE 0
Slack(beh) == IF beh = "stall" THEN AcceptSlack ELSE Gran
GapMin(beh, params, waitSum) == Own(beh, params) + waitSum - Slack(beh)
GapMax(beh, params, waitSum) == Own(beh, params) + waitSum + params.hs + Late
=============================================================================
