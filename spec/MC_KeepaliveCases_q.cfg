SPECIFICATION Spec
CONSTANTS
  Is = {0, 1, 2, 3}
  Ts = {0, 1, 2, 3, 4, 5, 6}
  Ds = {0, 1, 2, 3, 4}
  MaxN = 2
  Hz = 16
INVARIANT Emit
CHECK_DEADLOCK FALSE
