SPECIFICATION TSpec
CONSTRAINT Track
POSTCONDITION Accepted
CHECK_DEADLOCK FALSE
