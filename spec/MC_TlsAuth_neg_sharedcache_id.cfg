\* C17 negative control: "sharedcache", without mutual TLS (duplex scripts of returning clients): a client that holds a ticket
\* from before the reload resumes and keeps seeing the replaced server certificate; TLC must find Fresh violated
SPECIFICATION Spec
CONSTANTS
  Mode = "sharedcache"
  MaxConn = 2
  MaxReload = 2
  MaxUse = 2
  Mtls = {}
  RMaxConn = 2
  RMaxReload = 1
  RMaxUse = 1
  RealMtls = {}
  RotConn = 2
  RotReload = 1
  RotRotate = 1
  RotUse = 1
  RRotConn = 2
  RRotReload = 1
  RRotRotate = 1
  RRotUse = 1
  CliConn = 2
  CliRotate = 1
  FConn = 2
  FReload = 1
  FBotch = 1
  FUse = 1
  FailMtls = {}
  ResConn = 2
  ResReload = 1
  ResRotate = 1
  ResUse = 1
  ResMtls = {FALSE}
  RResConn = 2
  RResReload = 1
  RResRotate = 1
  RResUse = 1
  RResMtls = {FALSE}
  Extra = {"res"}
INVARIANTS TypeOK Undisturbed ConfigKept CAFollows Authenticated Fresh
CHECK_DEADLOCK FALSE
