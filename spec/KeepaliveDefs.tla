---------------------------- MODULE KeepaliveDefs ----------------------------
(* The clauses of C16 over a history (send times, arrival times, Pongs received, exit time), shared
   by the design model (Keepalive.tla) and the trace specification (KeepaliveTrace.tla).          *)
EXTENDS Integers, Sequences, FiniteSets, TLC

Never == -1

(* what the options API must produce: timeout >= interval whenever both are set *)
Clamp(i, t) == IF t = 0 THEN 0 ELSE IF i = 0 THEN t ELSE IF t < i THEN i ELSE t

(* ------------------------------------------------------------------ *)
(* The clauses of C16 over a history (shared with the trace spec)       *)
(* ------------------------------------------------------------------ *)
(* a Ping is sent every I: the k-th Ping is sent at (k-1)*I *)
PingEveryI(i, s) == \A k \in 1 .. Len(s) : s[k] = (k - 1) * i
(* no Ping when disabled *)
DisabledSilent(i, s, ex) == i = 0 => Len(s) = 0 /\ ex = Never
(* detection window: exit no earlier than T and no later than T + I after the last Pong (or start) *)
ExitNotEarly(t, lp, ex) == ex # Never => t > 0 /\ ex - lp >= t
NoLateExit(i, t, lp, ex, n) == (ex = Never /\ i > 0 /\ t > 0) => n - lp <= t + i
(* no false timeout: at the moment of the exit some Ping is already known to be late, i.e. its
   deadline s + T has been reached and its Pong has not been received (g = number of Pongs received
   before the exit; events of one instant may be processed in either order)                     *)
LateAt(t, s, a, g, k, at) == s[k] + t <= at /\ (k > g \/ a[k] = Never \/ a[k] > s[k] + t)
NoFalseTimeout(t, s, a, g, ex) == ex # Never => \E k \in 1 .. Len(s) : LateAt(t, s, a, g, k, ex)
(* Finding F12: the detector compares "time since the last Pong" with T at every tick.  After a
   promptly answered Ping (Pong at s) the next Ping (sent at s + I) has until s + I + T, but every tick
   strictly between s + T and s + I + T already sees more than T since the last Pong.  Such a tick
   exists exactly when T is not a multiple of I, so in those configurations an endpoint whose every
   Ping would still be answered within T can be timed out.                                        *)
F12Region(i, t) == i > 0 /\ t > 0 /\ t % i # 0
=============================================================================
