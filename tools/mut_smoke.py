#!/usr/bin/env python3
"""Development tool (used by the mutation sweep through tools/ns_eval.py --run): a broad, attribution-free smoke run of the
multiplexor simulator against whatever /repo holds: random schedules of every mode, validated by TLC against MuxTrace.
Prints `SMOKE traces=<n> rejected=<k> first=<signature>`; exit 0 if nothing was rejected, 1 otherwise, 2 on tool errors."""
import json, os, sys, tempfile, shutil
sys.path.insert(0, os.path.dirname(os.path.abspath(__file__)))
import vlib, families
seed = int(os.environ.get("VERIF_SEED", "1"))
n = int(sys.argv[1]) if len(sys.argv) > 1 else 40
try:
    bin_path = os.path.join(vlib.build_harness(["mux_sim"]), "mux_sim")
    work = tempfile.mkdtemp(prefix="smoke_", dir=vlib.WORK)
    allp = os.path.join(work, "batch.ndjson")
    with open(allp, "w") as out:
        for mode, steps in (("pair", 60), ("all", 80), ("close", 60), ("open", 60), ("fault", 60), ("adv", 60), ("dgram", 50), ("bind", 50), ("bridge", 50), ("ka", 60), ("fair", 60)):
            p = os.path.join(work, mode + ".ndjson")
            rc, o = vlib.run([bin_path, "random", mode, str(seed * 7 + 1), str(n), str(steps), p], timeout=1200)
            if rc not in (0, 3):
                print("SMOKE tool-error mux_sim", mode, o[-300:]); sys.exit(2)
            out.write(open(p).read())
    r = vlib.validate_batch("MuxTrace", "MuxTrace", allp, timeout=3000, max_failures=5)
    first = ""
    if r["failures"]:
        f = r["failures"][0]
        first = json.dumps({k: str(f.get(k))[:200] for k in ("invariant", "unmatched", "line_in_trace") if k in f}) if isinstance(f, dict) else str(f)[:400]
    print(f"SMOKE traces={r['traces']} rejected={len(r['failures'])} first={first}")
    shutil.rmtree(work, ignore_errors=True)
    sys.exit(1 if r["failures"] else 0)
except vlib.ToolError as e:
    print("SMOKE tool-error", e); sys.exit(2)
