SPECIFICATION Spec
CONSTANTS
  AckMode = "shaped"
  ThrMode = "fixed"
  EmptyMode = "fixed"
  RstMode = "fixed"
  CfgSet <- LiveCfgsQ
  Extra = 1
  BothWays = FALSE
  Stalled = TRUE
  Dgrams = 2
INVARIANT NoViolation
PROPERTY Progress
