//! C16 driver: the real connection task on tokio's paused clock against a transport that stays
//! silent unless the scripted responder answers.
//!
//!   keepalive_sim cases <cases.json> <out.ndjson>
//!       cases = [{"I": secs, "T": secs, "order": "it"|"ti", "delays": [d | -1, ...], "horizon": secs}, ...]
//!       (0 = disabled; "it" = keepalive_interval() then keepalive_timeout(), "ti" = the other order;
//!        delays[k] = delay of the Pong answering the k-th Ping, -1 = never, missing = never)
//!        optional "chatter": n > 0 = every n seconds the peer sends a message that is NOT a Pong (alternately its own
//!        Ping and a Reset frame for an unknown flow): only Pongs are signs of life, so nothing may change
//!   keepalive_sim random <seed> <count> <out.ndjson>
//!
//! Output: per case a `case` line, then `ping` / `pong` / `exit` lines stamped with virtual time and an
//! `end` line; validated by spec/KeepaliveTrace.tla.

use penguin_mux::config::Options;
use penguin_mux::timing::{OptionalDuration, TimestampProvider};
use penguin_mux::ws::{Message, WebSocket};
use penguin_mux::Multiplexor;
use rand::rngs::SmallRng;
use rand::{RngExt, SeedableRng};
use bytes::Bytes;
use serde_json::{Value, json};
use std::collections::VecDeque;
use std::io::Write;
use std::sync::{Arc, Mutex};
use std::task::{Context, Poll, Waker};
use std::time::Duration;

#[derive(Copy, Clone, Debug)]
struct VClock(tokio::time::Instant);
impl TimestampProvider for VClock {
    fn now() -> Self {
        VClock(tokio::time::Instant::now())
    }
    fn duration_since(&self, earlier: Self) -> Duration {
        self.0.duration_since(earlier.0)
    }
}

#[derive(Default)]
struct Shared {
    sent: Vec<(u128, String)>,
    inbox: VecDeque<Message>,
    waker: Option<Waker>,
    start: Option<tokio::time::Instant>,
}
struct KaWs(Arc<Mutex<Shared>>);
impl KaWs {
    fn now_ms(s: &Shared) -> u128 {
        s.start.map_or(0, |st| tokio::time::Instant::now().duration_since(st).as_millis())
    }
}
impl WebSocket for KaWs {
    fn poll_ready_unpin(&mut self, _cx: &mut Context<'_>) -> Poll<Result<(), penguin_mux::Error>> {
        Poll::Ready(Ok(()))
    }
    fn start_send_unpin(&mut self, item: Message) -> Result<(), penguin_mux::Error> {
        let mut s = self.0.lock().unwrap();
        let t = Self::now_ms(&s);
        let kind = match item {
            Message::Ping => "ping",
            Message::Pong => "pongsent",
            Message::Close => "close",
            Message::Binary(_) => "binary",
        };
        s.sent.push((t, kind.to_string()));
        Ok(())
    }
    fn poll_flush_unpin(&mut self, _cx: &mut Context<'_>) -> Poll<Result<(), penguin_mux::Error>> {
        Poll::Ready(Ok(()))
    }
    fn poll_close_unpin(&mut self, _cx: &mut Context<'_>) -> Poll<Result<(), penguin_mux::Error>> {
        let mut s = self.0.lock().unwrap();
        let t = Self::now_ms(&s);
        s.sent.push((t, "close".to_string()));
        Poll::Ready(Ok(()))
    }
    fn poll_next_unpin(&mut self, cx: &mut Context<'_>) -> Poll<Option<Result<Message, penguin_mux::Error>>> {
        let mut s = self.0.lock().unwrap();
        if let Some(m) = s.inbox.pop_front() {
            return Poll::Ready(Some(Ok(m)));
        }
        // a silent transport: never ends, never fails
        s.waker = Some(cx.waker().clone());
        Poll::Pending
    }
}

fn dur(secs: u64) -> OptionalDuration {
    // the values reach the options the way the applications' command lines deliver them: as decimal seconds through
    // `FromStr` ("0" = never); even values take that road, odd ones `From<Duration>` -- both must mean the same
    if secs % 2 == 0 {
        return secs.to_string().parse::<OptionalDuration>().expect("decimal seconds parse");
    }
    OptionalDuration::from(Duration::from_secs(secs))
}

async fn settle() {
    for _ in 0..8 {
        tokio::task::yield_now().await;
    }
}

async fn run_case(case: &Value, out: &mut Vec<Value>) {
    let i = case["I"].as_u64().unwrap_or(0);
    let t = case["T"].as_u64().unwrap_or(0);
    let order = case["order"].as_str().unwrap_or("it");
    let horizon = case["horizon"].as_u64().unwrap_or(12);
    let delays: Vec<i64> = case["delays"].as_array().map(|a| a.iter().map(|x| x.as_i64().unwrap_or(-1)).collect()).unwrap_or_default();
    let chatter = case["chatter"].as_u64().unwrap_or(0);
    out.push(json!({"ev": "case", "I": i, "T": t, "order": order, "delays": delays, "horizon": horizon, "chatter": chatter}));
    let options = if order == "ti" {
        Options::new().keepalive_timeout(dur(t)).keepalive_interval(dur(i))
    } else {
        Options::new().keepalive_interval(dur(i)).keepalive_timeout(dur(t))
    };
    let shared = Arc::new(Mutex::new(Shared::default()));
    shared.lock().unwrap().start = Some(tokio::time::Instant::now());
    let start = tokio::time::Instant::now();
    let (mux, td) = Multiplexor::new_detailed::<_, VClock>(
        KaWs(shared.clone()),
        options,
        SmallRng::seed_from_u64(7),
    );
    let handle = tokio::spawn(td.into_task());
    // a pending application call: it must fail once the keepalive expires (C08 meets C16)
    let mux = Arc::new(mux);
    let m2 = mux.clone();
    let pending_call = tokio::spawn(async move { m2.get_datagram().await.map(|_| ()) });
    let mut seen_sent = 0usize;
    let mut pings: Vec<u128> = Vec::new();
    let mut due: VecDeque<(u128, usize)> = VecDeque::new(); // (arrival ms, ping index), FIFO
    let mut exited = false;
    let mut call_done = false;
    let now_ms = |st: tokio::time::Instant| tokio::time::Instant::now().duration_since(st).as_millis();
    let mut sec = 0u64;
    loop {
        // let everything that is runnable at this instant run, interleaving Pong deliveries
        for _round in 0..6 {
            settle().await;
            {
                let s = shared.lock().unwrap();
                while seen_sent < s.sent.len() {
                    let (tm, kind) = s.sent[seen_sent].clone();
                    seen_sent += 1;
                    if kind == "ping" {
                        let k = pings.len();
                        pings.push(tm);
                        out.push(json!({"ev": "ping", "t": tm / 1000, "frac": tm % 1000, "k": k + 1}));
                        let d = delays.get(k).copied().unwrap_or(-1);
                        if d >= 0 && due.back().map_or(true, |_| true) {
                            let mut arr = tm + (d as u128) * 1000;
                            if let Some((prev, _)) = due.back() {
                                arr = arr.max(*prev);
                            }
                            due.push_back((arr, k));
                        } else if d < 0 {
                            // a Pong that never comes blocks all later ones (FIFO link)
                            due.push_back((u128::MAX, k));
                        }
                    } else if kind == "close" {
                        out.push(json!({"ev": "closesent", "t": tm / 1000, "frac": tm % 1000}));
                    }
                }
            }
            let t_now = now_ms(start);
            let mut delivered = false;
            while let Some((arr, k)) = due.front().copied() {
                if arr <= t_now && !exited {
                    due.pop_front();
                    let mut s = shared.lock().unwrap();
                    s.inbox.push_back(Message::Pong);
                    if let Some(w) = s.waker.take() {
                        w.wake();
                    }
                    drop(s);
                    out.push(json!({"ev": "pong", "t": t_now / 1000, "frac": t_now % 1000, "k": k + 1}));
                    delivered = true;
                } else {
                    break;
                }
            }
            if !exited && handle.is_finished() {
                exited = true;
            }
            if !delivered {
                break;
            }
        }
        if exited {
            break;
        }
        if sec >= horizon {
            break;
        }
        tokio::time::sleep(Duration::from_secs(1)).await;
        sec += 1;
        if chatter > 0 && sec % chatter == 0 && !handle.is_finished() {
            // traffic from the peer that is not a Pong
            let kind = if (sec / chatter) % 2 == 0 { "ping" } else { "reset" };
            let msg = if kind == "ping" { Message::Ping } else { Message::Binary(Bytes::from_static(&[0x72, 0, 0, 0, 99])) };
            let mut s = shared.lock().unwrap();
            s.inbox.push_back(msg);
            if let Some(w) = s.waker.take() {
                w.wake();
            }
            drop(s);
            let t_now = now_ms(start);
            out.push(json!({"ev": "chatter", "t": t_now / 1000, "frac": t_now % 1000, "kind": kind}));
        }
    }
    settle().await;
    if handle.is_finished() {
        let res = match handle.await {
            Ok(Ok(())) => "ok".to_string(),
            Ok(Err(penguin_mux::Error::KeepaliveTimeout)) => "keepalive".to_string(),
            Ok(Err(e)) => format!("err:{e}"),
            Err(e) => format!("panic:{e}"),
        };
        settle().await;
        if pending_call.is_finished() {
            call_done = true;
        }
        out.push(json!({"ev": "exit", "t": now_ms(start) / 1000, "frac": now_ms(start) % 1000, "res": res, "pending_call_resolved": call_done}));
    } else {
        handle.abort();
    }
    pending_call.abort();
    out.push(json!({"ev": "end", "t": now_ms(start) / 1000, "frac": now_ms(start) % 1000, "pings": pings.len()}));
    drop(mux);
}

fn pick_chatter(rng: &mut SmallRng) -> u64 {
    // half of the random cases have non-Pong traffic from the peer every 1..3 seconds
    if rng.random_range(0..2) == 0 { 0 } else { rng.random_range(1..=3) }
}

fn main() {
    let args: Vec<String> = std::env::args().collect();
    std::panic::set_hook(Box::new(|_| {}));
    let cases: Vec<Value> = match args.get(1).map(String::as_str) {
        Some("cases") => serde_json::from_str(&std::fs::read_to_string(&args[2]).unwrap()).unwrap(),
        Some("random") => {
            let seed: u64 = args[2].parse().unwrap();
            let count: usize = args[3].parse().unwrap();
            let mut rng = SmallRng::seed_from_u64(seed);
            (0..count)
                .map(|_| {
                    let i = rng.random_range(0..=4u64);
                    let t = rng.random_range(0..=7u64);
                    let n = rng.random_range(0..=8usize);
                    let silent_from = rng.random_range(0..=n);
                    let delays: Vec<i64> = (0..n)
                        .map(|k| if k >= silent_from { -1 } else { rng.random_range(0..=(t.max(i) as i64 + 1)) })
                        .collect();
                    json!({"I": i, "T": t, "order": if rng.random_range(0..4) == 0 { "ti" } else { "it" }, "delays": delays, "horizon": 30, "chatter": pick_chatter(&mut rng)})
                })
                .collect()
        }
        _ => {
            eprintln!("usage: keepalive_sim cases <cases.json> <out> | random <seed> <count> <out>");
            std::process::exit(2);
        }
    };
    let out_path = args.last().unwrap().clone();
    let mut f = std::io::BufWriter::new(std::fs::File::create(out_path).unwrap());
    for case in &cases {
        let rt = tokio::runtime::Builder::new_current_thread().enable_time().start_paused(true).build().unwrap();
        let mut out = Vec::new();
        rt.block_on(run_case(case, &mut out));
        for ev in out {
            writeln!(f, "{ev}").unwrap();
        }
    }
}
