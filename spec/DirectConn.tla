----------------------------- MODULE DirectConn -----------------------------
(***************************************************************************)
(* The ORACLE of property C01: what a local client and a target observe    *)
(* when they talk over a DIRECT connection, written from the text of the   *)
(* property (and from what TCP / UDP / RFC 1928 section 7 promise), not    *)
(* from the tunnel.  Pure operators only (no variables): MC_DirectConn.tla *)
(* drives them with an ideal network and with broken ones, TunnelTrace.tla *)
(* with the per-endpoint logs of the real tunnel.                          *)
(*                                                                         *)
(* TCP.  A connection has two endpoints, "c" (the local client) and "t"    *)
(* (the target), and two directions, each a FIFO pipe of octets.  Octets   *)
(* are position coded by the harness, so content is a function of the      *)
(* offset: a pipe is described by two counters, octets sent and octets     *)
(* received, and a received range [a,b) says "the octets at offsets a..b-1 *)
(* arrived and carry the code of their offsets".                           *)
(*                                                                         *)
(* Events of endpoint x (y is the other endpoint):                         *)
(*   hs(ok) / accepted / refused   the connection came into being (or the  *)
(*                                 target refused it)                       *)
(*   send(n)      x is about to write n octets              (cause)        *)
(*   hc           x is about to shut down its sending side  (cause)        *)
(*   close        x is about to close the socket            (cause)        *)
(*   recv(a,b)    x read the correctly coded octets [a,b)   (observation)  *)
(*   bad / extra  x read an octet that does not carry its code             *)
(*   eof          x read end-of-stream                      (observation)  *)
(*   reset        a read or write of x failed               (observation)  *)
(*   timeout(what) what = "eof": y finished (hc / close / refusal) at least*)
(*                the deadline ago and x still saw neither eof nor reset;   *)
(*                "write": a write made no progress; "accept": the target  *)
(*                was never connected to; "delivery": everything x had     *)
(*                sent was not received by y within the deadline although  *)
(*                y's reader was running all the time                      *)
(*   ron          x starts reading (an endpoint may begin with its reader  *)
(*                held: it then reads nothing, so the direction towards it *)
(*                fills up and the peer's writes block - back-pressure)    *)
(*                                                                         *)
(* `abort`: from this point on completeness is no longer promised, because *)
(* a direct connection would not promise it either: an endpoint closed     *)
(* while octets for it were unread or still to come (TCP answers those     *)
(* with a reset, which may destroy octets in flight in both directions),   *)
(* an endpoint saw a reset, or the target refused.                         *)
(*                                                                         *)
(* The four monitors of the property (names used in diagnoses):            *)
(*   Prefix            what x received is at all times a prefix of what y  *)
(*                     sent: ranges are contiguous from 0, in order, never *)
(*                     beyond what was sent, every octet carries its code  *)
(*   Complete          when x sees the end of the stream and nobody        *)
(*                     aborted, x has received everything y sent; the same *)
(*                     at the end of the connection for both directions    *)
(*   HalfClose         an end-of-stream appears only after y finished, a   *)
(*                     reset only after y closed (or refused): finishing   *)
(*                     one direction must not end the other one; and a     *)
(*                     half-close does arrive (no timeout)                 *)
(*   ClosedNotHanging  after y closed or refused, x sees eof or a reset    *)
(*                     within the deadline (no timeout) - nothing more     *)
(*   Independent       the two directions are independent pipes: what x    *)
(*                     sends reaches a reading y although the opposite     *)
(*                     direction is blocked (y's own writes are stuck      *)
(*                     because x does not read).  A direct connection      *)
(*                     delivers at once; the harness allows the deadline.  *)
(* Not a monitor of the property, but named so that it can be reported:    *)
(*   StalledAfterClose a write of x blocks for good after y closed (x did  *)
(*                     see its eof / reset; a direct connection would fail *)
(*                     the write).  Tolerated unless the trace             *)
(*                     specification is told otherwise.                    *)
(***************************************************************************)
EXTENDS Socks, TLC

Sides == {"c", "t"}
Other(x) == IF x = "c" THEN "t" ELSE "c"
Both(v) == [x \in Sides |-> v]

TcpInit == [sent |-> Both(0), rcvd |-> Both(0), hc |-> Both(FALSE), closed |-> Both(FALSE),
            eof |-> Both(FALSE), rst |-> Both(FALSE), est |-> Both(FALSE), reading |-> Both(TRUE),
            refused |-> FALSE, abort |-> FALSE]
\* the same with the readers of the endpoints in `held` not yet started
TcpInitHeld(held) == [TcpInit EXCEPT !.reading = [x \in Sides |-> x \notin held]]

Monitors == {"Prefix", "Complete", "HalfClose", "ClosedNotHanging", "Independent"}

\* the monitors that event e of endpoint x violates in state s ("Connect", "Script": the connection was not
\* established although nothing refused it / the script itself is malformed)
Failing(s, x, e) ==
  LET y    == Other(x)
      fin  == s.hc[y] \/ s.closed[y] \/ s.refused
      gone == s.closed[y] \/ s.refused
  IN  (IF e.ev = "recv" /\ ~(e.a = s.rcvd[x] /\ e.a <= e.b /\ e.b <= s.sent[y]) THEN {"Prefix"} ELSE {})
 \cup (IF e.ev \in {"bad", "extra"} THEN {"Prefix"} ELSE {})
 \cup (IF e.ev \in {"eof", "reset"} /\ ~s.abort /\ s.rcvd[x] # s.sent[y] THEN {"Complete"} ELSE {})
      \* a write that makes no progress: while nobody aborted the octets are owed to a reader that is there; after an
      \* abort the property promises nothing about writes (a direct connection would fail them), see StalledAfterClose
 \cup (IF e.ev = "timeout" /\ e.what = "write" THEN (IF s.abort THEN {"StalledAfterClose"} ELSE {"Complete"}) ELSE {})
 \cup (IF e.ev = "eof" /\ ~(fin \/ s.abort) THEN {"HalfClose"} ELSE {})
 \cup (IF e.ev = "reset" /\ ~(gone \/ s.abort) THEN {"HalfClose"} ELSE {})
 \cup (IF e.ev = "timeout" /\ e.what = "eof" /\ ~gone THEN {"HalfClose"} ELSE {})
 \cup (IF e.ev = "timeout" /\ e.what = "eof" /\ gone THEN {"ClosedNotHanging"} ELSE {})
      \* what x sent did not arrive at a reading y within the deadline: only an abort excuses that.  (Like the other
      \* timeouts this is a statement of the harness about BOTH endpoints, made on its own clock: it holds wherever
      \* the event is placed among y's events, in particular before the `recv` by which y gets the octets later on.)
 \cup (IF e.ev = "timeout" /\ e.what = "delivery" /\ ~s.abort THEN {"Independent"} ELSE {})
      \* (a script that waits for delivery to a peer whose reader is held is malformed: the harness says so itself)
 \cup (IF e.ev = "timeout" /\ e.what = "delivery" /\ ~e.peer_reading THEN {"Script"} ELSE {})
 \cup (IF e.ev = "timeout" /\ e.what = "accept" THEN {"Connect"} ELSE {})
 \cup (IF e.ev = "hs" /\ ~e.ok /\ ~s.refused THEN {"Connect"} ELSE {})
 \cup (IF e.ev \in {"send", "hc"} /\ (s.hc[x] \/ s.closed[x]) THEN {"Script"} ELSE {})
 \cup (IF e.ev \in {"close", "recv", "eof", "reset"} /\ s.closed[x] THEN {"Script"} ELSE {})
      \* a held reader reads nothing
 \cup (IF e.ev \in {"recv", "bad", "extra", "eof"} /\ ~s.reading[x] THEN {"Script"} ELSE {})
 \cup (IF e.ev = "ron" /\ (s.reading[x] \/ s.closed[x]) THEN {"Script"} ELSE {})
 \cup (IF e.ev \notin {"hs", "accepted", "refused", "send", "hc", "close", "recv", "bad", "extra", "eof",
                       "reset", "timeout", "ron"} THEN {"Script"} ELSE {})

Step(s, x, e) ==
  LET y == Other(x) IN
  CASE e.ev = "send"    -> [s EXCEPT !.sent[x] = @ + e.n,
                                     \* octets for a closed socket are answered by a reset
                                     !.abort = @ \/ (e.n > 0 /\ s.closed[y])]
    [] e.ev = "hc"      -> [s EXCEPT !.hc[x] = TRUE]
                           \* closing with octets unread or still to come: a reset instead of an orderly release
    [] e.ev = "close"   -> [s EXCEPT !.closed[x] = TRUE, !.abort = @ \/ (s.rcvd[x] < s.sent[y])]
    [] e.ev = "recv"    -> [s EXCEPT !.rcvd[x] = e.b]
    [] e.ev = "eof"     -> [s EXCEPT !.eof[x] = TRUE]
    [] e.ev = "reset"   -> [s EXCEPT !.rst[x] = TRUE, !.abort = TRUE]
    [] e.ev = "refused" -> [s EXCEPT !.refused = TRUE, !.abort = TRUE]
    [] e.ev \in {"hs", "accepted"} -> [s EXCEPT !.est[x] = TRUE]
    [] e.ev = "ron"     -> [s EXCEPT !.reading[x] = TRUE]
    [] OTHER            -> s

\* the end of the connection (both endpoints have nothing more to report)
EndFailing(s) ==
  IF ~s.abort /\ ~(s.rcvd["c"] = s.sent["t"] /\ s.rcvd["t"] = s.sent["c"]) THEN {"Complete"} ELSE {}

(***************************************************************************)
(* UDP.  No connection, hence no state machine: a RELATION over the four   *)
(* per-endpoint histories of one exchange.                                 *)
(*   sent    datagrams of the local clients  [k, j, n, dg, to, tgt]        *)
(*           (client, number, length, digest of the payload, the address   *)
(*           the client sent to = the relay, the target it is addressed    *)
(*           to: a UDP remote has one target, a SOCKS5 association names   *)
(*           the target in the header of every datagram)                   *)
(*   trecv   datagrams a target received     [r, src, n, dg, tgt]          *)
(*           (tgt = the target that received it)                           *)
(*   treply  replies a target sent           [r, to, n, dg, tgt] (to = src)*)
(*   crecv   datagrams the clients received  [k, from, n, head, sfx]       *)
(*           head = the first octets, sfx[i+1] = digest of the octets from *)
(*           offset i on: the payload behind a header of i octets is       *)
(*           [n - i, sfx[i+1]] whatever i turns out to be                   *)
(*   mode    "udp" (a UDP remote) or "socks5" (a UDP association)          *)
(*   tgts    [addr, port] of the targets (tgt above is an index into it)   *)
(* Payloads are compared as (length, digest).  The relation:               *)
(*   U1  the datagrams the targets received are, as a bag, the datagrams   *)
(*       the clients sent (unmodified, none lost, none duplicated), each   *)
(*       at the target it was addressed to - also when one client (one     *)
(*       association, one local socket) talks to several targets in turn   *)
(*   U2  a source address seen by the target belongs to the client whose   *)
(*       datagram arrived from it; every reply sent to a source is         *)
(*       delivered to exactly that client (bag equality per client),       *)
(*       unmodified                                                         *)
(*   U3  a client receives replies from the address it sent to             *)
(*   U4  SOCKS5: what a client receives parses with ParseUdp (RFC 1928     *)
(*       section 7, Socks.tla); the payload is what follows the header     *)
(***************************************************************************)
Pay(e) == <<e.n, e.dg>>
APay(e) == <<e.n, e.dg, e.tgt>>          \* a datagram together with the target it is addressed to / arrived at
Idx(q) == 1 .. Len(q)
Count(q, P(_)) == Cardinality({i \in Idx(q) : P(q[i])})

\* the payload a conforming client recovers from a received datagram; <<-1, "">> if it cannot
Parsed(h, cr) == ParseUdp(cr.head)
HeaderOK(h, cr) == h.mode = "socks5" => Parsed(h, cr).st = "ok"
Recovered(h, cr) ==
  IF h.mode # "socks5" THEN <<cr.n, cr.sfx[1]>>
  ELSE LET p == Parsed(h, cr) IN
       IF p.st = "ok" THEN <<cr.n - p.consumed, cr.sfx[p.consumed + 1]>> ELSE <<-1, "">>
\* does the header name the target?  (RFC 1928 does not say what the fields of a relayed reply contain; the
\* property demands a well-formed header and the payload; reported as a note, a violation only on request)
HeaderNamesTarget(h, cr) ==
  LET p == Parsed(h, cr) IN p.st = "ok" /\ \E t \in Idx(h.tgts) : p.addr = h.tgts[t].addr /\ p.port = h.tgts[t].port

\* the clients a source address of the target's view belongs to: those with a datagram, sent by nobody else,
\* that arrived from it
UniqueTo(h, e) == \A i \in Idx(h.sent) : Pay(h.sent[i]) = Pay(e) => h.sent[i].k = e.k
Owner(h, src) ==
  {h.sent[i].k : i \in {i \in Idx(h.sent) : /\ UniqueTo(h, h.sent[i])
                                            /\ \E m \in Idx(h.trecv) : /\ h.trecv[m].src = src
                                                                       /\ Pay(h.trecv[m]) = Pay(h.sent[i])}}
Clients(h) == {h.sent[i].k : i \in Idx(h.sent)} \cup {h.crecv[i].k : i \in Idx(h.crecv)}
Dest(h, k) == {h.sent[i].to : i \in {i \in Idx(h.sent) : h.sent[i].k = k}}

UdpFailing(h, strictAddr) ==
  LET sentPays  == {APay(h.sent[i]) : i \in Idx(h.sent)}
      trecvPays == {APay(h.trecv[i]) : i \in Idx(h.trecv)}
      \* a datagram that only one client sent, and only to one target, arrived at another target
      misrouted == \E m \in Idx(h.trecv) : \E i \in Idx(h.sent) :
                      /\ Pay(h.trecv[m]) = Pay(h.sent[i]) /\ h.trecv[m].tgt # h.sent[i].tgt
                      /\ \A j \in Idx(h.sent) : Pay(h.sent[j]) = Pay(h.sent[i]) => h.sent[j].tgt = h.sent[i].tgt
      replyPays == {Pay(h.treply[i]) : i \in Idx(h.treply)}
      okRecv    == {i \in Idx(h.crecv) : HeaderOK(h, h.crecv[i])}
      NSent(v)  == Count(h.sent, LAMBDA e : APay(e) = v)
      NTrecv(v) == Count(h.trecv, LAMBDA e : APay(e) = v)
      \* replies with payload v owed to client k / received by client k
      Owed(k, v) == Count(h.treply, LAMBDA e : Pay(e) = v /\ Owner(h, e.to) = {k})
      Got(k, v)  == Cardinality({i \in okRecv : h.crecv[i].k = k /\ Recovered(h, h.crecv[i]) = v})
      Unowned(v) == Count(h.treply, LAMBDA e : Pay(e) = v /\ Cardinality(Owner(h, e.to)) # 1)
      GotAll(v)  == Cardinality({i \in okRecv : Recovered(h, h.crecv[i]) = v})
      OwedAll(v) == Count(h.treply, LAMBDA e : Pay(e) = v)
      base ==
          (IF misrouted THEN {"udp_datagram_wrong_target"} ELSE {})
     \cup (IF ~misrouted /\ \E v \in trecvPays : v \notin sentPays THEN {"udp_datagram_modified"} ELSE {})
     \cup (IF \E v \in sentPays : NTrecv(v) > NSent(v) THEN {"udp_datagram_duplicated"} ELSE {})
     \cup (IF \E v \in sentPays : NTrecv(v) < NSent(v) THEN {"udp_datagram_lost"} ELSE {})
     \cup (IF \E i \in Idx(h.crecv) : ~HeaderOK(h, h.crecv[i]) THEN {"socks5_udp_header"} ELSE {})
     \cup (IF strictAddr /\ h.mode = "socks5" /\ \E i \in okRecv : ~HeaderNamesTarget(h, h.crecv[i])
           THEN {"socks5_udp_header_addr"} ELSE {})
     \cup (IF \E i \in okRecv : Recovered(h, h.crecv[i]) \notin replyPays THEN {"udp_reply_modified"} ELSE {})
          \* a client holds more copies of a reply payload than the replies owed to it plus those that cannot be
          \* attributed to any one client: a reply owed to somebody else arrived here
     \cup (IF \E k \in Clients(h) : \E v \in replyPays : Got(k, v) > Owed(k, v) + Unowned(v)
           THEN {"udp_reply_wrong_client"} ELSE {})
     \cup (IF \E k \in Clients(h) : \E v \in replyPays : Got(k, v) < Owed(k, v) THEN {"udp_reply_lost"} ELSE {})
     \cup (IF \E v \in replyPays : GotAll(v) > OwedAll(v) THEN {"udp_reply_duplicated"} ELSE {})
     \cup (IF \E v \in replyPays : GotAll(v) < OwedAll(v) THEN {"udp_reply_lost"} ELSE {})
     \cup (IF \E i \in Idx(h.crecv) : h.crecv[i].from \notin Dest(h, h.crecv[i].k) THEN {"udp_reply_wrong_source"} ELSE {})
  IN  \* a client gave up waiting although nothing above explains it
      IF base = {} /\ Len(h.timeouts) > 0 THEN {"udp_timeout"} ELSE base
=============================================================================
