//! C19 part B driver: runs the REAL client (`rusty_penguin_lib::client::client_main_inner`, real tokio
//! runtime, real sockets on loopback, real time) against a scripted fake server and logs what can be
//! observed from outside as ndjson.  It never judges: TLC validates every log against
//! spec/ClientRetry.tla (spec/RetryTrace.tla).
//!
//!   retry_sim run <scripts.ndjson> <out.ndjson>
//!       one script per line (printed by TLC, spec/MC_Retry.tla):
//!         {"mrc":..,"mri":..,"hs":..,"ct":..,"nudge_wait":..,
//!          "steps":[{"beh":..,"d":..,"open":bool,"wait":ms}, ..]}
//!       The scripts are run one after the other, each in its own tokio runtime, which is shut down
//!       (all tasks killed) at the end of the script.
//!
//! The fake server listens on a loopback port chosen by the operating system and treats the n-th
//! incoming TCP connection (= connection attempt n of the client) as step n says:
//!   refuse         close the connection at once (FIN)          rst    ... with SO_LINGER 0 (RST)
//!   stall          read, never answer
//!   bad            read the upgrade request, answer `HTTP/1.1 404 Not Found`
//!   mute           complete the WebSocket handshake, never answer a frame
//!   close_orderly  complete the handshake, run a real `penguin_mux::Multiplexor` that connects every
//!   close_abrupt   requested stream to the echo target; wait until the local connections opened so far
//!                  were answered, then d ms, then end the connection: by dropping the Multiplexor
//!                  (WebSocket Close handshake) / by killing the connection task (TCP closed, no Close)
//!   healthy        as before, never closed; further attempts are watched for `wait` ms (terminal)
//!   down           the listening socket stops listening (shutdown; it stays bound so that no other process
//!                  can get the port): further attempts are refused by the operating system and cannot be
//!                  observed; the client's result is awaited for `wait` ms (terminal)
//! Optional script field "tls": "pre" | "post" -- the client is given a wss:// URL (verification skipped) that points to a
//! TLS-terminating relay in front of the fake server (self-signed certificate made with rcgen): every connection of the
//! client is relayed to the fake server, whose behaviours and log stay the same.  For a `stall` step the relay with
//! "pre" does not even answer the TLS ClientHello (the handshake stalls inside TLS), with "post" it completes TLS and the
//! upgrade request is never answered.  Scripts with a `down` step are not run in this mode.
//! `open`: a local connection to the client's TCP listener is made at the step's characteristic moment
//! (refuse/rst/bad: right after the server's action; stall: right after the attempt arrived; mute /
//! close_* / healthy: right after the handshake; down: right after the listener was closed); it sends an
//! 8-octet tag and waits for the echo until the end of the script.
//! After every non-terminal step the next attempt is awaited for `wait` ms.  If it does not come, a
//! `no_attempt` event is logged and ONE local connection is made (`nudge`) to see whether that brings the
//! client back (`nudge_wait` ms).
//!
//! Events (t = ms since the script started, monotonic clock; a timestamp is taken BEFORE the action it
//! describes is performed, and AFTER the event it reports was observed):
//!   {"ev":"reset","script":{..},"ports":{..}}
//!   {"ev":"attempt","n":n,"t":..,"beh":..}        TCP connection n accepted ("extra": beyond the script)
//!   {"ev":"up","n":n,"t":..}                      WebSocket handshake completed on the server side
//!   {"ev":"act","n":n,"t":..,"what":..}           the server is about to end attempt n
//!   {"ev":"gone","n":n,"t":..}                    the client closed stalled / mute connection n
//!   {"ev":"down","n":n,"t":..}                    listener closed
//!   {"ev":"local_open","id":i,"n":n,"t0":..,"t":..,"ok":bool,"nudge":bool}
//!   {"ev":"no_attempt","t":..,"waited":..,"after":beh,"client_ended":bool}
//!   {"ev":"hang","t":..}                          the script overran its time budget (driver-level bound)
//!   end of script, in this order:
//!   {"ev":"local_echo","id":i,"ok":bool,"t":..}   one per local connection, by id
//!   {"ev":"result","res":"running"|"Ok"|<error variant>|"panic","inner":<variant inside MaxRetryCountReached or "">,"t":..,"detail":..}
use futures_util::{FutureExt, StreamExt};
use penguin_mux::Multiplexor;
use penguin_mux::timing::OptionalDuration;
use rusty_penguin_lib::arg::{ClientArgs, Remote, ServerUrl};
use rusty_penguin_lib::client::{self, HandlerResources};
use serde_json::{Value, json};
use std::future::Future;
use std::io::{BufRead, BufReader, Write};
use std::panic::AssertUnwindSafe;
use std::pin::Pin;
use std::str::FromStr;
use std::sync::{Arc, Mutex};
use std::time::{Duration, Instant};
use tokio::io::{AsyncReadExt, AsyncWriteExt};
use tokio::net::{TcpListener, TcpStream};
use tokio::sync::watch;
use tokio::task::{JoinHandle, JoinSet};
use tokio_tungstenite::WebSocketStream;
use tokio_tungstenite::tungstenite::handshake::server::{ErrorResponse, Request, Response};

type Drain = Pin<Box<dyn Future<Output = ()> + Send>>;
type Finished = Option<(String, Option<String>, String, u64)>;

const FIRST_WAIT_MS: u64 = 1800;
const SERVE_WAIT_MS: u64 = 3000;
const WS_HANDSHAKE_MS: u64 = 1500;

#[derive(Clone)]
struct Log {
    t0: Instant,
    lines: Arc<Mutex<Vec<Value>>>,
}

impl Log {
    fn now(&self) -> u64 {
        self.t0.elapsed().as_millis() as u64
    }
    fn put(&self, v: Value) {
        self.lines.lock().unwrap().push(v);
    }
}

fn variant(e: &client::Error) -> (String, Option<String>) {
    use client::Error as E;
    #[allow(unreachable_patterns)]
    let name = match e {
        E::MaxRetryCountReached(inner) => return ("MaxRetryCountReached".into(), Some(variant(inner).0)),
        E::RemoteHandlerExited(_) => "RemoteHandlerExited",
        E::InvalidDomainName(_) => "InvalidDomainName",
        E::Tungstenite(_) => "Tungstenite",
        E::TcpConnect(_) => "TcpConnect",
        E::Tls(_) => "Tls",
        E::Mux(_) => "Mux",
        E::HandshakeTimeout => "HandshakeTimeout",
        E::Cancelled => "Cancelled",
        E::StreamRequestTimeout => "StreamRequestTimeout",
        E::ServerDisconnected => "ServerDisconnected",
        _ => "Other",
    };
    (name.into(), None)
}

async fn echo_target(listener: TcpListener) {
    loop {
        let Ok((mut s, _)) = listener.accept().await else { continue };
        tokio::spawn(async move {
            let mut b = [0u8; 4096];
            loop {
                match s.read(&mut b).await {
                    Ok(0) | Err(_) => break,
                    Ok(n) => {
                        if s.write_all(&b[..n]).await.is_err() {
                            break;
                        }
                    }
                }
            }
        });
    }
}

/// TLS-terminating relay in front of the fake server (script field "tls")
async fn tls_relay(listener: TcpListener, sport: u16, behs: Vec<String>, mode: String) {
    let ck = rcgen::generate_simple_self_signed(vec!["localhost".to_string(), "127.0.0.1".to_string()]).expect("self-signed");
    let cert = ck.cert.der().clone();
    let key = rustls::pki_types::PrivateKeyDer::try_from(ck.signing_key.serialize_der()).expect("key der");
    let cfg = rustls::ServerConfig::builder().with_no_client_auth().with_single_cert(vec![cert], key).expect("server config");
    let acceptor = tokio_rustls::TlsAcceptor::from(Arc::new(cfg));
    let mut n = 0usize;
    loop {
        let Ok((mut down, _)) = listener.accept().await else { continue };
        let beh = behs.get(n).cloned().unwrap_or_default();
        n += 1;
        let acceptor = acceptor.clone();
        let mode = mode.clone();
        tokio::spawn(async move {
            let Ok(mut up) = TcpStream::connect(("127.0.0.1", sport)).await else { return };
            if beh == "stall" && mode == "pre" {
                // the TLS handshake itself stalls: swallow what the client sends, answer nothing; when the client
                // gives up the connection to the fake server is closed too
                let mut b = [0u8; 1024];
                loop {
                    match down.read(&mut b).await {
                        Ok(0) | Err(_) => break,
                        Ok(_) => {}
                    }
                }
                let _ = up.shutdown().await;
                return;
            }
            let Ok(mut tls) = acceptor.accept(down).await else { return };
            let _ = tokio::io::copy_bidirectional(&mut tls, &mut up).await;
        });
    }
}

async fn drain_tcp(mut s: TcpStream) {
    let mut b = [0u8; 1024];
    loop {
        match s.read(&mut b).await {
            Ok(0) | Err(_) => break,
            Ok(_) => {}
        }
    }
}

async fn drain_ws(mut ws: WebSocketStream<TcpStream>) {
    while let Some(Ok(_)) = ws.next().await {}
}

/// is there a listening TCP socket on 127.0.0.1:port?  (looked up without connecting to it: a connection
/// would be a local connection the client has to serve)
fn is_listening(port: u16) -> Option<bool> {
    let text = std::fs::read_to_string("/proc/net/tcp").ok()?;
    let want = format!("0100007F:{port:04X}");
    Some(text.lines().any(|l| {
        let mut f = l.split_whitespace();
        f.next();
        f.next() == Some(want.as_str()) && f.nth(1) == Some("0A")
    }))
}

async fn ws_accept(sock: TcpStream) -> Option<WebSocketStream<TcpStream>> {
    #[allow(clippy::result_large_err)]
    let cb = |req: &Request, mut resp: Response| -> Result<Response, ErrorResponse> {
        if let Some(p) = req.headers().get("sec-websocket-protocol") {
            resp.headers_mut().insert("sec-websocket-protocol", p.clone());
        }
        Ok(resp)
    };
    match tokio::time::timeout(Duration::from_millis(WS_HANDSHAKE_MS), tokio_tungstenite::accept_hdr_async(sock, cb)).await {
        Ok(Ok(ws)) => Some(ws),
        _ => None,
    }
}

/// the server side of an established connection
struct Conn {
    mux: Arc<Multiplexor>,
    tasks: JoinSet<Result<(), penguin_mux::Error>>,
    acceptor: JoinHandle<()>,
}

fn serve(ws: WebSocketStream<TcpStream>) -> Conn {
    let mut tasks = JoinSet::new();
    let mux = Arc::new(Multiplexor::new_with_opt(ws, penguin_mux::config::Options::new(), Some(&mut tasks)));
    let m2 = mux.clone();
    let acceptor = tokio::spawn(async move {
        while let Ok(stream) = m2.accept_stream_channel().await {
            tokio::spawn(async move {
                let host = String::from_utf8_lossy(&stream.dest_host).to_string();
                if let Ok(tcp) = TcpStream::connect((host.as_str(), stream.dest_port)).await {
                    let _ = stream.into_copy_bidirectional(tcp).await;
                }
            });
        }
    });
    Conn { mux, tasks, acceptor }
}

enum Next {
    Got(TcpStream, u64),
    Timeout,
    ClientEnded,
}

struct Sim {
    log: Log,
    lport: u16,
    listener: Option<TcpListener>,
    /// the fake server's socket after `down`: not listening any more, still bound
    held: Option<TcpListener>,
    prev: Option<(usize, Drain)>,
    done: watch::Receiver<Finished>,
    locals: Vec<(u64, Option<JoinHandle<(bool, u64)>>)>,
    echoes: Vec<(u64, bool, u64)>,
    listen_checked: bool,
}

impl Sim {
    /// stop listening, keep the port: connections are refused (RST) from now on
    fn go_down(&mut self) {
        if let Some(l) = self.listener.take() {
            if socket2::SockRef::from(&l).shutdown(std::net::Shutdown::Read).is_err() {
                // cannot happen on Linux; closing the socket has the same effect for the client
                return;
            }
            self.held = Some(l);
        }
    }

    fn client_ended(&self) -> bool {
        self.done.borrow().is_some()
    }

    async fn next_attempt(&mut self, window_ms: u64) -> Next {
        let deadline = tokio::time::Instant::now() + Duration::from_millis(window_ms);
        loop {
            if self.client_ended() {
                return Next::ClientEnded;
            }
            let Some(listener) = self.listener.as_ref() else { return Next::Timeout };
            let have_prev = self.prev.is_some();
            tokio::select! {
                biased;
                () = async { self.prev.as_mut().unwrap().1.as_mut().await }, if have_prev => {
                    let n = self.prev.take().unwrap().0;
                    self.log.put(json!({"ev": "gone", "n": n, "t": self.log.now()}));
                }
                r = listener.accept() => {
                    if let Ok((s, _)) = r {
                        let t = self.log.now();
                        return Next::Got(s, t);
                    }
                }
                _ = self.done.changed() => {}
                () = tokio::time::sleep_until(deadline) => return Next::Timeout,
            }
        }
    }

    /// make a local connection; the echo is awaited by a task
    async fn local_open(&mut self, n: usize, nudge: bool) {
        if !self.listen_checked {
            // the client binds its listener in a task of its own: give it the time to do so, once
            self.listen_checked = true;
            let until = Instant::now() + Duration::from_millis(2000);
            while is_listening(self.lport) == Some(false) && Instant::now() < until {
                tokio::time::sleep(Duration::from_millis(2)).await;
            }
            if is_listening(self.lport).is_none() {
                tokio::time::sleep(Duration::from_millis(300)).await;
            }
        }
        let id = self.locals.len() as u64 + 1;
        let t0 = self.log.now();
        let r = tokio::time::timeout(Duration::from_millis(1000), TcpStream::connect(("127.0.0.1", self.lport))).await;
        let t = self.log.now();
        let sock = match r {
            Ok(Ok(s)) => Some(s),
            _ => None,
        };
        self.log.put(json!({"ev": "local_open", "id": id, "n": n, "t0": t0, "t": t, "ok": sock.is_some(), "nudge": nudge}));
        let handle = sock.map(|mut s| {
            let log = self.log.clone();
            tokio::spawn(async move {
                let tag = format!("C19-{id:04}").into_bytes();
                if s.write_all(&tag).await.is_err() {
                    return (false, log.now());
                }
                let mut back = [0u8; 8];
                let ok = s.read_exact(&mut back).await.is_ok() && back[..] == tag[..];
                (ok, log.now())
            })
        });
        self.locals.push((id, handle));
    }

    /// wait (bounded) until every local connection made so far has its echo
    async fn await_locals(&mut self, bound_ms: u64) {
        let deadline = tokio::time::Instant::now() + Duration::from_millis(bound_ms);
        for (id, h) in &mut self.locals {
            if let Some(handle) = h.as_mut() {
                match tokio::time::timeout_at(deadline, &mut *handle).await {
                    Ok(r) => {
                        let (ok, t) = r.unwrap_or((false, 0));
                        self.echoes.push((*id, ok, t));
                        *h = None;
                    }
                    Err(_) => {}
                }
            }
        }
    }

    /// refuse connections beyond the script, logging them, until the client ends or the window closes
    async fn watch_extra(&mut self, window_ms: u64, stop_when_ended: bool) {
        let deadline = tokio::time::Instant::now() + Duration::from_millis(window_ms);
        loop {
            let left = deadline.saturating_duration_since(tokio::time::Instant::now());
            if left.is_zero() {
                return;
            }
            if stop_when_ended && self.client_ended() {
                return;
            }
            match self.next_attempt(left.as_millis() as u64).await {
                Next::Got(s, t) => {
                    self.log.put(json!({"ev": "attempt", "n": 0, "t": t, "beh": "extra"}));
                    drop(s);
                }
                Next::Timeout => return,
                Next::ClientEnded => {
                    if stop_when_ended {
                        return;
                    }
                    tokio::time::sleep(left.min(Duration::from_millis(20))).await;
                }
            }
        }
    }
}

async fn script_main(script: &Value, log: Log) {
    let u = |k: &str| script[k].as_u64().unwrap_or_else(|| panic!("script field {k}"));
    let (mrc, mri, hs, ct, nudge_wait) = (u("mrc"), u("mri"), u("hs"), u("ct"), u("nudge_wait"));
    let steps = script["steps"].as_array().expect("steps").clone();

    let echo = TcpListener::bind("127.0.0.1:0").await.expect("bind echo target");
    let eport = echo.local_addr().unwrap().port();
    tokio::spawn(echo_target(echo));
    let first_down = steps.first().is_some_and(|s| s["beh"] == "down");
    let server = TcpListener::bind("127.0.0.1:0").await.expect("bind fake server");
    let sport = server.local_addr().unwrap().port();
    let lport = {
        let l = TcpListener::bind("127.0.0.1:0").await.expect("probe a free port");
        l.local_addr().unwrap().port()
    };
    log.put(json!({"ev": "reset", "script": script, "ports": {"server": sport, "local": lport, "echo": eport}}));
    let tls_mode = script["tls"].as_str().unwrap_or("").to_string();
    let url = if tls_mode.is_empty() {
        format!("ws://127.0.0.1:{sport}/ws")
    } else {
        let relay = TcpListener::bind("127.0.0.1:0").await.expect("bind tls relay");
        let pport = relay.local_addr().unwrap().port();
        let behs: Vec<String> = steps.iter().map(|s| s["beh"].as_str().unwrap_or("").to_string()).collect();
        tokio::spawn(tls_relay(relay, sport, behs, tls_mode.clone()));
        format!("wss://127.0.0.1:{pport}/ws")
    };

    let args: &'static ClientArgs = Box::leak(Box::new(ClientArgs {
        server: ServerUrl::from_str(&url).expect("server url"),
        tls_skip_verify: !tls_mode.is_empty(),
        remote: vec![Remote::from_str(&format!("127.0.0.1:{lport}:127.0.0.1:{eport}")).expect("remote")],
        keepalive: OptionalDuration::NONE,
        keepalive_timeout: OptionalDuration::NONE,
        max_retry_count: mrc as u32,
        max_retry_interval: mri,
        handshake_timeout: Duration::from_millis(hs).into(),
        channel_timeout: Duration::from_millis(ct).into(),
        ..Default::default()
    }));
    let (hr, stream_rx, dgram_rx) = HandlerResources::create();
    let hr: &'static HandlerResources = Box::leak(Box::new(hr));
    let (done_tx, done_rx) = watch::channel::<Finished>(None);
    let mut sim = Sim {
        log: log.clone(),
        lport,
        listener: Some(server),
        held: None,
        prev: None,
        done: done_rx,
        locals: Vec::new(),
        echoes: Vec::new(),
        listen_checked: false,
    };
    if first_down {
        sim.go_down();
    }
    let clog = log.clone();
    let client = tokio::spawn(async move {
        let r = AssertUnwindSafe(client::client_main_inner(args, hr, stream_rx, dgram_rx)).catch_unwind().await;
        let t = clog.now();
        let fin = match r {
            Ok(Ok(())) => ("Ok".to_string(), None, String::new(), t),
            Ok(Err(e)) => {
                let (v, inner) = variant(&e);
                (v, inner, e.to_string(), t)
            }
            Err(_) => ("panic".to_string(), None, String::new(), t),
        };
        let _ = done_tx.send(Some(fin));
    });

    let mut wait_ms = FIRST_WAIT_MS;
    let mut after = "start".to_string();
    let mut terminal_done = false;
    let mut last_wait = 0u64;
    let mut keep: Vec<Conn> = Vec::new();
    'steps: for (i, step) in steps.iter().enumerate() {
        let n = i + 1;
        let beh = step["beh"].as_str().expect("beh").to_string();
        let open = step["open"].as_bool().unwrap_or(false);
        let d = step["d"].as_u64().unwrap_or(0);
        let step_wait = step["wait"].as_u64().expect("wait");
        last_wait = step_wait;
        if beh == "down" {
            sim.go_down();
            log.put(json!({"ev": "down", "n": n, "t": log.now()}));
            if open {
                sim.local_open(n, false).await;
            }
            // the client's result (or nothing, for ever)
            let deadline = tokio::time::Instant::now() + Duration::from_millis(step_wait);
            while !sim.client_ended() && tokio::time::Instant::now() < deadline {
                let have_prev = sim.prev.is_some();
                tokio::select! {
                    biased;
                    () = async { sim.prev.as_mut().unwrap().1.as_mut().await }, if have_prev => {
                        let pn = sim.prev.take().unwrap().0;
                        log.put(json!({"ev": "gone", "n": pn, "t": log.now()}));
                    }
                    _ = sim.done.changed() => {}
                    () = tokio::time::sleep_until(deadline) => {}
                }
            }
            terminal_done = true;
            break 'steps;
        }
        // the attempt
        let (sock, t_arr) = match sim.next_attempt(wait_ms).await {
            Next::Got(s, t) => (s, t),
            other => {
                let ended = matches!(other, Next::ClientEnded);
                log.put(json!({"ev": "no_attempt", "t": log.now(), "waited": wait_ms, "after": after, "client_ended": ended}));
                if ended {
                    terminal_done = true;
                    break 'steps;
                }
                sim.local_open(n, true).await;
                match sim.next_attempt(nudge_wait).await {
                    Next::Got(s, t) => (s, t),
                    other => {
                        let ended = matches!(other, Next::ClientEnded);
                        log.put(json!({"ev": "no_attempt", "t": log.now(), "waited": nudge_wait, "after": "nudge", "client_ended": ended}));
                        terminal_done = true;
                        break 'steps;
                    }
                }
            }
        };
        log.put(json!({"ev": "attempt", "n": n, "t": t_arr, "beh": beh}));
        let mut conn: Option<Conn> = None;
        let mut unserved: Option<tokio::task::JoinHandle<()>> = None;
        match beh.as_str() {
            "refuse" => {
                log.put(json!({"ev": "act", "n": n, "t": log.now(), "what": "fin"}));
                drop(sock);
            }
            "rst" => {
                #[allow(deprecated)]
                let _ = sock.set_linger(Some(Duration::ZERO));
                log.put(json!({"ev": "act", "n": n, "t": log.now(), "what": "rst"}));
                drop(sock);
            }
            "stall" => {
                sim.prev = Some((n, Box::pin(drain_tcp(sock))));
            }
            "bad" => {
                let mut sock = sock;
                let mut buf = Vec::new();
                let mut b = [0u8; 2048];
                let until = tokio::time::Instant::now() + Duration::from_millis(1000);
                while !buf.windows(4).any(|w| w == b"\r\n\r\n") {
                    match tokio::time::timeout_at(until, sock.read(&mut b)).await {
                        Ok(Ok(k)) if k > 0 => buf.extend_from_slice(&b[..k]),
                        _ => break,
                    }
                }
                log.put(json!({"ev": "act", "n": n, "t": log.now(), "what": "http404"}));
                let _ = sock
                    .write_all(b"HTTP/1.1 404 Not Found\r\ncontent-length: 3\r\nconnection: close\r\n\r\n404")
                    .await;
                let _ = sock.shutdown().await;
                tokio::spawn(drain_tcp(sock));
            }
            "mute" | "close_orderly" | "close_abrupt" | "drop_unserved" | "healthy" => {
                let Some(ws) = ws_accept(sock).await else {
                    log.put(json!({"ev": "up_failed", "n": n, "t": log.now()}));
                    terminal_done = true;
                    break 'steps;
                };
                log.put(json!({"ev": "up", "n": n, "t": log.now()}));
                if beh == "mute" {
                    sim.prev = Some((n, Box::pin(drain_ws(ws))));
                } else if beh == "drop_unserved" {
                    // frames are swallowed, never answered; the TCP connection is dropped after d ms
                    unserved = Some(tokio::spawn(drain_ws(ws)));
                } else {
                    conn = Some(serve(ws));
                }
            }
            other => panic!("unknown behaviour {other} (driver input)"),
        }
        if open {
            sim.local_open(n, false).await;
        }
        if let Some(h) = unserved.take() {
            tokio::time::sleep(Duration::from_millis(d)).await;
            log.put(json!({"ev": "act", "n": n, "t": log.now(), "what": "tcp_drop"}));
            h.abort();
            let _ = h.await;
        }
        if let Some(mut c) = conn {
            sim.await_locals(SERVE_WAIT_MS).await;
            if beh == "healthy" {
                sim.watch_extra(step_wait, false).await;
                sim.await_locals(200).await;
                terminal_done = true;
                // keep the connection until the end of the script
                keep.push(c);
                break 'steps;
            }
            tokio::time::sleep(Duration::from_millis(d)).await;
            if beh == "close_orderly" {
                log.put(json!({"ev": "act", "n": n, "t": log.now(), "what": "ws_close"}));
                c.acceptor.abort();
                let _ = (&mut c.acceptor).await;
                drop(c.mux);
                // the connection task performs the closing handshake and ends
                let closed = tokio::time::timeout(Duration::from_millis(1000), c.tasks.join_next()).await;
                log.put(json!({"ev": "closed", "n": n, "t": log.now(), "server_task": match closed {
                    Ok(Some(Ok(Ok(())))) => "ok".to_string(),
                    Ok(Some(Ok(Err(e)))) => format!("err: {e}"),
                    Ok(Some(Err(_))) => "join error".to_string(),
                    Ok(None) => "none".to_string(),
                    Err(_) => "still running".to_string(),
                }}));
                c.tasks.abort_all();
            } else {
                log.put(json!({"ev": "act", "n": n, "t": log.now(), "what": "tcp_drop"}));
                c.tasks.abort_all();
                c.acceptor.abort();
                while c.tasks.join_next().await.is_some() {}
                drop(c.mux);
            }
        }
        wait_ms = step_wait;
        after = beh;
    }
    if !terminal_done {
        // the last step ended the client (retry limit / non-retryable): its result, and nothing else
        sim.watch_extra(last_wait, true).await;
    }
    // end of script: the fate of the local connections, the client's result
    sim.await_locals(0).await;
    for (id, h) in &mut sim.locals {
        if let Some(handle) = h.take() {
            handle.abort();
            sim.echoes.push((*id, false, log.now()));
        }
    }
    sim.echoes.sort();
    let opened: Vec<u64> = sim.locals.iter().map(|l| l.0).collect();
    for (id, ok, t) in &sim.echoes {
        if opened.contains(id) {
            log.put(json!({"ev": "local_echo", "id": id, "ok": ok, "t": t}));
        }
    }
    let fin = sim.done.borrow().clone();
    match fin {
        Some((res, inner, detail, t)) => log.put(json!({"ev": "result", "res": res, "inner": inner.unwrap_or_default(), "t": t, "detail": detail})),
        None => log.put(json!({"ev": "result", "res": "running", "inner": "", "t": log.now(), "detail": ""})),
    }
    client.abort();
    drop(keep);
}

fn run_script(script: &Value) -> Vec<Value> {
    let rt = tokio::runtime::Builder::new_multi_thread().worker_threads(4).enable_all().build().expect("runtime");
    let log = Log { t0: Instant::now(), lines: Arc::new(Mutex::new(Vec::new())) };
    let budget: u64 = script["steps"].as_array().map_or(0, |s| {
        s.iter().map(|x| x["wait"].as_u64().unwrap_or(0) + x["d"].as_u64().unwrap_or(0) + SERVE_WAIT_MS + WS_HANDSHAKE_MS).sum()
    }) + script["nudge_wait"].as_u64().unwrap_or(0) + FIRST_WAIT_MS + 5000;
    let l2 = log.clone();
    let timed_out = rt.block_on(async move {
        tokio::time::timeout(Duration::from_millis(budget), script_main(script, l2)).await.is_err()
    });
    if timed_out {
        log.put(json!({"ev": "hang", "t": log.now()}));
    }
    rt.shutdown_timeout(Duration::from_millis(300));
    let lines = log.lines.lock().unwrap().clone();
    lines
}

fn main() {
    let _ = rusty_penguin_lib::tls::init_crypto_provider();
    let args: Vec<String> = std::env::args().collect();
    match args.get(1).map(String::as_str) {
        Some("run") if args.len() == 4 => {
            let inp = BufReader::new(std::fs::File::open(&args[2]).expect("open scripts"));
            let mut out = std::fs::File::create(&args[3]).expect("create out");
            for line in inp.lines() {
                let line = line.expect("read");
                if line.trim().is_empty() {
                    continue;
                }
                let script: Value = serde_json::from_str(&line).expect("script json");
                let res = std::panic::catch_unwind(AssertUnwindSafe(|| run_script(&script)));
                match res {
                    Ok(lines) => {
                        for l in lines {
                            writeln!(out, "{l}").unwrap();
                        }
                    }
                    Err(_) => {
                        eprintln!("retry_sim: driver panic in script {line}");
                        std::process::exit(4);
                    }
                }
                out.flush().unwrap();
            }
        }
        _ => {
            eprintln!("usage: retry_sim run <scripts.ndjson> <out.ndjson>");
            std::process::exit(2);
        }
    }
}
