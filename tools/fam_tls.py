#!/usr/bin/env python3
"""C17: TLS peers are authenticated exactly as configured.

A thin use of TLA+ (a decision table + a small state machine as the reference decision procedure):

spec/TlsAuth.tla       the decision table Expected(cell) and the reload machine Connect / Reload / Use(c) with the
                       invariants Undisturbed and Fresh, written from the text of the property
spec/MC_TlsAuth.tla    TLC enumerates the 72 cells of the matrix (one state = one `CASE` line each) and every
                       interleaving of connections, reloads and uses (`SCRIPT` lines), checking the invariants;
                       negative-control configurations (wrong reload implementations) must violate them
harness_app tls_matrix real handshakes over an in-memory duplex: the application's make_server_config /
                       make_tls_identity / reload_tls_identity + tokio_rustls::TlsAcceptor (the server's serve path)
                       against the application's tls_connect, rcgen-generated chains, application-data round trip
spec/TlsTrace.tla      TLC validates every logged line; unmatched lines come back with a signature

A rejected line whose signature is an `open` entry of KNOWN_FINDINGS.json (`"property":"C17","sig":...`) is printed
as KNOWN-FINDING and does not fail the check; any other signature is a VIOLATION.
"""
import collections, json, os, re, shutil, sys, tempfile, time

import vlib
from vlib import log, ToolError

TIERS = {
    # cfg: enumeration; npki: independently generated PKI sets for the matrix; script_sets: PKI sets for the scripts
    "quick": dict(cfg="MC_TlsAuth_q", npki=3, script_sets=1, algs="p256,p384,ed25519",
                  bounds="<= 2 connections x <= 2 reloads x <= 2 uses, with and without mutual TLS"),
    "thorough": dict(cfg="MC_TlsAuth", npki=8, script_sets=2, algs="p256,p384,ed25519,rsa2048",
                     bounds="<= 3 connections x <= 3 reloads x <= 3 uses, with and without mutual TLS"),
}
NAMEKINDS = "localhost,dns,ip4,ip6"
NEG_CONTROLS = {"MC_TlsAuth_neg_stale": "Fresh", "MC_TlsAuth_neg_inplace": "Undisturbed",
                "MC_TlsAuth_neg_disconnect": "Undisturbed"}
OUT_RE = re.compile(r'^<<"(CASE|SCRIPT)", "(.*)">>$')
BAD_RE = re.compile(r'^<<"BAD", (\d+), "([^"]*)", "(.*)">>$')
CELL = ("serverCert", "nameMatches", "skipVerify", "clientCert", "serverClientCA")
MAX_REPLAY_ITEMS = 24


def _unq(s):
    return json.loads(s.encode().decode("unicode_escape"))


def enumerate_cases(cfg):
    """The model-checking run: the 72 cells and the reload scripts. Returns (cells, scripts, stats)."""
    r = vlib.model_check("MC_TlsAuth", cfg, workers=1, timeout=1500, coverage=False)
    if not r["ok"]:
        log(r["out"][-3000:])
        raise ToolError(f"the reload machine violates {r['violated']} in {cfg} (triage spec/TlsAuth.tla)")
    cells, scripts = [], []
    for line in r["out"].split("\n"):
        m = OUT_RE.match(line.strip())
        if m:
            (cells if m.group(1) == "CASE" else scripts).append(_unq(m.group(2)))
    # vacuity / integrity of the enumeration
    keys = {tuple(c["case"][f] for f in CELL) for c in cells}
    if len(cells) != 72 or len(keys) != 72:
        raise ToolError(f"{len(cells)} CASE lines ({len(keys)} distinct cells) instead of the 72 of the matrix")
    by = collections.Counter("/".join(sorted(c["exp"])) for c in cells)
    want = {"ok": 28, "clientRejects": 20, "serverRejects": 14, "clientRejects/serverRejects": 10}
    if dict(by) != want:
        raise ToolError(f"the decision table changed: {dict(by)} (triage spec/TlsAuth.tla)")
    if not scripts or len({json.dumps(s, sort_keys=True) for s in scripts}) != len(scripts):
        raise ToolError("vacuous or duplicated script enumeration")

    def after_reload(s, op):
        seen = False
        for o in s["ops"]:
            if o["op"] == "reload":
                seen = True
            elif o["op"] == op and seen:
                return True
        return False
    n_car = sum(1 for s in scripts if after_reload(s, "connect"))
    n_uar = sum(1 for s in scripts if after_reload(s, "use"))
    if n_car == 0 or n_uar == 0:
        raise ToolError("vacuous scripts: no handshake / no use after a reload")
    return cells, scripts, dict(distinct=r["distinct"], generated=r["states"], wall=r["wall"], by=by,
                                connect_after_reload=n_car, use_after_reload=n_uar)


def negative_controls():
    """Wrong reload implementations must be caught by the invariants (so the invariants are not vacuous)."""
    res = {}
    for cfg, inv in NEG_CONTROLS.items():
        r = vlib.model_check("MC_TlsAuth", cfg, workers=1, timeout=600, coverage=False)
        if r["violated"] != inv:
            raise ToolError(f"negative control {cfg}: expected {inv} violated, TLC reports {r['violated']}")
        res[cfg] = dict(violated=inv, states=r["states"])
    return res


def run_harness(bin_path, cases, out, seed, npki, algs, scratch):
    env = {k: v for k, v in os.environ.items() if k != "SSLKEYLOGFILE"}
    t = time.time()
    rc, o = vlib.run([bin_path, cases, out, str(seed), str(npki), algs, NAMEKINDS, scratch], timeout=3000, env=env)
    if rc != 0:
        log(o[-3000:])
        raise ToolError("tls_matrix failed on " + cases)
    shutil.rmtree(scratch, ignore_errors=True)
    log(f"[run] tls_matrix {os.path.basename(cases)} x {npki} PKI set(s): {sum(1 for _ in open(out))} lines ({time.time() - t:.1f}s)")


def validate(path):
    """One TLC run over a log. Returns (n_lines, bad) with bad = [(line_no, sig, expected)]."""
    r = vlib.validate_once("TlsTrace", "TlsTrace_collect", path, timeout=1500, xmx="8g")
    if r["accepted"]:
        m = re.search(r'<<"ACCEPTED lines", (\d+)>>', r["out"])
        return (int(m.group(1)) if m else 0), [], r
    bad = []
    for line in r["out"].split("\n"):
        m = BAD_RE.match(line.strip())
        if m:
            try:
                exp = _unq(m.group(3))
            except Exception:
                exp = None
            bad.append((int(m.group(1)), m.group(2), exp))
    m = re.search(r'<<"REJECTED at line", (\d+), "of", (\d+)>>', r["out"])
    total = int(m.group(2)) if m else 0
    mc = re.search(r'<<"BADCOUNT", (\d+)>>', r["out"])
    if not bad or not mc or int(mc.group(1)) != len(bad):
        log(r["out"][-3000:])
        raise ToolError("trace validation ended without a verdict for " + path)
    return total, bad, r


def cell_of(rec):
    return "/".join(str(rec[f]) for f in CELL)


def describe(rec, exp):
    if rec.get("ev") == "case":
        return (f"[{rec['client']} {rec['alg']} {rec['namekind']}] serverCert={rec['serverCert']} nameMatches={rec['nameMatches']} "
                f"skipVerify={rec['skipVerify']} clientCert={rec['clientCert']} serverClientCA={rec['serverClientCA']} -> "
                f"client hs={rec['client_hs']} rt={rec['client_rt']} got={rec['cli_data']!r} ({rec['client_err'][:120]}); "
                f"server hs={rec['server_hs']} rt={rec['server_rt']} got={rec['srv_data']!r} ({rec['server_err'][:120]}); "
                f"client saw cn={rec['seen_cn']!r}, server saw client cert={rec['srv_saw_client_cert']}"
                f"   property: {json.dumps(exp, sort_keys=True)}")
    if rec.get("ev") == "step":
        if rec["op"] == "reload":
            got = f"res={rec.get('res')} {rec.get('err', '')[:160]}"
        else:
            got = (f"client hs={rec.get('client_hs')} rt={rec.get('client_rt')} server hs={rec.get('server_hs')} rt={rec.get('server_rt')} "
                   f"client saw cn={rec.get('seen_cn')!r} serial={rec.get('seen_serial')} mtls={rec.get('mtls')} server saw client cert={rec.get('srv_saw_client_cert')} ({str(rec.get('client_err'))[:100]} / {str(rec.get('server_err'))[:100]})")
        return f"script {rec['id']} step {rec['i']} {rec['op']}({rec['conn']}) -> {got}   property: {json.dumps(exp, sort_keys=True)}"
    return json.dumps(rec, sort_keys=True)[:300]


def item_lines(lines, ln):
    """The input item (replayable) a logged line belongs to: the case line itself, or the whole script."""
    rec = json.loads(lines[ln - 1])
    if rec["ev"] == "case":
        return [lines[ln - 1]]
    i = ln - 1
    while i > 0 and json.loads(lines[i])["ev"] != "script":
        i -= 1
    j = i + 1
    while j < len(lines) and json.loads(lines[j])["ev"] == "step":
        j += 1
    return lines[i:j]


def check(prop, tier, seed, replay):
    if tier not in TIERS:
        raise ToolError(f"unknown tier {tier}")
    T = TIERS[tier]
    t0 = time.time()
    bin_path = os.path.join(vlib.build_harness(["tls_matrix"], crate=vlib.HARNESS_APP), "tls_matrix")
    work = tempfile.mkdtemp(prefix=f"{prop}_", dir=vlib.WORK)
    try:
        logs = []  # (name, path)
        mc = neg = None
        n_cases = n_scripts = 0
        if replay:
            out = os.path.join(work, "replay_log.ndjson")
            run_harness(bin_path, os.path.abspath(replay), out, seed, 1, T["algs"], os.path.join(work, "pki_r"))
            logs.append(("replay", out))
        else:
            # 1. model checking: invariants of the reload machine, enumeration of cells and scripts
            cells, scripts, mc = enumerate_cases(T["cfg"])
            log(f"[mc] {T['cfg']}: {mc['distinct']} distinct states, {mc['generated']} generated, {mc['wall']:.1f}s: "
                f"72 cells ({dict(mc['by'])}), {len(scripts)} complete scripts ({T['bounds']}); Undisturbed, Fresh hold")
            neg = negative_controls()
            log("[mc] negative controls (wrong reload implementations) caught: " +
                ", ".join(f"{k.split('_neg_')[1]}->{v['violated']}" for k, v in neg.items()))
            # 2. the real code: the matrix with the application's client (TLS 1.3) and, for the cells without
            #    skip-verify, with a reference TLS 1.2 client against the application's server configuration
            cpath = os.path.join(work, "cases.ndjson")
            with open(cpath, "w") as f:
                for c in cells:
                    f.write(json.dumps(dict(ev="case", client="penguin", **c["case"]), separators=(",", ":")) + "\n")
                    n_cases += 1
                for c in cells:
                    if not c["case"]["skipVerify"]:
                        f.write(json.dumps(dict(ev="case", client="ref12", **c["case"]), separators=(",", ":")) + "\n")
                        n_cases += 1
            out = os.path.join(work, "matrix_log.ndjson")
            run_harness(bin_path, cpath, out, seed, T["npki"], T["algs"], os.path.join(work, "pki_m"))
            got = sum(1 for _ in open(out))
            if got != n_cases * T["npki"]:
                raise ToolError(f"tls_matrix logged {got} lines for {n_cases * T['npki']} executions")
            logs.append(("matrix", out))
            spath = os.path.join(work, "scripts.ndjson")
            with open(spath, "w") as f:
                for i, s in enumerate(scripts, 1):
                    f.write(json.dumps(dict(ev="script", id=i, mtls=s["mtls"], ops=s["ops"]), separators=(",", ":")) + "\n")
            n_scripts = len(scripts)
            out = os.path.join(work, "scripts_log.ndjson")
            run_harness(bin_path, spath, out, int(seed) + 7919, T["script_sets"], T["algs"], os.path.join(work, "pki_s"))
            want = sum(1 + len(s["ops"]) for s in scripts) * T["script_sets"]
            got = sum(1 for _ in open(out))
            if got != want:
                raise ToolError(f"tls_matrix logged {got} lines for {want} script lines")
            logs.append(("scripts", out))
        # 3. TLC validates every logged line
        total = accepted = 0
        rejected = collections.defaultdict(list)  # sig -> [(rec, expected, item lines)]
        nontrivial = set()
        outcome = collections.Counter()
        samples = []
        pki_sets = set()
        for name, path in logs:
            tv = time.time()
            n, bad, _ = validate(path)
            tv = time.time() - tv
            lines = open(path).readlines()
            if n != len(lines) or n == 0:
                raise ToolError(f"TLC saw {n} lines of {len(lines)} in {name}")
            total += n
            accepted += n - len(bad)
            badset = {b[0] for b in bad}
            for ln, sig, exp in bad:
                if sig == "other:malformed_line":
                    raise ToolError(f"malformed log line {ln} in {name}: {lines[ln - 1][:300]}")
                rejected[sig].append((json.loads(lines[ln - 1]), exp, item_lines(lines, ln)))
            script_ok = None
            for i, text in enumerate(lines, 1):
                rec = json.loads(text)
                if rec["ev"] == "case":
                    pki_sets.add((rec["pki"], rec["alg"], rec["namekind"]))
                    cls = ("ok" if rec["cli_data"] == "ping" and rec["srv_data"] == "ping" else
                           "clientRejects" if rec["client_hs"] == "bad_cert" else
                           "serverRejects" if rec["server_hs"] in ("bad_cert", "no_cert") else "undetermined")
                    outcome[(rec["client"], cls, rec["proto"])] += 1
                    if i not in badset:
                        nontrivial.add(("case", rec["client"], cell_of(rec), rec["alg"], rec["namekind"]))
                        if len(samples) < 3 and cls not in [s.get("_cls") for s in samples]:
                            samples.append(dict(rec, _cls=cls))
                elif rec["ev"] == "script":
                    script_ok = [rec, True, False]
                elif rec["ev"] == "step":
                    outcome[("script", rec["op"], rec.get("client_rt", rec.get("res")))] += 1
                    if script_ok is not None:
                        if i in badset:
                            script_ok[1] = False
                        if rec["op"] == "reload":
                            script_ok[2] = True
                        elif script_ok[1] and script_ok[2]:
                            h = script_ok[0]
                            nontrivial.add(("script", json.dumps(h["ops"]), h["mtls"], h["alg"], h["namekind"], h["pki"]))
                            if rec["op"] == "use" and not any(s.get("ev") == "step" for s in samples):
                                samples.append(rec)
            log(f"[trace] {name}: {n} lines, {n - len(bad)} accepted by TLC, {len(bad)} rejected ({tv:.1f}s)")
        # 4. verdict
        known = {k.get("sig"): k for k in vlib.load_known()
                 if k.get("property") == prop and k.get("status") == "open" and k.get("sig")}
        violations = []
        known_met = []
        rej_summary = {}
        for sig in sorted(rejected):
            items = sorted(rejected[sig], key=lambda x: (x[0].get("client", "") != "penguin", x[0].get("pki", 0),
                                                         len(x[2]), json.dumps(x[0], sort_keys=True)))
            rej_summary[sig] = dict(lines=len(items), first=describe(items[0][0], items[0][1]))
            if sig in known:
                known_met.append(sig)
                print(f"KNOWN-FINDING: property={prop} {known[sig]['what']}", flush=True)
                log(f"   [{sig}] {len(items)} rejected lines, first: {describe(items[0][0], items[0][1])}")
                continue
            note = [f"property {prop}, signature {sig}: {len(items)} logged lines rejected by TLC (spec/TlsTrace.tla)",
                    "rejected lines (what the code did   property: what spec/TlsAuth.tla demands):"]
            note += ["  " + describe(r, e) for r, e, _ in items[:12]]
            text, seen = [], set()
            for _, _, il in items:
                key = "".join(il)
                if key not in seen and len(seen) < MAX_REPLAY_ITEMS:
                    seen.add(key)
                    text += il
            path = vlib.save_replay(prop, re.sub(r"[^A-Za-z0-9_]+", "_", sig), text, note="\n".join(note))
            violations.append((path, sig, len(items)))
            log("\n".join(note[:8]))
        wall = time.time() - t0
        if not replay:
            for s in samples:
                s.pop("_cls", None)
            coverage = dict(
                states=mc["distinct"], transitions=mc["generated"],
                traces_validated_against_impl=accepted, evaluations=total,
                distinct_nontrivial=len(nontrivial),
                rule="counted: (a) accepted matrix lines distinct by client kind, cell and PKI parameters - each is a real "
                     "handshake (and round trip) whose outcome class, delivered data, presented certificate and "
                     "client-certificate request were compared with the table; (b) accepted scripts, distinct by operations, "
                     "mTLS flag and PKI set, in which a handshake or a use of an established connection follows a reload",
                samples=samples or [dict(note="no accepted line in this run")],
                model_checking_runs=[dict(config=T["cfg"], distinct_states=mc["distinct"], states_generated=mc["generated"],
                                          wall_s=round(mc["wall"], 1))],
                negative_controls=neg,
                matrix_cells=72, cells_by_expectation=dict(mc["by"]),
                matrix_executions=n_cases * T["npki"], pki_sets=sorted(list(x) for x in pki_sets),
                scripts=n_scripts, script_bounds=T["bounds"], script_pki_sets=T["script_sets"],
                scripts_with_connect_after_reload=mc["connect_after_reload"],
                scripts_with_use_after_reload=mc["use_after_reload"],
                observed={"/".join(str(x) for x in k): n for k, n in sorted(outcome.items(), key=str)},
                rejected_by_signature=rej_summary,
                known_findings_met=known_met,
                exhaustive=True,
                explanation="thin use of TLA+: spec/TlsAuth.tla is a decision table (Expected: who may reject in each of the 72 "
                            "cells) and a three-action reload machine (invariants Undisturbed, Fresh; wrong implementations are "
                            "caught as negative controls). TLC enumerates all 72 cells and all interleavings of connections, "
                            "reloads and uses within the bounds (spec/MC_TlsAuth.tla); tls_matrix executes each on the real "
                            "code: rcgen chains (two CAs, a self-signed certificate, right and wrong names, client "
                            "certificates), make_server_config / make_tls_identity / reload_tls_identity + "
                            "tokio_rustls::TlsAcceptor on one end of a tokio duplex, tls_connect on the other, followed by an "
                            "application-data round trip; TLC validates every logged line (spec/TlsTrace.tla)",
            )
            vlib.write_evidence(prop, tier, seed, coverage, wall, sum(v[2] for v in violations), assumptions=[
                "thin use of TLA+: a decision table and a small state machine serve as the reference decision procedure; "
                "the cryptography (signatures, path building, name matching, the handshake itself) is trusted to rustls / "
                "webpki / aws-lc-rs, and certificate generation to rcgen",
                "the transport is tokio::io::duplex, not TCP; the WebSocket/HTTP layer above TLS and the name selection in "
                "client/ws_connect.rs (--hostname / --tls-server-name) are not exercised: tls_connect is called with the name",
                "the server end repeats the two lines of server/mod.rs (identity.load_full() when the connection is accepted, "
                "TlsAcceptor::from(config).accept(stream)) instead of running run_listener over TCP",
                "the application's client is TLS 1.3 only (tls_connect always adds ECH GREASE), so the protocol version "
                "cannot be chosen through the API; TLS 1.2 is covered for the SERVER configuration only, with a reference "
                "rustls client of the harness (cells without skip-verify)",
                "'never asks for a certificate' is observed indirectly: a client holding a certificate presents it whenever "
                "asked, so a server that saw no client certificate did not ask (unobservable for a client without one)",
                "when both peers would reject, either may be observed to (TLS 1.2 and 1.3: the client checks first)",
                "key generation uses the system RNG and is not reproducible; the seed selects key algorithm, name kind "
                "(DNS / IP literal) and names of each PKI set; certificates are valid 1975-4096 (no clock dependence)",
                "reload: same file paths with new content, as the SIGUSR1 handler does; a failing reload is not modelled",
            ])
        if violations:
            for path, sig, n in violations:
                print(f"VIOLATION property={prop} replay={path}", flush=True)
            return 1
        log(f"{prop} held on everything explored ({total} lines, {wall:.0f}s)")
        return 0
    finally:
        shutil.rmtree(work, ignore_errors=True)


if __name__ == "__main__":
    import argparse
    ap = argparse.ArgumentParser()
    ap.add_argument("tier", nargs="?", default="quick")
    ap.add_argument("--replay")
    ap.add_argument("--seed", default=os.environ.get("VERIF_SEED", "1"))
    a = ap.parse_args()
    try:
        sys.exit(check("C17", a.tier, int(a.seed), a.replay))
    except ToolError as e:
        print("TOOL ERROR:", e)
        sys.exit(2)
