#!/usr/bin/env python3
"""Evaluate registered checks against a seeded change (or against the unchanged tree with another VERIF_SEED) WITHOUT touching
/repo or /verif: a scratch worktree of /repo (with the patch applied) and a copy of /verif are bind-mounted over /repo and
/verif inside a private mount namespace (unshare -m), so several evaluations can run side by side.  Development tool only:
nothing registered in MANIFEST.json uses it (it lives under /tmp).

usage: ns_eval.py <seeded-name | clean> <property> [<property> ...] [--tier quick|thorough] [--seed N] [--keep]
For a seeded name the outcome is recorded in /verif/seeded/<name>/meta.json under "framework" (like tools/seed_eval.py)."""
import json, os, shutil, subprocess, sys, time

V = "/verif"
args = sys.argv[1:]
name = args.pop(0)
tier, seed, keep, props, runcmd = "quick", None, False, [], None
while args:
    a = args.pop(0)
    if a == "--tier":
        tier = args.pop(0)
    elif a == "--seed":
        seed = args.pop(0)
    elif a == "--keep":
        keep = True
    elif a == "--run":
        runcmd = args.pop(0)
    else:
        props.append(a)
tag = f"{name.replace('/', '_').replace(':', '_')}_{'_'.join(props)}_{seed or 1}_{os.getpid()}"
# a pool of persistent slots (the cargo target directories survive, so builds are incremental); one evaluation per slot at a time
import fcntl
os.makedirs("/tmp/ns", exist_ok=True)
lockf = None
while lockf is None:
    for k in range(1, 7):
        f = open(f"/tmp/ns/slot{k}.lock", "w")
        try:
            fcntl.flock(f, fcntl.LOCK_EX | fcntl.LOCK_NB)
            lockf, D = f, f"/tmp/ns/slot{k}"
            break
        except BlockingIOError:
            f.close()
    if lockf is None:
        time.sleep(5)
os.makedirs(D, exist_ok=True)
res = {}
try:
    head = subprocess.run(["git", "-C", "/repo", "rev-parse", "HEAD"], capture_output=True, text=True).stdout.strip()
    if not os.path.exists(f"{D}/repo/.git"):
        subprocess.run(["git", "-C", "/repo", "worktree", "prune"])
        subprocess.run(["git", "-C", "/repo", "worktree", "add", "-q", "--detach", f"{D}/repo", head], check=True)
    else:
        subprocess.run(["git", "-C", f"{D}/repo", "checkout", "-q", "--", "."], check=True)
        subprocess.run(["git", "-C", f"{D}/repo", "clean", "-fdq"], check=True)
        subprocess.run(["git", "-C", f"{D}/repo", "checkout", "-q", "--detach", head], check=True)
    if name.startswith("patch:"):
        subprocess.run(["git", "-C", f"{D}/repo", "apply", name[6:]], check=True)
    elif name != "clean":
        subprocess.run(["git", "-C", f"{D}/repo", "apply", f"{V}/seeded/{name}/patch.diff"], check=True)
    first = not os.path.exists(f"{D}/verif")
    subprocess.run(["rsync", "-a", "--delete", "--exclude", ".git", "--exclude", ".work", "--exclude", "replays"] +
                   ([] if first else ["--exclude", "target"]) + [f"{V}/", f"{D}/verif/"], check=True)
    shutil.rmtree(f"{D}/verif/replays", ignore_errors=True)
    for p in props:
        t0 = time.time()
        env = dict(os.environ, VERIF_MAX_FAILURES=os.environ.get("VERIF_MAX_FAILURES", "60"))
        if seed:
            env["VERIF_SEED"] = seed
        script = f"mount --bind {D}/repo /repo && mount --bind {D}/verif /verif && cd /verif && " + (runcmd if p == "RUN" else f"./check {p} {tier}")
        r = subprocess.run(["unshare", "-m", "bash", "-c", script], capture_output=True, text=True, env=env)
        viol = [l for l in r.stdout.splitlines() if l.startswith("VIOLATION")]
        res[p] = dict(exit=r.returncode, violation_lines=viol[:3], wall_s=round(time.time() - t0, 1), tier=tier)
        if p == "RUN":
            res[p]["tail"] = r.stdout.strip().splitlines()[-1:]
        try:
            cov = json.load(open(f"{D}/verif/evidence/{p}.json"))["coverage"]
            res[p]["others"] = len(cov.get("nonconformance_attributed_to_other_properties") or [])
        except Exception:
            pass
        print(name, p, "seed", seed or 1, "exit", r.returncode, viol[:1], f"{time.time() - t0:.0f}s", flush=True)
        if r.returncode == 2 or (name == "clean" and r.returncode != 0):
            print(r.stdout[-2500:], flush=True)
        if r.returncode == 1:
            # keep the replay files of a detection next to the seeded change's record (small)
            os.makedirs(f"/tmp/ns_replays/{tag}", exist_ok=True)
            for l in viol[:3]:
                rp = l.split("replay=")[-1].strip().replace("/verif/", f"{D}/verif/", 1)
                for f in (rp, rp + ".note.txt"):
                    if os.path.exists(f):
                        shutil.copy(f, f"/tmp/ns_replays/{tag}/")
finally:
    if name != "clean":
        subprocess.run(["git", "-C", f"{D}/repo", "checkout", "-q", "--", "."])
    lockf.close()
if name.startswith("patch:"):
    with open(os.environ.get("NS_RESULTS", "/tmp/mut/results.jsonl"), "a") as f:
        f.write(json.dumps(dict(patch=name[6:], res=res)) + "\n")
elif name != "clean":
    mp = f"{V}/seeded/{name}/meta.json"
    meta = json.load(open(mp)) if os.path.exists(mp) else {}
    meta.setdefault("framework", {}).update(res)
    json.dump(meta, open(mp, "w"), indent=1)
