SPECIFICATION Spec
CONSTANTS
  Mode = "pinned"
  NPolls = 2
INVARIANT ContractHolds
CHECK_DEADLOCK FALSE
