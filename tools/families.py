#!/usr/bin/env python3
"""The checks, grouped by the machinery they share.  FAMILY maps a property id to its check function."""
import json, os, time, subprocess, tempfile, shutil

import vlib
from vlib import log, ToolError

# ======================================================================================
# Multiplexing-protocol family: PenguinMux.tla + MC_Mux.tla + MuxTrace.tla + harness mux_sim
# ======================================================================================

# which fine-grained actions a property's model-checking run must have exercised (vacuity guard)
MUX = {
    "C02": dict(
        title="bytes intact, in order, exactly once, no cross-talk",
        mc=dict(quick=["MC_Core_q", "MC_Flush_q"], thorough=["MC_Core", "MC_CoreAny_q", "MC_Open", "MC_Flush"]),
        needs=["AWrite", "ARead", "TRecv", "TSend"],
        sims=dict(quick=[("pair", 120, 90), ("all", 40, 110), ("open", 60, 90)], thorough=[("pair", 2500, 140), ("all", 1200, 160), ("open", 800, 140)]),
        nontrivial=lambda r: r.get("ev") == "read" and r.get("res") == "data",
        rule="a trace counts when it contains at least one read that returned data",
    ),
    "C03": dict(
        title="credit-based flow control",
        mc=dict(quick=["MC_Core_q", "MC_CoreAny_q"], thorough=["MC_Core", "MC_CoreAny_q", "MC_Open"]),
        needs=["AWrite", "ARead", "TRecv", "TSend"],
        sims=dict(quick=[("pair", 120, 90), ("fair", 60, 80), ("bridge", 80, 90)], thorough=[("pair", 2500, 140), ("fair", 1500, 120), ("all", 800, 160), ("bridge", 1500, 120)]),
        nontrivial=lambda r: r.get("ev") == "task" and any(m.get("op") == "ack" and m.get("n", 0) > 0 for m in r.get("sent", [])),
        rule="a trace counts when a flow-control Acknowledge crossed the link",
    ),
    "C04": dict(
        title="progress while the application keeps reading",
        mc=dict(quick=["MC_Core_q", "MC_Live_q"], thorough=["MC_Core", "MC_Live"]),
        needs=["AWrite", "ARead", "TRecv", "TSend"],
        sims=dict(quick=[("fair", 160, 80)], thorough=[("fair", 4000, 120), ("pair", 1000, 140)]),
        nontrivial=lambda r: r.get("ev") == "write" and r.get("res") == "pending",
        rule="a trace counts when a writer had to wait for credit at least once (and the fair run-to-quiescence then had to complete it)",
    ),
    "C05": dict(
        title="end-of-stream exactly when the peer finished",
        mc=dict(quick=["MC_Close_q"], thorough=["MC_Close", "MC_Reuse"]),
        needs=["AShutdown", "ADropStream", "ARead", "TDrop"],
        # `fault`: end-of-stream "only after ... the connection has ended" -- reads of streams that outlive the connection,
        # attempted while the task is still winding down
        sims=dict(quick=[("close", 160, 90), ("fault", 120, 80)], thorough=[("close", 3000, 140), ("all", 1000, 160), ("fault", 2500, 120)]),
        nontrivial=lambda r: r.get("ev") == "read" and r.get("res") == "eof",
        rule="a trace counts when some read reported end-of-stream",
    ),
    "C06": dict(
        title="abort is clean, ids released, nothing leaks into a re-used id",
        mc=dict(quick=["MC_Close_q", "MC_Reuse_q"], thorough=["MC_Close", "MC_Reuse"]),
        needs=["ADropStream", "TDrop", "AOpenStart"],
        sims=dict(quick=[("close", 160, 90)], thorough=[("close", 3000, 140), ("open", 1500, 140)]),
        nontrivial=lambda r: r.get("ev") == "drop",
        rule="a trace counts when the application dropped at least one stream",
    ),
    "C07": dict(
        title="stream opening",
        mc=dict(quick=["MC_Open_q", "MC_Cancel_q"], thorough=["MC_Open", "MC_Cancel"]),
        needs=["AOpenStart", "AOpenPoll", "AAccept"],
        sims=dict(quick=[("open", 160, 90)], thorough=[("open", 3000, 140), ("all", 1000, 160)]),
        nontrivial=lambda r: r.get("ev") in ("open", "open_poll") and len(r.get("draws", [])) > 1,
        rule="a trace counts when the id generator had to skip a zero or in-use id, i.e. a collision was forced",
    ),
    "C08": dict(
        title="connection end resolves everything, local drop flushes",
        mc=dict(quick=["MC_Teardown_q"], thorough=["MC_Teardown", "MC_TeardownLive_q", "MC_Ka"]),
        needs=["AFault", "ADropMux", "TWd"],
        sims=dict(quick=[("fault", 220, 80), ("ka", 40, 70)], thorough=[("fault", 5000, 120), ("all", 1000, 160), ("ka", 1500, 90)]),
        nontrivial=lambda r: r.get("ev") in ("fault", "drop_mux") or (r.get("ev") == "inject" and r.get("m", {}).get("op") == "close")
                             or (r.get("ev") == "task" and r.get("res") == "keepalive"),
        rule="a trace counts when a transport fault, a peer Close or a drop of the Multiplexor was injected, or the keepalive expired",
    ),
    "C10": dict(
        title="misbehaving peer",
        mc=dict(quick=["MC_Adv_q"], thorough=["MC_Adv"]),
        needs=["AAdv", "TRecv"],
        sims=dict(quick=[("adv", 200, 70)], thorough=[("adv", 5000, 100)]),
        nontrivial=lambda r: r.get("ev") == "inject",
        rule="a trace counts when the scripted raw peer injected at least one frame",
    ),
    "C11": dict(
        title="datagram service",
        mc=dict(quick=["MC_Dgram_q"], thorough=["MC_Dgram"]),
        needs=["ASendDgram", "AGetDgram", "TRecv"],
        sims=dict(quick=[("dgram", 160, 90)], thorough=[("dgram", 3000, 140), ("all", 1000, 160)]),
        nontrivial=lambda r: r.get("ev") == "dg_get" and r.get("res") == "ok",
        rule="a trace counts when a datagram was delivered to the receiving application",
    ),
    "C13": dict(
        title="the stream-to-socket bridge",
        mc=dict(quick=["MC_Bridge_q"], thorough=["MC_Bridge"]),
        needs=["ABridgeStart", "ABridgePoll", "TRecv", "TSend"],
        sims=dict(quick=[("bridge", 200, 90)], thorough=[("bridge", 5000, 140)]),
        nontrivial=lambda r: r.get("ev") == "bridge_poll" and (r.get("lc", 0) > 0 or len(r.get("lw", [])) > 0),
        rule="a trace counts when a bridge relayed bytes in at least one direction",
    ),
    "C15": dict(
        title="bind requests",
        mc=dict(quick=["MC_Bind_q", "MC_Cancel_q"], thorough=["MC_Bind", "MC_Cancel"]),
        needs=["ABindStart", "ABindPoll", "ANextBind", "ABindReply"],
        sims=dict(quick=[("bind", 160, 90)], thorough=[("bind", 3000, 140), ("all", 1000, 160)]),
        nontrivial=lambda r: r.get("ev") in ("bind", "bind_poll") and r.get("res") in ("true", "false"),
        rule="a trace counts when a bind request resolved with the peer's decision",
    ),
}

INVARIANT_PROPERTY = {
    "AckSound": {"C03"}, "QueueBound": {"C03"}, "InitialCredit": {"C07", "C03"}, "DoneResolved": {"C08"},
    "ExactlyOne": {"C07"}, "TargetCarried": {"C07"}, "BoundedRetry": {"C07"}, "Released": {"C06"},
}


# the message a diverging (or panicking) task poll received tells which service the divergence is about
RCV_PROPERTY = {"ping": {"C16"}, "pong": {"C16"}, "dgram": {"C11"}, "bind": {"C15"}, "connect": {"C07"}, "push": {"C02", "C03"}, "ack": {"C03", "C04"},
                "finish": {"C05"}, "reset": {"C05", "C06"}, "junk": {"C10"}}


def attribute(f):
    """Which properties does this failing trace speak about?  A set of property ids; empty = unknown.
    Based on the first divergence only: the unmatched event, what the specification expected instead,
    or the monitor that fired."""
    props = set()
    if f.get("invariant"):
        if f["invariant"] == "NoViolation" and f.get("flags"):
            for fl in f["flags"].split(","):
                fl = fl.strip().strip('"')
                if "." in fl:
                    props.add(fl.split(".")[0])
        props |= INVARIANT_PROPERTY.get(f["invariant"], set())
        return props
    u = f.get("unmatched")
    if not isinstance(u, dict):
        return props
    ev = u.get("ev")
    exp = f.get("expected") or []
    exp_res = {x.get("res") for x in exp}
    res = u.get("res")
    if ev in ("panic", "hang"):
        cmd = u.get("cmd", {}).get("op", "")
        props |= {"C10"} if cmd in ("task",) else set()
        rop = (u.get("rcv") or {}).get("op")
        props |= RCV_PROPERTY.get(rop, set())
        return props  # empty => every check that sees it reports it
    if ev == "write":
        if res == "pending":
            props |= {"C03", "C04", "C07"}
        elif res == "ok" and "pending" in exp_res:
            props |= {"C03", "C07"}
        elif res == "ok" and "broken" in exp_res:
            props |= {"C05", "C06", "C08", "C10"}
        elif res == "broken":
            props |= {"C05", "C06", "C02", "C10"}
        else:
            props |= {"C02", "C03", "C05"}
    elif ev == "read":
        if res == "eof":
            props |= {"C05", "C06", "C10", "C02"}
        elif res == "data":
            props |= {"C02"}
            if "eof" in exp_res or "pending" in exp_res:
                props |= {"C05", "C06"}
        elif res == "pending":
            if "eof" in exp_res:
                props |= {"C05", "C06", "C08"}
            else:
                props |= {"C02", "C04"}
        else:
            props |= {"C02", "C05"}
    elif ev in ("open", "open_poll", "accept"):
        props |= {"C07"}
        if res == "closed" or "closed" in exp_res:
            props |= {"C08"}
        if ev == "accept":
            # the stream the specification hands over here was already written to / finished / aborted by the peer while it
            # waited in the accept queue: not handing it over (or handing over another one) loses what the peer's abort or
            # shutdown owes the acceptor (delivered data, then end-of-stream): C06, C05
            try:
                hs = (f.get("laststate") or {}).get("hnd", {}).get(u.get("e"), [])
                for x in exp:
                    if x.get("res") == "ok" and x.get("h"):
                        hv = hs[str(x["h"])] if isinstance(hs, dict) else hs[int(x["h"]) - 1]
                        if hv.get("closedW") or hv.get("inq") or hv.get("finQ") or hv.get("eof") not in (None, "none"):
                            props |= {"C06", "C05"}
            except Exception:
                pass
    elif ev in ("shutdown", "drop"):
        props |= {"C05", "C06"}
    elif ev in ("dg_send", "dg_get"):
        props |= {"C11"}
        if res == "closed" or "closed" in exp_res:
            props |= {"C08"}
    elif ev in ("bind", "bind_poll", "next_bind", "bind_reply", "bind_drop"):
        props |= {"C15"}
        if res == "closed" or "closed" in exp_res:
            props |= {"C08"}
    elif ev in ("bridge_start", "bridge_poll", "bridge_drop"):
        props |= {"C13"}
    elif ev == "cancel":
        props |= {"C07", "C15"}
    elif ev == "drop_mux":
        props |= {"C08"}
    elif ev == "quiesce":
        props |= {"C08", "C04"}
    elif ev == "take":
        props |= {"C10"}
    elif ev == "advance":
        props |= {"C16"}
    elif ev == "task":
        sent = [(m.get("op"), m.get("id"), m.get("n"), m.get("len")) for m in u.get("sent", [])]
        cands = []
        for x in exp:
            cands.append([(m.get("op"), m.get("id"), m.get("n"), m.get("len")) for m in x.get("sent", [])])
        diff_ops = set()
        diff_ids = set()
        for c in cands or [[]]:
            n = max(len(c), len(sent))
            for i in range(n):
                a = c[i] if i < len(c) else None
                b = sent[i] if i < len(sent) else None
                if a != b:
                    diff_ops.add((a or b)[0])
                    diff_ids.add((a or b)[1])
                    if a and b:
                        diff_ops.add(b[0])
                        diff_ids.add(b[1])
                    break
        # a differing frame on a flow id that belongs to a bind request speaks about C15
        ls = f.get("laststate") or {}
        try:
            for ep in ("A", "B"):
                slots = ls.get("slot", {}).get(ep, {})
                items = slots.items() if isinstance(slots, dict) else enumerate(slots, 1)
                for k, v in items:
                    if int(k) in diff_ids and v.get("k") == "Bind":
                        props.add("C15")
                for q in list(ls.get("bindq", {}).get(ep, [])) + list(ls.get("breq", {}).get(ep, [])):
                    if q.get("id") in diff_ids:
                        props.add("C15")
                # a differing frame of a stream that is driven by the bridge speaks about C13 as well
                hnds = ls.get("hnd", {}).get(ep, [])
                for hv in (hnds.values() if isinstance(hnds, dict) else hnds):
                    if hv.get("st") == "bridge" and hv.get("id") in diff_ids:
                        props.add("C13")
        except Exception:
            pass
        for op in diff_ops:
            props |= {"ack": {"C03", "C04"}, "push": {"C02", "C03", "C05"}, "reset": {"C06", "C10", "C05", "C07", "C03"},
                      "finish": {"C05", "C15", "C06"}, "connect": {"C07"}, "dgram": {"C11"}, "bind": {"C15"},
                      "close": {"C08"}, "ping": {"C16"}, "pong": {"C16"}}.get(op, set())
        # a task that gives up (or should have given up) because of the keepalive
        if res == "keepalive" or "keepalive" in exp_res:
            props |= {"C16", "C08"}
        # the message this poll received tells which service the divergence is about
        rop = (u.get("rcv") or {}).get("op")
        props |= RCV_PROPERTY.get(rop, set())
        if res != "pending" or (exp_res and exp_res != {"pending"}):
            if res not in exp_res:
                props |= {"C08", "C10"}
        if not diff_ops and res in exp_res:
            # same frames, same result: the difference is in the wake-ups or in what was received
            props |= {"C04", "C08", "C12"}
    return props


def _sim_bin(release=False):
    d = vlib.build_harness(["mux_sim"], release=release)
    return os.path.join(d, "mux_sim")


def _gen(bin_path, mode, seed, count, steps, out):
    rc, o = vlib.run([bin_path, "random", mode, str(seed), str(count), str(steps), out], timeout=3600)
    if rc == 3:
        # the watchdog fired: one step of the code under test never returned; the partial trace ends in
        # a `hang` event, which no action of the specification matches
        log("[sim] watchdog: a step of the code under test did not return (hang)")
        return
    if rc != 0:
        log(o[-3000:])
        raise ToolError(f"mux_sim failed (mode {mode})")


def flood_schedules(tier, prop):
    """Deterministic high-volume schedules (see 2c' in mux_check)."""
    out = []
    small = dict(rwnd=2, thr=2, acceptCap=1, dgCap=1, bindCap=0, retries=1)
    def burst(n):
        cmds = [dict(op="dg_send", e="A", id=k % 3, host="h", port=k % 65536, data="d%d" % k) for k in range(n)]
        for k in range(n + 4):
            cmds += [dict(op="task", e="A", gr=1, gs=1), dict(op="task", e="B", gr=1, gs=1), dict(op="dg_get", e="B")]
        cmds.append(dict(op="quiesce", lazy=False))
        return dict(cfg=dict(A=small, B=dict(small, dgCap=n + 100)), real=2, cmds=cmds)
    def mixed(nstreams, per, ndg):
        big = dict(rwnd=512, thr=256, acceptCap=4, dgCap=64, bindCap=0, retries=1)
        cmds = []
        for c in range(1, nstreams + 1):
            cmds.append(dict(op="open", e="A", c=c, host="h%d" % c, port=7, draws=[c]))
        for _ in range(3 * nstreams):
            cmds += [dict(op="task", e="A", gr=1, gs=1), dict(op="task", e="B", gr=1, gs=1)]
        for c in range(1, nstreams + 1):
            cmds += [dict(op="open_poll", e="A", c=c), dict(op="accept", e="B")]
        for k in range(ndg):
            cmds.append(dict(op="dg_send", e="A", id=9, host="g", port=k, data="m%d" % k))
        for k in range(per):
            for c in range(1, nstreams + 1):
                cmds.append(dict(op="write", e="A", h=c, len=1))          # handles are named 1..n in the order they were obtained
        for k in range(ndg + per * nstreams + 8):
            cmds += [dict(op="task", e="A", gr=1, gs=1), dict(op="task", e="B", gr=1, gs=1)]
            if k < ndg + 2:
                cmds.append(dict(op="dg_get", e="B"))
        cmds.append(dict(op="quiesce", lazy=False))
        return dict(cfg=dict(A=big, B=big), real=2, cmds=cmds)
    if prop == "C11":
        out.append(burst(1050))
        if tier == "thorough":
            out += [burst(2100)]
    # mixed(3, 400, 16) -- datagrams ahead of 1 200 queued Push frames with the default window -- executes in a second but its
    # validation takes TLC more than 20 minutes (the state record carries four queues of several hundred frames): not wired
    return out


def known_for(prop):
    return [k for k in vlib.load_known() if k.get("property") == prop and k.get("status") == "open"]


def mux_check(prop, tier, seed, replay):
    P = MUX[prop]
    t0 = time.time()
    if replay and prop == "C10":
        # a replay file of the adapter leg (lines of ws_vec scripts) goes to that family
        try:
            first = json.loads(open(replay).readline())
        except Exception:
            first = {}
        if "steps" in first and "role" in first:
            import fam_ws
            return fam_ws.check(prop, tier, seed, replay)
    subprocess.run(["python3", os.path.join(vlib.VERIF, "tools", "gen_cfgs.py")], check=True, stdout=subprocess.DEVNULL)
    bin_path = _sim_bin()
    work = tempfile.mkdtemp(prefix=f"{prop}_", dir=vlib.WORK)
    violations = []        # (replay path, description)
    other = []             # non-conformances attributed to other properties
    kf_seen = set()
    states = transitions = 0
    mc_runs = []
    traces_ok = 0
    evaluations = 0
    hashes_nontrivial = set()
    samples = []
    api_hits = 0
    try:
        if replay:
            # re-execute one recorded trace's schedule on the current tree and validate it
            sched = os.path.join(work, "replay.json")
            with open(sched, "w") as f:
                subprocess.run(["python3", os.path.join(vlib.VERIF, "tools", "trace2sched.py"), replay], stdout=f, check=True)
            out = os.path.join(work, "replay.ndjson")
            rc, o = vlib.run([bin_path, "script", sched, out], timeout=600)
            if rc != 0:
                raise ToolError("mux_sim script failed: " + o[-500:])
            batches = [("replay", out)]
        else:
            # 1. the design: exhaustive model checking of the configurations of this property
            for cfg in P["mc"][tier]:
                if not os.path.exists(os.path.join(vlib.SPEC, cfg + ".cfg")):
                    raise ToolError(f"missing configuration {cfg}")
                module = "MC_Live" if cfg.startswith("MC_Live") else "MC_Mux"
                r = vlib.model_check(module, cfg, workers=10, timeout=3000 if tier == "thorough" else 1800)
                if not r["ok"]:
                    log(r["out"][-3000:])
                    raise ToolError(f"specification configuration {cfg} violates {r['violated']} (design-level counterexample: triage the specification)")
                for a in P["needs"]:
                    if module == "MC_Mux" and r["coverage"].get(a, (0, 0))[1] == 0 and not cfg.startswith("MC_CoreAny"):
                        if a in ("AShutdown", "ADropStream", "TDrop", "AOpenStart", "AFault", "ADropMux", "TWd", "AAdv") and r["coverage"].get(a) is None:
                            continue
                        raise ToolError(f"vacuous run: action {a} never taken in {cfg}")
                states += r["distinct"]
                transitions += r["states"]
                mc_runs.append(dict(config=cfg, distinct_states=r["distinct"], states_generated=r["states"], wall_s=round(r["wall"], 1)))
                log(f"[mc] {cfg}: {r['distinct']} distinct states, {r['states']} generated, {r['wall']:.1f}s, all invariants hold")
            # 1b. C03, unbounded: Apalache proves the credit-conservation invariant of spec/apalache/Credit.tla
            #     inductive for ALL windows W and thresholds T (no bound on the number of frames)
            if prop == "C03" and tier == "thorough":
                ap = os.path.join(vlib.SPEC, "apalache")
                runs = [["--init=Init", "--inv=IndInv", "--length=0"], ["--init=IndInit", "--inv=IndInv", "--length=1"],
                        ["--init=IndInit", "--inv=NoOverrun", "--length=0"], ["--init=IndInit", "--inv=AckSound", "--length=0"]]
                for extra in runs:
                    outdir = os.path.join(work, "apalache")
                    rc, o = vlib.run(["apalache-mc", "check", "--cinit=ConstInit", f"--out-dir={outdir}", *extra, "Credit.tla"], timeout=900, cwd=ap)
                    if "EXITCODE: OK" not in o:
                        log(o[-1500:])
                        raise ToolError("Apalache did not discharge " + " ".join(extra))
                mc_runs.append(dict(config="apalache Credit.tla", obligations=4, discharged=4,
                                    note="IndInv holds initially, is inductive, and implies NoOverrun and AckSound, for all W >= T >= 1"))
                log("[apalache] Credit.tla: inductive invariant proved for all W, T (4 obligations)")
            # 2. the implementation: harness-random schedules executed on the real code
            batches = []
            for k, (mode, count, steps) in enumerate(P["sims"][tier]):
                out = os.path.join(work, f"{mode}_{k}.ndjson")
                _gen(bin_path, mode, seed * 7919 + k, count, steps, out)
                batches.append((mode, out))
            # 2b. specification -> implementation replay: behaviours of the specification (TLC simulation of
            #     MC_MuxSched.tla at the grain of the simulator) executed as schedules on the real code
            if prop in ("C02", "C03", "C04", "C05", "C06", "C07", "C08", "C10", "C11", "C13", "C15"):
                import tlc_sched
                nb = 120 if tier == "quick" else 2500
                scfg = {"C13": "MC_MuxSched_bridge.cfg", "C15": "MC_MuxSched_bind.cfg", "C11": "MC_MuxSched_dgram.cfg",
                        "C10": "MC_MuxSched_adv.cfg"}.get(prop, "MC_MuxSched.cfg")
                if prop in ("C13", "C15", "C10"):
                    nb = 40 if tier == "quick" else 1200
                if prop == "C11":
                    nb = 50 if tier == "quick" else 1500
                # a different simulation seed per property: the checks of the family explore different behaviours
                sch, nstates = tlc_sched.schedules(nb, 70, seed * 37 + int(prop[1:]), cfg=scfg)
                if not sch:
                    raise ToolError("TLC simulation produced no schedules")
                sj = os.path.join(work, "tlc_sched.json")
                json.dump(sch, open(sj, "w"))
                out = os.path.join(work, "tlc_sched.ndjson")
                rc, o = vlib.run([bin_path, "script", sj, out], timeout=3000)
                if rc not in (0, 3):
                    raise ToolError("mux_sim script failed on TLC-generated schedules: " + o[-400:])
                states += nstates
                transitions += nstates
                mc_runs.append(dict(config="MC_MuxSched (simulation)", behaviours=nb, schedules=len(sch), states_generated=nstates))
                batches.append(("tlc-sched", out))
            # 2b'. C08: the keepalive as a cause -- specification behaviours in which time passes (MC_MuxSched_ka.cfg)
            if prop == "C08":
                import tlc_sched
                sch, nstates = tlc_sched.schedules(40 if tier == "quick" else 800, 70, seed * 41 + 5, cfg="MC_MuxSched_ka.cfg")
                if not sch:
                    raise ToolError("TLC simulation produced no schedules (ka)")
                sj = os.path.join(work, "tlc_sched_ka.json")
                json.dump(sch, open(sj, "w"))
                out = os.path.join(work, "tlc_sched_ka.ndjson")
                rc, o = vlib.run([bin_path, "script", sj, out], timeout=3000)
                if rc not in (0, 3):
                    raise ToolError("mux_sim script failed on TLC-generated schedules (ka): " + o[-400:])
                transitions += nstates
                mc_runs.append(dict(config="MC_MuxSched_ka (simulation)", schedules=len(sch), states_generated=nstates))
                batches.append(("tlc-sched-ka", out))
            # 2b''. C05 / C06 (and C02 in the thorough tier): one implementation test per NODE of the bounded state graph at
            #     the simulator's grain -- breadth-first model checking of MC_MuxSched.tla in cover mode prints a shortest
            #     schedule for every distinct (command, resulting abstract state); the maximal ones are executed
            if prop in ("C05", "C06") or (prop == "C02" and tier == "thorough"):
                import tlc_sched
                sch, nodes, _ = tlc_sched.cover_schedules("MC_MuxCover_q.cfg" if tier == "quick" else "MC_MuxCover.cfg", workers=10)
                if nodes < 1000 or not sch:
                    raise ToolError("vacuous cover: too few nodes")
                sj = os.path.join(work, "cover.json")
                json.dump(sch, open(sj, "w"))
                out = os.path.join(work, "cover.ndjson")
                rc, o = vlib.run([bin_path, "script", sj, out], timeout=3000)
                if rc not in (0, 3):
                    raise ToolError("mux_sim script failed on the cover schedules: " + o[-400:])
                states += nodes
                transitions += nodes
                mc_runs.append(dict(config="MC_MuxSched cover mode (breadth-first)", nodes_command_x_state=nodes, schedules=len(sch)))
                batches.append(("tlc-cover", out))
            # 2c. C08: fault enumeration -- every end-of-connection cause at every k-th prefix of fault-free
            #     specification behaviours, on each endpoint, followed by a run to quiescence
            if prop == "C08":
                import tlc_sched
                bases, nst = tlc_sched.schedules(6 if tier == "quick" else 60, 45, seed + 1, cfg="MC_MuxSched_nofault.cfg")
                bases = bases[: (4 if tier == "quick" else 40)]
                fe = tlc_sched.fault_enumeration(bases, step=3 if tier == "quick" else 1)
                sj = os.path.join(work, "fault_enum.json")
                json.dump(fe, open(sj, "w"))
                out = os.path.join(work, "fault_enum.ndjson")
                rc, o = vlib.run([bin_path, "script", sj, out], timeout=3000)
                if rc not in (0, 3):
                    raise ToolError("mux_sim script failed on the fault enumeration: " + o[-400:])
                mc_runs.append(dict(config="fault enumeration", base_schedules=len(bases), schedules=len(fe)))
                batches.append(("fault-enum", out))
            # 2c'. volume: queues far longer than any schedule above builds (a threshold on a queue length -- "drop datagrams
            #     once more than 1024 messages wait", a counter that wraps -- is invisible to schedules of a few dozen steps).
            #     Deterministic scripts: a burst of N datagrams before the task runs, then everything drained one message
            #     per poll
            if prop == "C11":
                fl = flood_schedules(tier, prop)
                sj = os.path.join(work, "flood.json")
                json.dump(fl, open(sj, "w"))
                out = os.path.join(work, "flood.ndjson")
                rc, o = vlib.run([bin_path, "script", sj, out], timeout=3000)
                if rc not in (0, 3):
                    raise ToolError("mux_sim script failed on the volume schedules: " + o[-400:])
                mc_runs.append(dict(config="volume schedules (bursts beyond 1024 queued messages)", schedules=len(fl),
                                    commands=sum(len(x["cmds"]) for x in fl)))
                batches.append(("volume", out))
            # 2d. the directed schedules of the open known findings of this property (so that each is met in every run)
            for k in known_for(prop):
                if k.get("schedule"):
                    out = os.path.join(work, f"finding_{k['id']}.ndjson")
                    rc, o = vlib.run([bin_path, "script", os.path.join(vlib.VERIF, k["schedule"]), out], timeout=600)
                    if rc not in (0, 3):
                        raise ToolError(f"mux_sim script failed on {k['schedule']}: " + o[-400:])
                    batches.append((f"finding-{k['id']}", out))
        # 3. every trace is validated by TLC against the trace specification
        for mode, out in batches:
            r = vlib.validate_batch("MuxTrace", "MuxTrace", out, timeout=3000)
            evaluations += r["traces"]
            traces_ok += r["accepted"]
            kf_seen |= r["kf"]
            for lines in r["all_lines"]:
                nt = False
                for l in lines:
                    try:
                        rec = json.loads(l)
                    except Exception:
                        continue
                    if P["nontrivial"](rec):
                        nt = True
                        break
                if nt:
                    hashes_nontrivial.add(vlib.trace_hash(lines))
                    if len(samples) < 2:
                        samples.append(dict(mode=mode, events=[json.loads(x) for x in lines[:12]], total_events=len(lines)))
            log(f"[trace] mode={mode}: {r['traces']} traces, {r['accepted']} accepted by TLC, {len(r['failures'])} rejected")
            elsewhere = []
            for f in r["failures"]:
                props = attribute(f)
                desc = vlib.describe_failure(f)
                if prop in props or not props:
                    path = vlib.save_replay(prop, mode, f["lines"], note=desc)
                    violations.append((path, desc))
                else:
                    elsewhere.append((f, props))
            # A trace whose FIRST divergence speaks about other properties may still violate this one further on (a defect
            # in shared machinery -- the send path, the transport handling -- surfaces at whatever frame comes first).  The
            # whole trace is therefore judged once more against the application-level contract (spec/MuxApi.tla).
            if elsewhere:
                api = vlib.api_oracle([f["lines"] for f, _ in elsewhere])
                for (f, props), hits in zip(elsewhere, api):
                    mine = [(ln, sorted(v)) for ln, v in hits if any(x.split(".")[0] == prop for x in v)]
                    if mine:
                        ln, names = mine[0]
                        desc = (f"application-level contract (spec/MuxApi.tla) violated at line {ln} of the trace: {', '.join(names)}; "
                                f"the trace had stopped conforming to PenguinMux earlier:\n" + vlib.describe_failure(f))
                        path = vlib.save_replay(prop, mode + "_api", f["lines"], note=desc)
                        violations.append((path, desc))
                        api_hits += 1
                    else:
                        other.append(dict(mode=mode, attributed_to=sorted(props), first_divergence=f.get("unmatched"),
                                          api_level_clauses_violated=sorted({x for _, v in hits for x in v})))
        # C03 quantifies over every schedule: the race of a writer thread with the connection task granting credit cannot
        # occur in the hand-polled simulator; loom enumerates it on the real code and TLC validates every execution
        # (the machinery of C12); an execution in which credit is not conserved speaks about C03 as well
        # C04 as well: a unit of credit lost in that race is never returned (the peer has acknowledged everything it
        # consumed), so the writer ends up waiting for ever although the receiving application keeps reading
        loom_c03 = None
        if prop in ("C03", "C04") and not replay:
            import fam_wake
            n_exec, badrecs = fam_wake.credit_executions(tier, work, lost_only=(prop == "C04"))
            loom_c03 = dict(loom_executions=n_exec, credit_not_conserved=len(badrecs))
            evaluations += n_exec
            traces_ok += n_exec - len(badrecs)
            log(f"[loom] {n_exec} executions of the real writer / acknowledge race validated by TLC (WakeTrace), credit not conserved in {len(badrecs)}")
            for rec in badrecs[:5]:
                path = vlib.save_replay(prop, "loom_" + str(rec.get("sc", "x")), [json.dumps(rec) + "\n"],
                                        note="loom execution of the real code in which the credit is not conserved (WriterWakeDefs.Contract, first clause)"
                                        if prop == "C03" else "loom execution of the real code in which a unit of credit is lost or the waiting writer is not woken although it could proceed: the writer stalls")
                violations.append((path, ("credit not conserved" if prop == "C03" else "credit lost / writer left sleeping") + " in loom execution " + json.dumps(rec)))
        # Second leg "threads" (C02..C06): the application's calls race with the connection tasks for real (two real
        # multiplexors on a multi-thread runtime; a stream dropped from a blocking thread while the peer reads, half-close
        # from both ends at once, bursts beyond the window against a reader with pauses).  The driver reports what it
        # observed; TLC decides every iteration against the contracts of spec/MuxStressDefs.tla.
        threads = None
        if prop in ("C02", "C03", "C04", "C05", "C06") and not replay:
            sbin = os.path.join(vlib.build_harness(["mux_stress"]), "mux_stress")
            iters = 250 if tier == "quick" else 6000
            sout = os.path.join(work, "stress.ndjson")
            rc, o = vlib.run([sbin, str(seed * 101 + int(prop[1:])), str(iters), sout], timeout=3000)
            if rc != 0:
                raise ToolError("mux_stress failed: " + o[-400:])
            rv = vlib.validate_once("StressTrace", "StressTrace", sout, timeout=900, raw=True)
            import re as _re
            ms = _re.search(r'<<"STRESS", (\d+), "(.*)">>', rv["out"])
            if not ms:
                log(rv["out"][-2000:])
                raise ToolError("StressTrace did not run to the end")
            nrec = int(ms.group(1))
            badrecs = json.loads(ms.group(2).encode().decode("unicode_escape"))
            slines = open(sout).read().splitlines(keepends=True)
            mine = [b for b in badrecs if any(x.split(".")[0] in (prop, "Stress") for x in b["viol"])]
            threads = dict(iterations=nrec, scenarios=["abort", "abort_buf", "halfclose", "flow"], rejected=len(badrecs), rejected_speaking_about_this_property=len(mine))
            evaluations += nrec
            traces_ok += nrec - len(badrecs)
            log(f"[threads] {nrec} iterations on a multi-thread runtime validated by TLC (StressTrace), {len(badrecs)} rejected")
            for b in mine[:5]:
                desc = f"threaded stress iteration violates {sorted(b['viol'])}: {slines[b['line'] - 1].strip()}"
                path = vlib.save_replay(prop, "threads", [slines[b["line"] - 1]], note=desc)
                violations.append((path, desc))
        # Leg "adapter" (C10; its anchor penguin-mux/src/ws.rs): the simulator implements the `WebSocket` trait itself, so the
        # adapter the applications really use -- `impl WebSocket for tokio_tungstenite::WebSocketStream` and the two message
        # conversions -- is driven by its own family: spec/WsAdapter.tla (contract of the adapter over abstract RFC 6455
        # messages), TLC-enumerated and random scripts against a hand-written RFC 6455 peer, TLC validates every line
        ws = None
        if prop == "C10" and not replay:
            import fam_ws
            wr = fam_ws.leg(prop, tier, seed)
            ws = wr["coverage"]
            evaluations += ws.get("scripts_validated", 0)
            traces_ok += ws.get("scripts_validated", 0) - ws.get("scripts_rejected", 0)
            states += ws.get("states", 0)
            transitions += ws.get("transitions", 0)
            log(f"[ws-adapter] {ws.get('scripts_from_tlc')} scripts from TLC + {ws.get('random_scripts')} random, as server and as client: "
                f"{ws.get('scripts_validated')} script runs / {ws.get('lines_validated')} lines validated by TLC (WsAdapterTrace), {ws.get('scripts_rejected')} rejected")
            for path, sig, n in wr["violations"]:
                violations.append((path, f"WebSocket adapter (penguin-mux/src/ws.rs) violates its contract (spec/WsAdapter.tla): signature {sig}, {n} scripts"))
        wall = time.time() - t0
        # verdict
        for k in known_for(prop):
            if k.get("kf") in kf_seen:
                print(f"KNOWN-FINDING: property={prop} {k['what']}")
        for path, desc in violations:
            log(desc)
        coverage = dict(
            states=states, transitions=transitions, traces_validated_against_impl=traces_ok,
            evaluations=evaluations, distinct_nontrivial=len(hashes_nontrivial), rule=P["rule"],
            samples=samples or [dict(note="no non-trivial trace in this run")],
            model_checking_runs=mc_runs, exhaustive=False,
            known_limitations_met=sorted(kf_seen), violations_found_by_the_application_level_oracle=api_hits,
            **({"loom_credit_race": loom_c03} if loom_c03 else {}),
            **({"threaded_stress": threads} if threads else {}),
            **({"websocket_adapter_leg": ws} if ws else {}),
            nonconformance_attributed_to_other_properties=other[:10],
            explanation="TLC exhaustively checks the listed MC_* configurations of spec/PenguinMux.tla (design level); the simulator "
                        "executes harness-random schedules on the real penguin-mux code and TLC validates every recorded trace against "
                        "spec/MuxTrace.tla with all monitors as invariants",
        )
        if not replay:
            vlib.write_evidence(prop, tier, seed, coverage, wall, len(violations), assumptions=[
                "the in-memory WebSocket of the harness delivers messages reliably and in order per direction",
                "one poll of the connection task is atomic with respect to application calls (hand-polled executor)",
                "model checking is bounded by the constants of the listed configurations",
            ])
        if violations:
            for path, _ in violations[:5]:
                print(f"VIOLATION property={prop} replay={path}")
            return 1
        log(f"{prop} held on everything explored ({wall:.0f}s)")
        return 0
    finally:
        shutil.rmtree(work, ignore_errors=True)


def ka_leg(tier, seed, work):
    """C16, second leg: the keepalive inside the full multiplexor -- two real endpoints with streams and datagrams in use,
    virtual time, a peer that is no longer polled from some point on (a dead peer behind a healthy transport), the Pong
    produced by the transport of the real peer.  MC_Ka* (design), harness-random `ka` schedules and TLC-generated schedules
    with time steps; every trace is validated against MuxTrace (PenguinMux.KaStep is the tick-based detector of the code).
    Returns (model-checking runs, traces, accepted, failures that speak about C16 as (lines, description))."""
    import tlc_sched
    subprocess.run(["python3", os.path.join(vlib.VERIF, "tools", "gen_cfgs.py")], check=True, stdout=subprocess.DEVNULL)
    bin_path = _sim_bin()
    cfg = "MC_Ka_q" if tier == "quick" else "MC_Ka"
    r = vlib.model_check("MC_Mux", cfg, workers=10, timeout=3000)
    if not r["ok"]:
        log(r["out"][-3000:])
        raise ToolError(f"specification configuration {cfg} violates {r['violated']} (design-level counterexample: triage the specification)")
    for a in ("TKa", "ATime"):
        if r["coverage"].get(a, (0, 0))[1] == 0:
            raise ToolError(f"vacuous run: action {a} never taken in {cfg}")
    mc = [dict(config=cfg, distinct_states=r["distinct"], states_generated=r["states"], wall_s=round(r["wall"], 1))]
    log(f"[mc] {cfg}: {r['distinct']} distinct states, {r['states']} generated, {r['wall']:.1f}s, all invariants hold")
    batches = []
    out = os.path.join(work, "ka_random.ndjson")
    _gen(bin_path, "ka", seed * 7919 + 16, 120 if tier == "quick" else 4000, 80, out)
    batches.append(("mux-ka", out))
    sch, nstates = tlc_sched.schedules(40 if tier == "quick" else 1500, 70, seed * 43 + 16, cfg="MC_MuxSched_ka.cfg")
    if not sch:
        raise ToolError("TLC simulation produced no schedules (ka)")
    sj = os.path.join(work, "ka_sched.json")
    json.dump(sch, open(sj, "w"))
    out2 = os.path.join(work, "ka_sched.ndjson")
    rc, o = vlib.run([bin_path, "script", sj, out2], timeout=3000)
    if rc not in (0, 3):
        raise ToolError("mux_sim script failed on TLC-generated schedules (ka): " + o[-400:])
    mc.append(dict(config="MC_MuxSched_ka (simulation)", schedules=len(sch), states_generated=nstates))
    batches.append(("mux-ka-tlc", out2))
    traces = accepted = exits = 0
    fails = []
    for mode, path in batches:
        v = vlib.validate_batch("MuxTrace", "MuxTrace", path, timeout=3000)
        traces += v["traces"]
        accepted += v["accepted"]
        for lines in v["all_lines"]:
            if any('"res":"keepalive"' in l for l in lines):
                exits += 1
        log(f"[trace] mode={mode}: {v['traces']} traces, {v['accepted']} accepted by TLC, {len(v['failures'])} rejected")
        for f in v["failures"]:
            props = attribute(f)
            if "C16" in props or not props:
                fails.append((mode, f["lines"], vlib.describe_failure(f)))
    if exits == 0:
        raise ToolError("vacuous run: no keepalive expiry in the mux-level traces")
    return mc, traces, accepted, exits, fails


FAMILY = {p: mux_check for p in MUX}

# self-contained "reference function" families (TLA+ as executable reference + TLC-validated logs)
import fam_frame, fam_socks, fam_chain
FAMILY["C09"] = fam_frame.check
FAMILY["C18"] = fam_socks.check
FAMILY["C20"] = fam_chain.check
import fam_keepalive, fam_wake, fam_tls
FAMILY["C16"] = fam_keepalive.check
FAMILY["C12"] = fam_wake.check
FAMILY["C17"] = fam_tls.check
import fam_gate, fam_retry, fam_tunnel
FAMILY["C14"] = fam_gate.check
FAMILY["C19"] = fam_retry.check
FAMILY["C01"] = fam_tunnel.check
