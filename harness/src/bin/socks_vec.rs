//! C18 driver: executes SOCKS cases on the real `penguin_socks::{v4, v5}` functions and logs what it
//! observes as ndjson.  It never judges: TLC validates every logged line against spec/Socks.tla
//! (spec/SocksTrace.tla).
//!
//!   socks_vec cases <cases.ndjson> <out.ndjson>
//!       one JSON object per line, either a case printed by TLC (spec/MC_Socks.tla) or a line of an
//!       earlier log (replay):
//!         {"ev":"parse","fn":"v5_request"|"v5_methods"|"v4_request"|"udp_parse","input":[..]
//!          [,"mode":"eof"|"pend"][,"chunk":n]}
//!         {"ev":"build","fn":"udp_relay_response","atyp":1|4,"addr":[..],"port":p,"payload":[..]}
//!         {"ev":"build","fn":"v5_reply","rep":r,"atyp":1|4,"addr":[..],"port":p}
//!         {"ev":"build","fn":"v5_reply_unspec"|"v4_reply","rep":r}   {"ev":"build","fn":"v5_method","method":m}
//!       A stream-parse case without "mode" is run twice: mode "eof" (the reader yields the octets, then
//!       end of file) and mode "pend" (the reader yields the octets, then stays Pending for ever).
//!   socks_vec random <seed> <count> <out.ndjson>
//!       seeded random well-formed and mutated requests / datagrams / writer arguments.
//!
//! `v4::read_request` and `v5::read_auth_methods` are documented to be called after the caller has read
//! the version octet: for these ("skip":1) the first octet of `input` is taken off before the call and
//! logged; `consumed` counts the octets the function itself consumed from the reader.
use futures_util::task::noop_waker;
use penguin_socks::{v4, v5};
use rand::rngs::SmallRng;
use rand::{RngExt, SeedableRng};
use serde_json::{Value, json};
use std::future::Future;
use std::io::{BufRead, BufReader, BufWriter, Write};
use std::net::{IpAddr, Ipv4Addr, Ipv6Addr, SocketAddr, SocketAddrV4, SocketAddrV6};
use std::panic::{AssertUnwindSafe, catch_unwind};
use std::pin::Pin;
use std::task::{Context, Poll};
use tokio::io::{AsyncBufRead, AsyncRead, AsyncWrite, ReadBuf};

/// In-memory duplex: yields `data` in chunks of at most `chunk` octets, then end-of-file (`eof`) or
/// Pending for ever; collects what is written.
struct Mem {
    data: Vec<u8>,
    pos: usize,
    eof: bool,
    chunk: usize,
    written: Vec<u8>,
}

impl AsyncRead for Mem {
    fn poll_read(self: Pin<&mut Self>, _cx: &mut Context<'_>, buf: &mut ReadBuf<'_>) -> Poll<std::io::Result<()>> {
        let me = self.get_mut();
        if me.pos < me.data.len() {
            let n = buf.remaining().min(me.chunk).min(me.data.len() - me.pos);
            buf.put_slice(&me.data[me.pos..me.pos + n]);
            me.pos += n;
            Poll::Ready(Ok(()))
        } else if me.eof {
            Poll::Ready(Ok(()))
        } else {
            Poll::Pending
        }
    }
}

impl AsyncBufRead for Mem {
    fn poll_fill_buf(self: Pin<&mut Self>, _cx: &mut Context<'_>) -> Poll<std::io::Result<&[u8]>> {
        let me = self.get_mut();
        if me.pos < me.data.len() {
            let end = (me.pos + me.chunk).min(me.data.len());
            Poll::Ready(Ok(&me.data[me.pos..end]))
        } else if me.eof {
            Poll::Ready(Ok(&[]))
        } else {
            Poll::Pending
        }
    }
    fn consume(self: Pin<&mut Self>, amt: usize) {
        self.get_mut().pos += amt;
    }
}

impl AsyncWrite for Mem {
    fn poll_write(self: Pin<&mut Self>, _cx: &mut Context<'_>, buf: &[u8]) -> Poll<std::io::Result<usize>> {
        self.get_mut().written.extend_from_slice(buf);
        Poll::Ready(Ok(buf.len()))
    }
    fn poll_flush(self: Pin<&mut Self>, _cx: &mut Context<'_>) -> Poll<std::io::Result<()>> {
        Poll::Ready(Ok(()))
    }
    fn poll_shutdown(self: Pin<&mut Self>, _cx: &mut Context<'_>) -> Poll<std::io::Result<()>> {
        Poll::Ready(Ok(()))
    }
}

/// Poll by hand a bounded number of times with a waker that does nothing.
fn drive<F: Future>(fut: F) -> Option<F::Output> {
    let waker = noop_waker();
    let mut cx = Context::from_waker(&waker);
    let mut fut = std::pin::pin!(fut);
    for _ in 0..8 {
        if let Poll::Ready(v) = fut.as_mut().poll(&mut cx) {
            return Some(v);
        }
    }
    None
}

fn bytes_of(v: &Value) -> Vec<u8> {
    v.as_array()
        .map(|a| a.iter().map(|x| x.as_u64().unwrap_or(0) as u8).collect())
        .unwrap_or_default()
}

fn arr(b: &[u8]) -> Value {
    Value::Array(b.iter().map(|x| json!(*x)).collect())
}

/// textual IP address -> its octets; anything else -> empty
fn ip_octets(a: &[u8]) -> Vec<u8> {
    match std::str::from_utf8(a).ok().and_then(|s| s.parse::<IpAddr>().ok()) {
        Some(IpAddr::V4(x)) => x.octets().to_vec(),
        Some(IpAddr::V6(x)) => x.octets().to_vec(),
        None => vec![],
    }
}

fn skip_of(f: &str) -> usize {
    usize::from(f == "v5_methods" || f == "v4_request")
}

struct Parsed {
    res: &'static str,
    cmd: u8,
    addr: Vec<u8>,
    port: u16,
    data: Vec<u8>,
    consumed: usize,
    written: Vec<u8>,
}

impl Parsed {
    fn new(res: &'static str) -> Self {
        Self { res, cmd: 0, addr: vec![], port: 0, data: vec![], consumed: 0, written: vec![] }
    }
}

fn run_stream_parse(f: &str, body: &[u8], eof: bool, chunk: usize) -> Parsed {
    let r = catch_unwind(AssertUnwindSafe(|| {
        let mut mem = Mem { data: body.to_vec(), pos: 0, eof, chunk: chunk.max(1), written: vec![] };
        let mut p = match f {
            "v5_request" => match drive(v5::read_request(&mut mem)) {
                Some(Ok((cmd, addr, port))) => Parsed { cmd, addr, port, ..Parsed::new("ok") },
                Some(Err(_)) => Parsed::new("err"),
                None => Parsed::new("pending"),
            },
            "v4_request" => match drive(v4::read_request(&mut mem)) {
                Some(Ok((cmd, addr, port))) => Parsed { cmd, addr, port, ..Parsed::new("ok") },
                Some(Err(_)) => Parsed::new("err"),
                None => Parsed::new("pending"),
            },
            "v5_methods" => match drive(v5::read_auth_methods(&mut mem)) {
                Some(Ok(m)) => Parsed { data: m, ..Parsed::new("ok") },
                Some(Err(_)) => Parsed::new("err"),
                None => Parsed::new("pending"),
            },
            _ => Parsed::new("unknown_fn"),
        };
        p.consumed = mem.pos;
        p.written = mem.written;
        p
    }));
    r.unwrap_or_else(|_| Parsed::new("panic"))
}

fn run_udp_parse(input: &[u8]) -> Parsed {
    let r = catch_unwind(AssertUnwindSafe(|| {
        match v5::parse_udp_relay_header(bytes::Bytes::copy_from_slice(input)) {
            Ok((addr, port, data)) => Parsed {
                addr: addr.to_vec(),
                port,
                consumed: input.len() - data.len(),
                data: data.to_vec(),
                ..Parsed::new("ok")
            },
            Err(_) => Parsed::new("err"),
        }
    }));
    r.unwrap_or_else(|_| Parsed::new("panic"))
}

fn parse_line(f: &str, input: &[u8], mode: &str, chunk: usize, src: &str) -> Value {
    let skip = skip_of(f).min(input.len());
    let p = if f == "udp_parse" {
        run_udp_parse(input)
    } else {
        run_stream_parse(f, &input[skip..], mode == "eof", chunk)
    };
    json!({"ev": "parse", "fn": f, "mode": mode, "chunk": chunk, "src": src, "input": arr(input), "skip": skip,
           "res": p.res, "cmd": p.cmd, "addr": arr(&p.addr), "ip": arr(&ip_octets(&p.addr)), "port": p.port,
           "data": arr(&p.data), "consumed": p.consumed, "written": arr(&p.written)})
}

fn sockaddr(atyp: u64, addr: &[u8], port: u16) -> Option<SocketAddr> {
    match (atyp, addr.len()) {
        (1, 4) => Some(SocketAddr::V4(SocketAddrV4::new(Ipv4Addr::new(addr[0], addr[1], addr[2], addr[3]), port))),
        (4, 16) => {
            let mut o = [0u8; 16];
            o.copy_from_slice(addr);
            Some(SocketAddr::V6(SocketAddrV6::new(Ipv6Addr::from(o), port, 0, 0)))
        }
        _ => None,
    }
}

/// run one of the async writers on a fresh `Mem`, return (res, bytes written)
fn run_writer<F>(call: F) -> (&'static str, Vec<u8>)
where
    F: FnOnce(&mut Mem) -> Option<Result<(), penguin_socks::Error>>,
{
    let r = catch_unwind(AssertUnwindSafe(|| {
        let mut mem = Mem { data: vec![], pos: 0, eof: true, chunk: 1, written: vec![] };
        let res = match call(&mut mem) {
            Some(Ok(())) => "ok",
            Some(Err(_)) => "err",
            None => "pending",
        };
        (res, mem.written)
    }));
    r.unwrap_or(("panic", vec![]))
}

fn build_line(c: &Value, src: &str) -> Value {
    let f = c["fn"].as_str().unwrap_or("");
    let mut o = c.clone();
    if let Some(m) = o.as_object_mut() {
        m.remove("res");
        m.remove("out");
        m.insert("src".into(), json!(src));
    }
    let rep = c["rep"].as_u64().unwrap_or(0) as u8;
    let (res, out): (&str, Vec<u8>) = match f {
        "udp_relay_response" => {
            let addr = bytes_of(&c["addr"]);
            let payload = bytes_of(&c["payload"]);
            match sockaddr(c["atyp"].as_u64().unwrap_or(0), &addr, c["port"].as_u64().unwrap_or(0) as u16) {
                Some(sa) => match catch_unwind(AssertUnwindSafe(|| v5::udp_relay_response(sa, &payload))) {
                    Ok(v) => ("ok", v),
                    Err(_) => ("panic", vec![]),
                },
                None => ("bad_case", vec![]),
            }
        }
        "v5_reply" => {
            let addr = bytes_of(&c["addr"]);
            match sockaddr(c["atyp"].as_u64().unwrap_or(0), &addr, c["port"].as_u64().unwrap_or(0) as u16) {
                Some(sa) => run_writer(|m| drive(v5::write_response(m, rep, sa))),
                None => ("bad_case", vec![]),
            }
        }
        "v5_reply_unspec" => run_writer(|m| drive(v5::write_response_unspecified(m, rep))),
        "v5_method" => {
            let method = c["method"].as_u64().unwrap_or(0) as u8;
            run_writer(|m| drive(v5::write_auth_method(m, method)))
        }
        "v4_reply" => run_writer(|m| drive(v4::write_response(m, rep))),
        _ => ("unknown_fn", vec![]),
    };
    if let Some(m) = o.as_object_mut() {
        m.insert("res".into(), json!(res));
        m.insert("out".into(), arr(&out));
    }
    o
}

fn run_case(c: &Value, src: &str, out: &mut impl Write) {
    match c["ev"].as_str() {
        Some("parse") => {
            let f = c["fn"].as_str().unwrap_or("");
            let input = bytes_of(&c["input"]);
            if f == "udp_parse" {
                writeln!(out, "{}", parse_line(f, &input, "dgram", 0, src)).unwrap();
                return;
            }
            let whole = input.len().max(1);
            let modes: Vec<(String, usize)> = match c["mode"].as_str() {
                Some(m) => vec![(m.to_string(), c["chunk"].as_u64().map_or(whole, |x| x as usize))],
                None => vec![("eof".into(), whole), ("pend".into(), whole)],
            };
            for (m, chunk) in modes {
                writeln!(out, "{}", parse_line(f, &input, &m, chunk, src)).unwrap();
            }
        }
        Some("build") => writeln!(out, "{}", build_line(c, src)).unwrap(),
        _ => {}
    }
}

// ------------------------------------------------------------------------------------------------
// random mode
// ------------------------------------------------------------------------------------------------
fn rbytes(rng: &mut SmallRng, n: usize, nonzero: bool) -> Vec<u8> {
    (0..n).map(|_| if nonzero { rng.random_range(1..=255u8) } else { rng.random::<u8>() }).collect()
}

fn rlen(rng: &mut SmallRng) -> usize {
    match rng.random_range(0..10) {
        0 => 0,
        1 => 255,
        2 => 254,
        3..=6 => rng.random_range(1..=12),
        _ => rng.random_range(0..=255),
    }
}

fn raddr5(rng: &mut SmallRng) -> Vec<u8> {
    // ATYP ADDR
    match rng.random_range(0..3) {
        0 => [vec![1], rbytes(rng, 4, false)].concat(),
        1 => [vec![4], rbytes(rng, 16, false)].concat(),
        _ => {
            let n = rlen(rng);
            [vec![3, n as u8], rbytes(rng, n, false)].concat()
        }
    }
}

fn rcmd(rng: &mut SmallRng) -> u8 {
    if rng.random_range(0..4) == 0 { rng.random::<u8>() } else { rng.random_range(1..=3u8) }
}

fn random_message(rng: &mut SmallRng, f: &str) -> Vec<u8> {
    match f {
        "v5_request" => [vec![5, rcmd(rng), 0], raddr5(rng), rbytes(rng, 2, false)].concat(),
        "v5_methods" => {
            let n = if rng.random_range(0..6) == 0 { 255 } else { rng.random_range(1..=6usize) };
            [vec![5, n as u8], rbytes(rng, n, false)].concat()
        }
        "v4_request" => {
            let ulen = if rng.random_range(0..8) == 0 { rng.random_range(200..=300) } else { rng.random_range(0..=10) };
            let uid = rbytes(rng, ulen, true);
            let head = [vec![4, rcmd(rng)], rbytes(rng, 2, false)].concat();
            if rng.random_range(0..2) == 0 {
                let mut ip = rbytes(rng, 4, false);
                ip[0] = rng.random_range(1..=255u8);
                [head, ip, uid, vec![0]].concat()
            } else {
                let dlen = rlen(rng);
                let dom = rbytes(rng, dlen, true);
                [head, vec![0, 0, 0, rng.random_range(1..=255u8)], uid, vec![0], dom, vec![0]].concat()
            }
        }
        _ => {
            // udp datagram
            let n = rng.random_range(0..=40usize);
            [vec![0, 0, 0], raddr5(rng), rbytes(rng, 2, false), rbytes(rng, n, false)].concat()
        }
    }
}

fn mutate(rng: &mut SmallRng, mut m: Vec<u8>, keep: usize) -> Vec<u8> {
    match rng.random_range(0..10) {
        // untouched, possibly with octets of whatever follows on the connection
        0..=2 => {
            let n = rng.random_range(0..=4usize);
            m.extend(rbytes(rng, n, false));
        }
        // truncated
        3..=5 => {
            let k = rng.random_range(keep.min(m.len())..=m.len());
            m.truncate(k);
        }
        // one octet replaced
        6..=7 => {
            if m.len() > keep {
                let i = rng.random_range(keep..m.len());
                m[i] = match rng.random_range(0..3) {
                    0 => 0,
                    1 => 255,
                    _ => rng.random::<u8>(),
                };
            }
        }
        // one octet removed
        8 => {
            if m.len() > keep {
                let i = rng.random_range(keep..m.len());
                m.remove(i);
            }
        }
        // one octet inserted
        _ => {
            let i = rng.random_range(keep.min(m.len())..=m.len());
            m.insert(i, rng.random::<u8>());
        }
    }
    m
}

fn random_case(rng: &mut SmallRng) -> Value {
    match rng.random_range(0..10) {
        0..=5 => {
            let f = ["v5_request", "v4_request", "v4_request", "v5_methods", "udp_parse", "v5_request"][rng.random_range(0..6)];
            let m = random_message(rng, f);
            let m = mutate(rng, m, skip_of(f));
            if f == "udp_parse" {
                json!({"ev": "parse", "fn": f, "input": arr(&m)})
            } else {
                let mode = if rng.random_range(0..2) == 0 { "eof" } else { "pend" };
                let chunk = [1usize, 2, 3, 7, 4096][rng.random_range(0..5)];
                json!({"ev": "parse", "fn": f, "input": arr(&m), "mode": mode, "chunk": chunk})
            }
        }
        6..=7 => {
            let v6 = rng.random_range(0..2) == 0;
            let addr = rbytes(rng, if v6 { 16 } else { 4 }, false);
            let n = match rng.random_range(0..4) {
                0 => 0,
                1 => rng.random_range(250..=300usize),
                _ => rng.random_range(1..=24usize),
            };
            json!({"ev": "build", "fn": "udp_relay_response", "atyp": if v6 { 4 } else { 1 }, "addr": arr(&addr),
                   "port": rng.random::<u16>(), "payload": arr(&rbytes(rng, n, false))})
        }
        8 => {
            let v6 = rng.random_range(0..2) == 0;
            let addr = rbytes(rng, if v6 { 16 } else { 4 }, false);
            json!({"ev": "build", "fn": "v5_reply", "rep": rng.random::<u8>(), "atyp": if v6 { 4 } else { 1 },
                   "addr": arr(&addr), "port": rng.random::<u16>()})
        }
        _ => match rng.random_range(0..3) {
            0 => json!({"ev": "build", "fn": "v5_reply_unspec", "rep": rng.random::<u8>()}),
            1 => json!({"ev": "build", "fn": "v4_reply", "rep": rng.random::<u8>()}),
            _ => json!({"ev": "build", "fn": "v5_method", "method": rng.random::<u8>()}),
        },
    }
}

fn main() {
    std::panic::set_hook(Box::new(|_| {}));
    let args: Vec<String> = std::env::args().collect();
    match args.get(1).map(String::as_str) {
        Some("cases") if args.len() == 4 => {
            let inp = BufReader::new(std::fs::File::open(&args[2]).expect("open cases"));
            let mut out = BufWriter::new(std::fs::File::create(&args[3]).expect("create out"));
            for line in inp.lines() {
                let line = line.expect("read");
                if line.trim().is_empty() {
                    continue;
                }
                let c: Value = serde_json::from_str(&line).expect("case json");
                let src = c["src"].as_str().unwrap_or("tlc").to_string();
                run_case(&c, &src, &mut out);
            }
            out.flush().unwrap();
        }
        Some("random") if args.len() == 5 => {
            let seed: u64 = args[2].parse().expect("seed");
            let count: usize = args[3].parse().expect("count");
            let mut rng = SmallRng::seed_from_u64(seed);
            let mut out = BufWriter::new(std::fs::File::create(&args[4]).expect("create out"));
            for _ in 0..count {
                let c = random_case(&mut rng);
                run_case(&c, "random", &mut out);
            }
            out.flush().unwrap();
        }
        _ => {
            eprintln!("usage: socks_vec cases <cases.ndjson> <out.ndjson> | random <seed> <count> <out.ndjson>");
            std::process::exit(2);
        }
    }
}
