----------------------------- MODULE WriterWake -----------------------------
(***************************************************************************)
(* C12: the writer's credit / wake-up protocol of penguin-mux at the grain *)
(* of single atomic operations (stream.rs poll_obtain_write_permission,    *)
(* lib.rs acknowledge / disallow_write).                                   *)
(*                                                                         *)
(* One writer thread performs NPolls polls, one task thread performs the   *)
(* operations of TaskOps ("a" = acknowledge(1), "c" = disallow_write).     *)
(* Every interleaving of their atomic steps is explored; compare_exchange  *)
(* may fail spuriously.  Mode = "pinned" is the algorithm of the pinned    *)
(* tree (check, register, return Pending); Mode = "fixed" re-checks after  *)
(* registering.  Sequentially consistent: weak-memory effects are left to  *)
(* loom on the implementation side (see DESIGN.md, C12).                   *)
(*                                                                         *)
(* The contract (Contract below) is stated over what an execution lets an  *)
(* observer see -- results of the polls, which poll's waker was woken, the *)
(* final credit -- and is the same predicate WakeTrace.tla evaluates on    *)
(* the executions loom enumerates of the real code.                        *)
(***************************************************************************)
EXTENDS WriterWakeDefs

CONSTANTS Mode, NPolls

(* the scenarios: initial credit x operations of the task thread; chosen in Init, so one run covers all *)
Scenarios == {<<0, <<"a">>>>, <<0, <<"c">>>>, <<0, <<"a", "c">>>>, <<0, <<"a", "a">>>>, <<0, <<"c", "a">>>>,
              <<1, <<"a">>>>, <<1, <<"c">>>>, <<1, <<"a", "a">>>>}

VARIABLES credit, closed, waker,   \* shared: counter, flag, AtomicWaker content (0 = none, k = waker of poll k)
          wpc, wi, wv, results,    \* writer: program counter, poll index, loaded value, results so far
          tpc, ti,                 \* task: program counter, op index
          woken,                   \* ghost: woken[k] = number of times the waker of poll k was woken
          oks,                     \* ghost: number of units taken
          InitCredit, TaskOps      \* the scenario (constant during a behaviour)
vars == <<credit, closed, waker, wpc, wi, wv, results, tpc, ti, woken, oks, InitCredit, TaskOps>>

Init ==
  /\ \E sc \in Scenarios : InitCredit = sc[1] /\ TaskOps = sc[2]
  /\ credit = InitCredit /\ closed = FALSE /\ waker = 0
  /\ wpc = "start" /\ wi = 1 /\ wv = 0 /\ results = <<>>
  /\ tpc = "next" /\ ti = 1
  /\ woken = [k \in 1 .. NPolls |-> 0] /\ oks = 0

Finish(r) == /\ results' = Append(results, r)
             /\ wi' = wi + 1
             /\ wpc' = IF wi + 1 > NPolls THEN "done" ELSE "start"

(* ---- writer ---- *)
WStart ==   \* load finish_sent
  /\ wpc = "start"
  /\ IF closed THEN Finish("broken") /\ UNCHANGED <<wv>>
     ELSE wpc' = "load" /\ UNCHANGED <<results, wi, wv>>
  /\ UNCHANGED <<credit, closed, waker, tpc, ti, woken, oks>>
WLoad ==    \* load psh_send_remaining
  /\ wpc = "load"
  /\ wv' = credit
  /\ wpc' = IF credit = 0 THEN "register" ELSE "cas"
  /\ UNCHANGED <<credit, closed, waker, results, wi, tpc, ti, woken, oks>>
WRegister ==
  /\ wpc = "register"
  /\ waker' = wi
  /\ IF Mode = "pinned" THEN Finish("pending") ELSE wpc' = "recheck_closed" /\ UNCHANGED <<results, wi>>
  /\ UNCHANGED <<credit, closed, wv, tpc, ti, woken, oks>>
WRecheckClosed ==
  /\ wpc = "recheck_closed"
  /\ IF closed THEN Finish("broken") ELSE wpc' = "recheck_credit" /\ UNCHANGED <<results, wi>>
  /\ UNCHANGED <<credit, closed, waker, wv, tpc, ti, woken, oks>>
WRecheckCredit ==
  /\ wpc = "recheck_credit"
  /\ IF credit # 0 THEN wpc' = "load" /\ UNCHANGED <<results, wi>> ELSE Finish("pending")
  /\ UNCHANGED <<credit, closed, waker, wv, tpc, ti, woken, oks>>
WCas ==
  /\ wpc = "cas"
  /\ \/ /\ credit = wv                      \* success
        /\ credit' = credit - 1 /\ oks' = oks + 1
        /\ Finish("ok")
     \/ /\ wpc' = "load"                     \* failure (changed value or spurious)
        /\ UNCHANGED <<credit, oks, results, wi>>
  /\ UNCHANGED <<closed, waker, wv, tpc, ti, woken>>

(* ---- task ---- *)
Op == IF ti <= Len(TaskOps) THEN TaskOps[ti] ELSE "-"
TNext ==
  /\ tpc = "next" /\ Op # "-"
  /\ IF Op = "a" THEN credit' = credit + 1 /\ UNCHANGED closed
                 ELSE closed' = TRUE /\ UNCHANGED credit
  /\ tpc' = "wake"
  /\ UNCHANGED <<waker, wpc, wi, wv, results, ti, woken, oks>>
TWake ==
  /\ tpc = "wake"
  /\ IF waker # 0 THEN woken' = [woken EXCEPT ![waker] = @ + 1] /\ waker' = 0
                  ELSE UNCHANGED <<woken, waker>>
  /\ tpc' = "next" /\ ti' = ti + 1
  /\ UNCHANGED <<credit, closed, wpc, wi, wv, results, oks>>

Next == (WStart \/ WLoad \/ WRegister \/ WRecheckClosed \/ WRecheckCredit \/ WCas \/ TNext \/ TWake)
        /\ UNCHANGED <<InitCredit, TaskOps>>
Spec == Init /\ [][Next]_vars

Done == wpc = "done" /\ Op = "-" /\ tpc = "next"
After == IF closed THEN "broken" ELSE IF credit = 0 THEN "pending" ELSE "ok"
ContractHolds ==
  Done => Contract(InitCredit, TaskOps, results, woken,
                   After, IF After = "ok" THEN credit - 1 ELSE credit, closed)
=============================================================================
