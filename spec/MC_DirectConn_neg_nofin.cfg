\* C01: negative control: a network with the fault `nofin` must violate Inv_HalfClose
SPECIFICATION Spec
CONSTANTS
  MaxW = 1
  Sizes = {0, 2}
  Fault = "nofin"
  Proto = "tcp"
  Gen = FALSE
  MaxK = 1
INVARIANTS Inv_HalfClose
