SPECIFICATION Spec
CONSTANTS
  AckMode = "shaped"
  ThrMode = "fixed"
  EmptyMode = "fixed"
  RstMode = "fixed"
  CfgSet <- TinyCfg
  SameCfg = TRUE
  Openers = {"A"}
  MaxOpens = 1
  Ids = {1}
  Hosts = {"h0"}
  MaxWrites = 1
  Writers = {"A", "B"}
  Lens = {1}
  ReadMax = {4}
  Closers = {}
  MuxDroppers = {"A", "B"}
  Cancellers = {}
  DgSenders = {}
  MaxDgrams = 0
  Binders = {}
  MaxBinds = 0
  Faults = {"cutsrc", "endsrc", "cutsink", "softcut"}
  AdvMsgs = {}
  MaxAdv = 0
  Bridgers = {}
  SplitFlush = FALSE
  MaxNow = 0
  MaxHandles = 1
  MaxCtr = 1
CONSTRAINT Bound
INVARIANT NoViolation
PROPERTY WdTerminates
CHECK_DEADLOCK FALSE
