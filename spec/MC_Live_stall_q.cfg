SPECIFICATION Spec
CONSTANTS
  AckMode = "shaped"
  ThrMode = "fixed"
  EmptyMode = "fixed"
  RstMode = "fixed"
  CfgSet <- LiveCfgsT
  Extra = 1
  BothWays = FALSE
  Stalled = TRUE
  Dgrams = 1
INVARIANT NoViolation
PROPERTY Progress
