#!/usr/bin/env python3
"""Development tool: a small syntactic mutation generator for the anchored source files of /repo (operator flips, boundary
changes, negation removal, boolean constants, statement deletion), in the spirit of the repository's own .config/mutants.toml
(cargo-mutants is not installed in this sandbox).  Writes one patch per mutant to /tmp/mut/<tag>/<n>.diff plus index.json;
mutants that do not compile are dropped (cargo check in a scratch worktree).  Nothing registered in MANIFEST.json uses it.

usage: mutate.py <tag> <crate> <file> [<file> ...] [--max N] [--seed S]"""
import json, os, random, re, subprocess, sys

args = sys.argv[1:]
tag, crate = args.pop(0), args.pop(0)
files, mx, seed = [], 10 ** 9, 1
while args:
    a = args.pop(0)
    if a == "--max":
        mx = int(args.pop(0))
    elif a == "--seed":
        seed = int(args.pop(0))
    elif a in ("--bodies", "--conds", "--only-new"):
        pass
    else:
        files.append(a)
W = f"/tmp/mut/{tag}"
WT = f"{W}/wt"
os.makedirs(W, exist_ok=True)
if not os.path.exists(WT + "/.git"):
    subprocess.run(["git", "-C", "/repo", "worktree", "prune"])
    subprocess.run(["git", "-C", "/repo", "worktree", "add", "-q", "--detach", WT, "HEAD"], check=True)

SKIP_LINE = re.compile(r"^\s*(//|#\[|debug!|trace!|warn!|error!|info!|use |pub use |mod |assert|debug_assert|unreachable!|panic!|\*|/\*)")
RULES = [
    (r" == ", " != "), (r" != ", " == "),
    (r" <= ", " < "), (r" >= ", " > "), (r"(?<![-=<>]) < (?!=)", " <= "), (r"(?<![-=<>]) > (?!=)", " >= "),
    (r" && ", " || "), (r" \|\| ", " && "),
    (r" \+ 1\b", " + 2"), (r" - 1\b", " - 0"), (r" \+ ", " - "), (r" - ", " + "),
    (r"\bif !", "if "), (r"\bwhile !", "while "), (r"&& !", "&& "), (r"\|\| !", "|| "), (r"= !", "= "),
    (r"\btrue\b", "false"), (r"\bfalse\b", "true"),
    (r"\bcontinue;", "break;"), (r"\bbreak;", "continue;"),
    (r"\.min\(", ".max("), (r"\.max\(", ".min("),
    (r"saturating_sub", "saturating_add"), (r"fetch_add", "fetch_sub"),
    (r"\.is_some\(\)", ".is_none()"), (r"\.is_none\(\)", ".is_some()"), (r"\.is_ok\(\)", ".is_err()"), (r"\.is_err\(\)", ".is_ok()"),
    (r"\.is_empty\(\)", ".len() == 1"),
    (r"Poll::Pending", "Poll::Ready(Ok(()))"),
]
STMT = re.compile(r"^\s*[a-z_][A-Za-z0-9_\.]*(\(|\.)[^=]*\);\s*$")      # a call statement on one line: deletion candidate
cands = []
for f in files:
    src = open(os.path.join(WT, f)).read().split("\n")
    in_test = False
    for i, line in enumerate(src):
        if "#[cfg(test)]" in line or "mod tests" in line:
            in_test = True
        if in_test or SKIP_LINE.match(line) or not line.strip():
            continue
        code = line.split("//")[0]
        if "tracing::" in code or 'instrument' in code:
            continue
        for pat, rep in RULES:
            for m in re.finditer(pat, code):
                new = code[:m.start()] + re.sub(pat, rep, code[m.start():m.end()]) + code[m.end():] + line[len(code):]
                if new != line:
                    cands.append((f, i, line, new, f"{pat} -> {rep}"))
        if STMT.match(code) and not code.strip().startswith(("return", "let", "break", "continue", "drop(")):
            cands.append((f, i, line, re.match(r"^\s*", line).group(0) + "// (statement deleted)", "delete statement"))
# cargo-mutants' main operator: replace a whole function body by a default of its return type
FN = re.compile(r"^(\s*)(pub(\([a-z]+\))? )?(const )?(async )?fn ([a-z_0-9]+)\b.*?(?:-> (.*?))? \{\s*$")
DEFAULTS = {None: [""], "()": [""], "bool": ["true", "false"], "usize": ["0", "1"], "u32": ["0", "1"], "Result<()>": ["Ok(())"],
            "io::Result<()>": ["Ok(())"], "Poll<io::Result<()>>": ["Poll::Ready(Ok(()))"], "Poll<Result<()>>": ["Poll::Ready(Ok(()))"],
            "Poll<io::Result<usize>>": ["Poll::Ready(Ok(0))", "Poll::Ready(Ok(1))"], "Option<()>": ["None", "Some(())"]}
body_cands = []
if "--bodies" in sys.argv or os.environ.get("MUT_BODIES"):
    for f in files:
        src = open(os.path.join(WT, f)).read().split("\n")
        in_test = False
        for i, line in enumerate(src):
            if "#[cfg(test)]" in line or "mod tests" in line:
                in_test = True
            m = FN.match(line)
            if in_test or not m:
                continue
            ret = m.group(7)
            ret = ret.strip() if ret else None
            if ret not in DEFAULTS:
                continue
            depth, j = 0, i
            while j < len(src):
                depth += src[j].count("{") - src[j].count("}")
                if depth == 0:
                    break
                j += 1
            if j >= len(src) or j - i < 2:
                continue
            for dv in DEFAULTS[ret]:
                body_cands.append((f, i, j, m.group(1) + "    " + dv, f"body of {m.group(6)} -> {dv or '()'}"))
# conditions forced
for f in files:
    src = open(os.path.join(WT, f)).read().split("\n")
    in_test = False
    for i, line in enumerate(src):
        if "#[cfg(test)]" in line or "mod tests" in line:
            in_test = True
        if in_test or SKIP_LINE.match(line):
            continue
        m = re.match(r"^(\s*)(\} else )?if (?!let )(.+) \{\s*$", line)
        if m and "--conds" in sys.argv:
            for v in ("true", "false"):
                cands.append((f, i, line, f"{m.group(1)}{m.group(2) or ''}if {v} {{", f"condition forced {v}"))
        for pat, rep in ((r"\+= 1\b", "+= 2"), (r"-= 1\b", "-= 0"), (r"== 0\b", "== 1"), (r"> 0\b", "> 1"), (r"\.take\(\)", ".clone()")):
            if "--conds" in sys.argv:
                for mm in re.finditer(pat, line.split("//")[0]):
                    new = line[:mm.start()] + rep + line[mm.end():]
                    cands.append((f, i, line, new, f"{pat} -> {rep}"))
if "--only-new" in sys.argv:
    cands = [c for c in cands if c[4].startswith("condition forced") or c[4].startswith("\\+=") or c[4].startswith("-=") or c[4].startswith("== 0") or c[4].startswith("> 0") or c[4].startswith("\\.take")]
random.Random(seed).shuffle(cands)
random.Random(seed + 1).shuffle(body_cands)
index = []
n = 0
for f, i, old, new, why in cands:
    if n >= mx:
        break
    p = os.path.join(WT, f)
    src = open(p).read().split("\n")
    assert src[i] == old
    src[i] = new
    open(p, "w").write("\n".join(src))
    r = subprocess.run(["cargo", "check", "--offline", "-q", "-j", "4", "-p", crate], cwd=WT, capture_output=True, text=True)
    ok = r.returncode == 0 and "warning: unused" not in r.stderr and "warning: unreachable" not in r.stderr
    if ok:
        d = subprocess.run(["git", "-C", WT, "diff"], capture_output=True, text=True).stdout
        n += 1
        open(f"{W}/{n}.diff", "w").write(d)
        index.append(dict(n=n, file=f, line=i + 1, old=old.strip(), new=new.strip(), rule=why))
        print(n, f, i + 1, why, "|", old.strip()[:90], flush=True)
    subprocess.run(["git", "-C", WT, "checkout", "-q", "--", "."], check=True)
for f, i, j, repl, why in body_cands:
    if n >= mx:
        break
    p = os.path.join(WT, f)
    src = open(p).read().split("\n")
    src[i + 1:j] = [repl] if repl.strip() else []
    open(p, "w").write("\n".join(src))
    r = subprocess.run(["cargo", "check", "--offline", "-q", "-j", "4", "-p", crate], cwd=WT, capture_output=True, text=True)
    if r.returncode == 0:
        d = subprocess.run(["git", "-C", WT, "diff"], capture_output=True, text=True).stdout
        n += 1
        open(f"{W}/{n}.diff", "w").write(d)
        index.append(dict(n=n, file=f, line=i + 1, old=src[i].strip(), new=repl.strip(), rule=why))
        print(n, f, i + 1, why, flush=True)
    subprocess.run(["git", "-C", WT, "checkout", "-q", "--", "."], check=True)
json.dump(index, open(f"{W}/index.json", "w"), indent=1)
print(len(index), "compiling mutants of", len(cands), "candidates")
