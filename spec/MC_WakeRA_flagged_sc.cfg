SPECIFICATION Spec
CONSTANTS
  Mode = "flagged"
  OrdMode = "code"
  SC = "yes"
  NPolls = 2
INVARIANTS ContractHolds NoRace StateWordSane
CHECK_DEADLOCK FALSE
