\* C01: negative control: a relay with the fault `u_modified` must violate U_Datagram
SPECIFICATION Spec
CONSTANTS
  MaxW = 1
  Sizes = {0}
  Fault = "u_modified"
  Proto = "udp"
  Gen = FALSE
  MaxK = 2
INVARIANTS U_Datagram
