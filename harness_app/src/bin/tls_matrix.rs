//! C17 driver: real TLS handshakes of the application's own client and server configuration code
//! (`rusty_penguin_lib::tls::{tls_connect, make_server_config, make_tls_identity, reload_tls_identity}`)
//! over an in-memory duplex, for every case / script enumerated by TLC (spec/MC_TlsAuth.tla).
//!
//! This program only EXECUTES cases and PROJECTS what it observes into ndjson; whether an observation is
//! right is decided by TLC (spec/TlsTrace.tla against spec/TlsAuth.tla).
//!
//! usage: tls_matrix <cases.ndjson> <out.ndjson> <seed> <npki> <algs,comma> <namekinds,comma> <scratch-dir>
//!
//! input lines
//!   {"ev":"case","serverCert":..,"nameMatches":..,"skipVerify":..,"clientCert":..,"serverClientCA":..}
//!   {"ev":"script","id":n,"mtls":bool,"ops":[{"op":"connect"|"reload"|"rotate"|"use","conn":k[,"cc":..]},..]}
//!   {"ev":"rscript","id":n,"mtls":bool,"ops":[{"op":"connect","conn":k|0,"cc":"trustedCA"|"none"|"otherCA"|"gen<g>"}
//!                                              |{"op":"reload"}|{"op":"rotate"}|{"op":"use","conn":k},..]}
//!       the same machine through the REAL server entry point (see "real-server scripts" below)
//!       "botch" (rscript only): a reload request that FAILS: live.key is overwritten with something that is no key and
//!       SIGUSR1 is raised; the next "reload" installs a complete identity again.
//!       "rotate": the server's client CA bundle (--tls-ca, client_ca_live.pem) is overwritten IN PLACE, at the same
//!       path, with the next generation of the CA; nothing is reloaded. "cc": the client certificate presented:
//!       none, one of another CA, "trustedCA" = generation 0 of the client CA, "gen<g>" = generation g. A connect
//!       without "cc" (scripts without rotation) presents the certificate the server was set up for; "conn":0 =
//!       the script does not keep the connection (the property refuses the handshake).
//!   {"ev":"cscript","id":n,"ops":[{"op":"connect","srv":"trustedCA"|"gen<g>"|"otherCA"}|{"op":"rotate"},..]}
//!       client side: ONE roots file (roots_live.pem) of this process, overwritten in place by "rotate" with the next
//!       generation of the CA; "connect" = the application's tls_connect with that path against a server whose
//!       certificate was issued by `srv`
//!   RETURNING CLIENTS THAT RESUME: a connect with "keep":true (script / rscript) is made by a raw rustls client of this
//!       harness whose `ClientConfig` - hence its resumption store - is KEPT for the whole script, one per client
//!       certificate `cc` (same roots and client certificate files as every other client here). The script's "tls"
//!       ("1.3", the default, or "1.2") is the only protocol version that client speaks. Its store is wrapped (SpyStore)
//!       so that what it handed out for a ClientHello ("offered") and what the handshake put into it ("stored") can be
//!       logged; "resumed" / "hs_kind" is rustls's own `handshake_kind()` of the client end ("srv_resumed": of the server
//!       end, duplex only). These fields are logged for EVERY connect (a client built by `tls_connect` keeps nothing:
//!       keep = false, offered = false). Nothing is judged here.
//!   optional "alg", "namekind", "pki" pin the PKI parameters (replay files: logged lines are valid input;
//!   lines with "ev":"step" / "rstep" / "cstep" are ignored)
//!
//! server side: exactly the serve path of penguin/src/server/mod.rs (`run_listener` + `serve_connection_tls`):
//!   `tokio_rustls::TlsAcceptor::from(identity.load_full()).accept(stream)`.
//! "reaches the server" = an application-data round trip after the handshake (client writes "ping", the
//! server echoes): TLS 1.3 reports a rejected client certificate only then.

use rusty_penguin_lib::tls::{
    self, make_server_config, make_tls_identity, reload_tls_identity, tls_connect,
};
use futures_util::FutureExt as _;
use serde_json::{Value, json};
use std::collections::HashMap;
use std::io::Write as _;
use std::panic::AssertUnwindSafe;
use std::path::{Path, PathBuf};
use std::sync::Arc;
use std::time::Duration;
use tokio::io::{AsyncReadExt, AsyncWriteExt, DuplexStream};

type ClientStream = tokio_rustls::TlsStream<DuplexStream>;
type ServerStream = tokio_rustls::server::TlsStream<DuplexStream>;

const STEP_TIMEOUT: Duration = Duration::from_secs(30);
const PING: &[u8; 4] = b"ping";

// ------------------------------------------------------------------------------------------------
// projection of errors
// ------------------------------------------------------------------------------------------------
/// (kind, text). kind: bad_cert = this side rejected the peer's certificate, no_cert = this side demanded a
/// certificate and got none, alert = the peer sent a fatal alert, eof / closed / io / tls_other.
fn classify_rustls(e: &rustls::Error) -> (&'static str, String) {
    let text = format!("{e:?}");
    let kind = match e {
        rustls::Error::InvalidCertificate(_) => "bad_cert",
        rustls::Error::NoCertificatesPresented => "no_cert",
        rustls::Error::AlertReceived(_) => "alert",
        _ => "tls_other",
    };
    (kind, text)
}

fn classify_io(e: &std::io::Error) -> (&'static str, String) {
    if let Some(inner) = e.get_ref() {
        if let Some(r) = inner.downcast_ref::<rustls::Error>() {
            return classify_rustls(r);
        }
    }
    let kind = match e.kind() {
        std::io::ErrorKind::UnexpectedEof => "eof",
        std::io::ErrorKind::BrokenPipe
        | std::io::ErrorKind::ConnectionReset
        | std::io::ErrorKind::ConnectionAborted => "closed",
        _ => "io",
    };
    (kind, format!("{e:?}"))
}

fn classify_tls(e: &tls::Error) -> (&'static str, String) {
    match e {
        // `tls_connect` wraps the handshake error of tokio-rustls in `TcpConnect`
        tls::Error::TcpConnect(io) => classify_io(io),
        other => ("config_err", format!("{other:?}")),
    }
}

// ------------------------------------------------------------------------------------------------
// minimal DER walk: serial number, issuer CN and subject CN of an X.509 certificate
// ------------------------------------------------------------------------------------------------
fn tlv(d: &[u8]) -> Option<(u8, &[u8], &[u8])> {
    let tag = *d.first()?;
    let l0 = *d.get(1)? as usize;
    let (len, hdr) = if l0 < 0x80 {
        (l0, 2)
    } else {
        let n = l0 & 0x7f;
        if n == 0 || n > 4 {
            return None;
        }
        let mut len = 0usize;
        for i in 0..n {
            len = (len << 8) | (*d.get(2 + i)? as usize);
        }
        (len, 2 + n)
    };
    if d.len() < hdr + len {
        return None;
    }
    Some((tag, &d[hdr..hdr + len], &d[hdr + len..]))
}

fn name_cn(name: &[u8]) -> Option<String> {
    let mut rest = name;
    while let Some((tag, set, r)) = tlv(rest) {
        rest = r;
        if tag != 0x31 {
            continue;
        }
        let mut inner = set;
        while let Some((t, atv, r2)) = tlv(inner) {
            inner = r2;
            if t != 0x30 {
                continue;
            }
            let (t1, oid, after) = tlv(atv)?;
            if t1 == 0x06 && oid == [0x55, 0x04, 0x03] {
                let (_, s, _) = tlv(after)?;
                return Some(String::from_utf8_lossy(s).into_owned());
            }
        }
    }
    None
}

/// (serial as integer (low 8 octets), issuer CN, subject CN)
fn cert_info(der: &[u8]) -> Option<(u64, String, String)> {
    let (t, cert, _) = tlv(der)?;
    if t != 0x30 {
        return None;
    }
    let (t, tbs, _) = tlv(cert)?;
    if t != 0x30 {
        return None;
    }
    let (mut t, mut v, mut rest) = tlv(tbs)?;
    if t == 0xa0 {
        (t, v, rest) = tlv(rest)?;
    }
    if t != 0x02 {
        return None;
    }
    let serial = v.iter().rev().take(8).rev().fold(0u64, |a, b| (a << 8) | u64::from(*b));
    let (_, _sigalg, rest) = tlv(rest)?;
    let (_, issuer, rest) = tlv(rest)?;
    let (_, _validity, rest) = tlv(rest)?;
    let (_, subject, _) = tlv(rest)?;
    Some((serial, name_cn(issuer)?, name_cn(subject)?))
}

/// SHA-1 fingerprint (hex) of a certificate, as `openssl x509 -fingerprint` prints it
fn fingerprint(der: &[u8]) -> String {
    use sha1::{Digest, Sha1};
    let mut h = Sha1::new();
    h.update(der);
    h.finalize().iter().map(|b| format!("{b:02x}")).collect()
}

fn peer_info(certs: Option<&[rustls::pki_types::CertificateDer<'_>]>) -> Value {
    match certs.and_then(|c| c.first()) {
        None => json!({"cn": "", "serial": -1, "issuer": "", "n": 0, "fp": ""}),
        Some(c) => match cert_info(c.as_ref()) {
            Some((serial, issuer, cn)) => {
                json!({"cn": cn, "serial": serial, "issuer": issuer, "n": certs.map_or(0, <[_]>::len), "fp": fingerprint(c.as_ref())})
            }
            None => json!({"cn": "?", "serial": -2, "issuer": "?", "n": certs.map_or(0, <[_]>::len), "fp": fingerprint(c.as_ref())}),
        },
    }
}

fn kind_text(k: Option<rustls::HandshakeKind>) -> String {
    match k {
        None => String::new(),
        Some(rustls::HandshakeKind::Full) => "full".into(),
        Some(rustls::HandshakeKind::FullWithHelloRetryRequest) => "full_hrr".into(),
        Some(rustls::HandshakeKind::Resumed) => "resumed".into(),
    }
}

// ------------------------------------------------------------------------------------------------
// PKI generation (rcgen), PEM files in a scratch directory
// ------------------------------------------------------------------------------------------------
fn splitmix(mut x: u64) -> u64 {
    x = x.wrapping_add(0x9e37_79b9_7f4a_7c15);
    let mut z = x;
    z = (z ^ (z >> 30)).wrapping_mul(0xbf58_476d_1ce4_e5b9);
    z = (z ^ (z >> 27)).wrapping_mul(0x94d0_49bb_1331_11eb);
    z ^ (z >> 31)
}

fn keypair(alg: &str) -> rcgen::KeyPair {
    match alg {
        "p256" => rcgen::KeyPair::generate_for(&rcgen::PKCS_ECDSA_P256_SHA256),
        "p384" => rcgen::KeyPair::generate_for(&rcgen::PKCS_ECDSA_P384_SHA384),
        "ed25519" => rcgen::KeyPair::generate_for(&rcgen::PKCS_ED25519),
        "rsa2048" => rcgen::KeyPair::generate_rsa_for(&rcgen::PKCS_RSA_SHA256, rcgen::RsaKeySize::_2048),
        other => panic!("tool: unknown key algorithm {other}"),
    }
    .expect("tool: key generation failed")
}

fn dn(cn: &str) -> rcgen::DistinguishedName {
    let mut d = rcgen::DistinguishedName::new();
    d.push(rcgen::DnType::CommonName, cn);
    d.push(rcgen::DnType::OrganizationName, "verif C17");
    d
}

struct Ca {
    pem: String,
    issuer: rcgen::Issuer<'static, rcgen::KeyPair>,
}

fn make_ca(cn: &str, alg: &str, serial: u8) -> Ca {
    let mut p = rcgen::CertificateParams::default();
    p.distinguished_name = dn(cn);
    p.is_ca = rcgen::IsCa::Ca(rcgen::BasicConstraints::Unconstrained);
    p.key_usages = vec![
        rcgen::KeyUsagePurpose::KeyCertSign,
        rcgen::KeyUsagePurpose::CrlSign,
        rcgen::KeyUsagePurpose::DigitalSignature,
    ];
    p.serial_number = Some(rcgen::SerialNumber::from_slice(&[serial]));
    let kp = keypair(alg);
    let cert = p.self_signed(&kp).expect("tool: CA certificate");
    Ca { pem: cert.pem(), issuer: rcgen::Issuer::new(p, kp) }
}

/// Leaf certificate; `issuer == None` = self-signed. Returns (cert PEM, key PEM).
fn make_leaf(
    cn: &str,
    sans: &[&str],
    server: bool,
    serial: u8,
    issuer: Option<&Ca>,
    alg: &str,
) -> (String, String) {
    let mut p = rcgen::CertificateParams::new(sans.iter().map(|s| (*s).to_string()).collect::<Vec<_>>())
        .expect("tool: leaf parameters");
    p.distinguished_name = dn(cn);
    p.key_usages = vec![rcgen::KeyUsagePurpose::DigitalSignature];
    p.extended_key_usages = vec![if server {
        rcgen::ExtendedKeyUsagePurpose::ServerAuth
    } else {
        rcgen::ExtendedKeyUsagePurpose::ClientAuth
    }];
    p.serial_number = Some(rcgen::SerialNumber::from_slice(&[serial]));
    p.use_authority_key_identifier_extension = issuer.is_some();
    let kp = keypair(alg);
    let cert = match issuer {
        Some(ca) => p.signed_by(&kp, &ca.issuer),
        None => p.self_signed(&kp),
    }
    .expect("tool: leaf certificate");
    (cert.pem(), kp.serialize_pem())
}

struct Pki {
    index: u64,
    alg: String,
    namekind: String,
    /// the name the client asks for
    req_name: String,
    dir: PathBuf,
    trusted: Ca,
    /// generations 1, 2, .. of the CA (generation 0 is `trusted`), made when first needed
    gens: std::sync::Mutex<Vec<Ca>>,
}

/// the name of generation `g` of the CA in scripts and file names
fn gen_name(g: usize) -> String {
    if g == 0 { "trustedCA".into() } else { format!("gen{g}") }
}

/// "gen<g>" -> g
fn gen_of(name: &str) -> Option<usize> {
    if name == "trustedCA" {
        return Some(0);
    }
    name.strip_prefix("gen").and_then(|n| n.parse().ok())
}

/// the client CA bundle the server is pointed at (--tls-ca); rewritten in place by "rotate"
const CLIENT_CA_LIVE: &str = "client_ca_live.pem";
/// the roots file the client of the client-side scripts is pointed at; rewritten in place by "rotate"
const ROOTS_LIVE: &str = "roots_live.pem";

impl Pki {
    fn path(&self, f: &str) -> String {
        self.dir.join(f).to_str().expect("tool: utf-8 path").to_string()
    }
    fn write(&self, f: &str, content: &str) {
        std::fs::write(self.dir.join(f), content).expect("tool: write PEM");
    }
    fn tags(&self) -> Value {
        json!({"pki": self.index, "alg": self.alg, "namekind": self.namekind, "req_name": self.req_name})
    }
    /// identity number `v` of the reload scripts: issued by the trusted CA for the requested name
    fn ensure_ident(&self, v: usize) {
        if self.dir.join(format!("ident_v{v}.crt")).exists() {
            return;
        }
        let serial = u8::try_from(100 + v).expect("tool: too many identity versions");
        let (c, k) = make_leaf(&format!("srv-v{v}"), &[&self.req_name], true, serial, Some(&self.trusted), &self.alg);
        self.write(&format!("ident_v{v}.crt"), &c);
        self.write(&format!("ident_v{v}.key"), &k);
    }
    /// generation `g` of the CA with a client certificate (cli_gen<g>) and a server certificate for the requested
    /// name (srv_gen<g>_match) issued under it; generation 0 is the trusted CA made with the set
    fn ensure_gen(&self, g: usize) {
        let mut gens = self.gens.lock().expect("tool: gens");
        while gens.len() < g {
            let n = gens.len() + 1;
            let name = gen_name(n);
            let ca = make_ca(&format!("trusted-ca-{name}"), &self.alg, u8::try_from(2 + n).expect("tool: too many CA generations"));
            self.write(&format!("ca_{name}.pem"), &ca.pem);
            let serial = u8::try_from(40 + 2 * n).expect("tool: too many CA generations");
            let (c, k) = make_leaf(&format!("cli-{name}"), &["client.penguin.test"], false, serial, Some(&ca), &self.alg);
            self.write(&format!("cli_{name}.crt"), &c);
            self.write(&format!("cli_{name}.key"), &k);
            let (c, k) = make_leaf(&format!("srv-{name}-match"), &[&self.req_name], true, serial + 1, Some(&ca), &self.alg);
            self.write(&format!("srv_{name}_match.crt"), &c);
            self.write(&format!("srv_{name}_match.key"), &k);
            gens.push(ca);
        }
    }
    /// makes sure the certificate named `which` ("gen<g>") exists
    fn ensure_named(&self, which: &str) {
        if let Some(g) = gen_of(which) {
            self.ensure_gen(g);
        }
    }
    /// Overwrites `file` IN PLACE (same path, same inode: open + truncate + write) with the certificate of
    /// generation `g` of the CA, as an operator rotating a CA bundle does.
    fn install_ca(&self, file: &str, g: usize) {
        self.ensure_gen(g);
        let src = if g == 0 { "ca_trusted.pem".to_string() } else { format!("ca_{}.pem", gen_name(g)) };
        let pem = std::fs::read(self.dir.join(src)).expect("tool: read CA PEM");
        std::fs::write(self.dir.join(file), pem).expect("tool: overwrite CA bundle in place");
    }
    /// Overwrites `file` IN PLACE (open + truncate + write) with content that yields NO CA certificate, as an
    /// interrupted or mistaken renewal of the bundle does. `how` picks one of four: an empty file, a PEM private key
    /// (the key of the trusted client certificate), the PEM certificate of the trusted CA cut in half, random bytes.
    /// Returns the name of what was written.
    fn break_ca(&self, file: &str, how: u64) -> &'static str {
        let (name, content): (&'static str, Vec<u8>) = match how % 4 {
            0 => ("empty", Vec::new()),
            1 => ("key", std::fs::read(self.dir.join("cli_trustedCA.key")).expect("tool: read key PEM")),
            2 => {
                let pem = std::fs::read(self.dir.join("ca_trusted.pem")).expect("tool: read CA PEM");
                ("truncated", pem[..pem.len() / 2].to_vec())
            }
            _ => {
                let mut x = splitmix(how ^ self.index);
                let bytes = (0..96)
                    .map(|_| {
                        x = splitmix(x);
                        (x >> 24) as u8
                    })
                    .collect();
                ("random", bytes)
            }
        };
        std::fs::write(self.dir.join(file), content).expect("tool: overwrite CA bundle in place");
        name
    }
    fn install_ident(&self, v: usize) {
        self.ensure_ident(v);
        std::fs::copy(self.dir.join(format!("ident_v{v}.crt")), self.dir.join("live.crt")).expect("tool: copy");
        std::fs::copy(self.dir.join(format!("ident_v{v}.key")), self.dir.join("live.key")).expect("tool: copy");
    }
}

fn names(namekind: &str, salt: u64) -> (String, String) {
    match namekind {
        "localhost" => ("localhost".into(), "other.example".into()),
        "dns" => (format!("h{:x}.penguin.test", salt & 0xffff), format!("h{:x}.penguin.test", (salt & 0xffff) + 1)),
        "ip4" => ("127.0.0.1".into(), "127.0.0.2".into()),
        "ip6" => ("::1".into(), "::2".into()),
        other => panic!("tool: unknown name kind {other}"),
    }
}

fn make_pki(root: &Path, index: u64, alg: &str, namekind: &str, salt: u64) -> Pki {
    let dir = root.join(format!("pki_{index}_{alg}_{namekind}"));
    std::fs::create_dir_all(&dir).expect("tool: scratch directory");
    let (req_name, other_name) = names(namekind, salt);
    let trusted = make_ca("trusted-ca", alg, 1);
    let other = make_ca("other-ca", alg, 2);
    let pki = Pki {
        index,
        alg: alg.into(),
        namekind: namekind.into(),
        req_name: req_name.clone(),
        dir,
        trusted,
        gens: std::sync::Mutex::new(Vec::new()),
    };
    pki.write("ca_trusted.pem", &pki.trusted.pem);
    pki.write("ca_other.pem", &other.pem);
    let mut serial = 10u8;
    for (label, issuer) in [("trustedCA", Some(&pki.trusted)), ("otherCA", Some(&other)), ("selfSigned", None)] {
        for (m, san) in [("match", &req_name), ("differ", &other_name)] {
            let (c, k) = make_leaf(&format!("srv-{label}-{m}"), &[san], true, serial, issuer, alg);
            pki.write(&format!("srv_{label}_{m}.crt"), &c);
            pki.write(&format!("srv_{label}_{m}.key"), &k);
            serial += 1;
        }
    }
    for (label, issuer) in [("trustedCA", &pki.trusted), ("otherCA", &other)] {
        let (c, k) = make_leaf(&format!("cli-{label}"), &["client.penguin.test"], false, serial, Some(issuer), alg);
        pki.write(&format!("cli_{label}.crt"), &c);
        pki.write(&format!("cli_{label}.key"), &k);
        serial += 1;
    }
    pki
}

// ------------------------------------------------------------------------------------------------
// one handshake + round trip, both ends
// ------------------------------------------------------------------------------------------------
#[derive(Default)]
struct Side {
    hs: String,
    rt: String,
    data: String,
    err: String,
    peer: Value,
    proto: String,
    /// rustls's `handshake_kind()` of this end: "full" | "full_hrr" | "resumed" | "" (no handshake completed)
    kind: String,
    /// client end, returning clients only: the store handed out a ticket / session for this ClientHello
    offered: bool,
    /// client end, returning clients only: tickets / sessions this connect put into the store
    stored: u64,
    /// client end: made by a returning client (a kept ClientConfig)
    keep: bool,
}

impl Side {
    fn new() -> Self {
        Self { hs: "none".into(), rt: "skipped".into(), peer: peer_info(None), ..Default::default() }
    }
    fn failed(what: &str, text: String) -> Self {
        Self { hs: what.into(), err: text, ..Self::new() }
    }
}

async fn client_ping(st: &mut ClientStream, side: &mut Side) {
    let r: std::io::Result<[u8; 4]> = async {
        st.write_all(PING).await?;
        st.flush().await?;
        let mut buf = [0u8; 4];
        st.read_exact(&mut buf).await?;
        Ok(buf)
    }
    .await;
    match r {
        Ok(buf) => {
            side.rt = "ok".into();
            side.data = String::from_utf8_lossy(&buf).into_owned();
        }
        Err(e) => {
            let (k, t) = classify_io(&e);
            side.rt = k.into();
            side.err = t;
        }
    }
    side.peer = peer_info(st.get_ref().1.peer_certificates());
}

async fn server_echo(st: &mut ServerStream, side: &mut Side) {
    let r: std::io::Result<[u8; 4]> = async {
        let mut buf = [0u8; 4];
        st.read_exact(&mut buf).await?;
        st.write_all(&buf).await?;
        st.flush().await?;
        Ok(buf)
    }
    .await;
    match r {
        Ok(buf) => {
            side.rt = "ok".into();
            side.data = String::from_utf8_lossy(&buf).into_owned();
        }
        Err(e) => {
            let (k, t) = classify_io(&e);
            side.rt = k.into();
            side.err = t;
        }
    }
    side.peer = peer_info(st.get_ref().1.peer_certificates());
}

struct ClientCfg {
    name: String,
    cert: Option<String>,
    key: Option<String>,
    ca: Option<String>,
    skip: bool,
}

async fn client_side(io: DuplexStream, cfg: ClientCfg) -> (Side, Option<ClientStream>) {
    let r = tls_connect(io, &cfg.name, cfg.cert.as_deref(), cfg.key.as_deref(), cfg.ca.as_deref(), cfg.skip).await;
    match r {
        Err(e) => {
            let (k, t) = classify_tls(&e);
            (Side::failed(k, t), None)
        }
        Ok(mut st) => {
            let mut side = Side::new();
            side.hs = "ok".into();
            side.proto = format!("{:?}", st.get_ref().1.protocol_version());
            side.kind = kind_text(st.get_ref().1.handshake_kind());
            client_ping(&mut st, &mut side).await;
            (side, Some(st))
        }
    }
}

// ------------------------------------------------------------------------------------------------
// returning clients: a raw rustls client whose ClientConfig (resumption store) is kept across connections
// ------------------------------------------------------------------------------------------------
/// rustls's in-memory client session store, observed: what it handed out and what was put into it.
#[derive(Debug)]
struct SpyStore {
    inner: rustls::client::ClientSessionMemoryCache,
    /// tickets (TLS 1.3) / sessions (TLS 1.2) handed out for a ClientHello so far
    handed_out: std::sync::atomic::AtomicU64,
    /// tickets / sessions stored so far
    stored: std::sync::atomic::AtomicU64,
}

impl rustls::client::ClientSessionStore for SpyStore {
    fn set_kx_hint(&self, server_name: rustls::pki_types::ServerName<'static>, group: rustls::NamedGroup) {
        self.inner.set_kx_hint(server_name, group);
    }
    fn kx_hint(&self, server_name: &rustls::pki_types::ServerName<'_>) -> Option<rustls::NamedGroup> {
        self.inner.kx_hint(server_name)
    }
    fn set_tls12_session(&self, server_name: rustls::pki_types::ServerName<'static>, value: rustls::client::Tls12ClientSessionValue) {
        self.stored.fetch_add(1, std::sync::atomic::Ordering::SeqCst);
        self.inner.set_tls12_session(server_name, value);
    }
    fn tls12_session(&self, server_name: &rustls::pki_types::ServerName<'_>) -> Option<rustls::client::Tls12ClientSessionValue> {
        let r = self.inner.tls12_session(server_name);
        if r.is_some() {
            self.handed_out.fetch_add(1, std::sync::atomic::Ordering::SeqCst);
        }
        r
    }
    fn remove_tls12_session(&self, server_name: &rustls::pki_types::ServerName<'static>) {
        self.inner.remove_tls12_session(server_name);
    }
    fn insert_tls13_ticket(&self, server_name: rustls::pki_types::ServerName<'static>, value: rustls::client::Tls13ClientSessionValue) {
        self.stored.fetch_add(1, std::sync::atomic::Ordering::SeqCst);
        self.inner.insert_tls13_ticket(server_name, value);
    }
    fn take_tls13_ticket(&self, server_name: &rustls::pki_types::ServerName<'static>) -> Option<rustls::client::Tls13ClientSessionValue> {
        let r = self.inner.take_tls13_ticket(server_name);
        if r.is_some() {
            self.handed_out.fetch_add(1, std::sync::atomic::Ordering::SeqCst);
        }
        r
    }
}

/// One returning client: built once per script and client certificate, used for all its connections.
struct KeptClient {
    config: Arc<rustls::ClientConfig>,
    spy: Arc<SpyStore>,
}

impl KeptClient {
    fn counters(&self) -> (u64, u64) {
        (self.spy.handed_out.load(std::sync::atomic::Ordering::SeqCst), self.spy.stored.load(std::sync::atomic::Ordering::SeqCst))
    }
}

/// A raw rustls client configuration (NOT the application's): one protocol version, verifies the server against `ca`,
/// presents `cert` if asked, ALPN http/1.1 as `tls_connect` does, resumption through a SpyStore of its own.
fn make_kept_client(cfg: &ClientCfg, tls: &str) -> KeptClient {
    use rustls::pki_types::pem::PemObject as _;
    use rustls::pki_types::{CertificateDer, PrivateKeyDer};
    assert!(!cfg.skip, "tool: the returning client has no skip-verify arm");
    let mut roots = rustls::RootCertStore::empty();
    for c in CertificateDer::pem_file_iter(cfg.ca.as_deref().expect("tool: ca")).expect("tool: ca file") {
        roots.add(c.expect("tool: ca pem")).expect("tool: ca cert");
    }
    let version: &'static rustls::SupportedProtocolVersion = match tls {
        "1.3" => &rustls::version::TLS13,
        "1.2" => &rustls::version::TLS12,
        other => panic!("tool: unknown TLS version {other}"),
    };
    let provider = rustls::crypto::CryptoProvider::get_default().expect("tool: provider").clone();
    let b = rustls::ClientConfig::builder_with_provider(provider)
        .with_protocol_versions(&[version])
        .expect("tool: protocol version")
        .with_root_certificates(roots);
    let mut config = match (&cfg.cert, &cfg.key) {
        (Some(c), Some(k)) => {
            let chain: Vec<CertificateDer<'static>> =
                CertificateDer::pem_file_iter(c).expect("tool: cert file").map(|x| x.expect("tool: cert pem")).collect();
            let key = PrivateKeyDer::from_pem_file(k).expect("tool: key file");
            b.with_client_auth_cert(chain, key).expect("tool: client auth")
        }
        _ => b.with_no_client_auth(),
    };
    config.alpn_protocols = vec![b"http/1.1".to_vec()];
    let spy = Arc::new(SpyStore {
        inner: rustls::client::ClientSessionMemoryCache::new(64),
        handed_out: std::sync::atomic::AtomicU64::new(0),
        stored: std::sync::atomic::AtomicU64::new(0),
    });
    config.resumption = rustls::client::Resumption::store(spy.clone());
    KeptClient { config: Arc::new(config), spy }
}

/// The returning clients of one script: one per client certificate, made when first needed.
struct KeptClients {
    tls: String,
    by_cc: HashMap<String, Arc<KeptClient>>,
}

impl KeptClients {
    fn new(tls: &str) -> Self {
        Self { tls: tls.to_string(), by_cc: HashMap::new() }
    }
    fn get(&mut self, cc: &str, cfg: &ClientCfg) -> Arc<KeptClient> {
        let tls = self.tls.clone();
        self.by_cc.entry(cc.to_string()).or_insert_with(|| Arc::new(make_kept_client(cfg, &tls))).clone()
    }
}

/// What a returning client's store did during one connect, into the Side.
fn put_store_delta(side: &mut Side, kc: &KeptClient, before: (u64, u64)) {
    let after = kc.counters();
    side.keep = true;
    side.offered = after.0 > before.0;
    side.stored = after.1 - before.1;
}

/// A returning client connects over the duplex: handshake with the KEPT configuration, then the round trip (which
/// also takes in the session tickets the server sent after its Finished).
async fn kept_client_side(io: DuplexStream, kc: Arc<KeptClient>, name: String) -> (Side, Option<ClientStream>) {
    let before = kc.counters();
    let connector = tokio_rustls::TlsConnector::from(kc.config.clone());
    let sname = rustls::pki_types::ServerName::try_from(name).expect("tool: server name");
    match connector.connect(sname, io).await {
        Err(e) => {
            let (k, t) = classify_io(&e);
            let mut side = Side::failed(k, t);
            put_store_delta(&mut side, &kc, before);
            (side, None)
        }
        Ok(st) => {
            let mut st = tokio_rustls::TlsStream::Client(st);
            let mut side = Side::new();
            side.hs = "ok".into();
            side.proto = format!("{:?}", st.get_ref().1.protocol_version());
            side.kind = kind_text(st.get_ref().1.handshake_kind());
            client_ping(&mut st, &mut side).await;
            put_store_delta(&mut side, &kc, before);
            (side, Some(st))
        }
    }
}

/// Reference client of the harness (NOT the application's): rustls defaults, TLS 1.2 only, verifies the
/// server against `cfg.ca`, presents `cfg.cert` if asked.
async fn ref12_client_side(io: DuplexStream, cfg: ClientCfg) -> (Side, Option<ClientStream>) {
    use rustls::pki_types::pem::PemObject as _;
    use rustls::pki_types::{CertificateDer, PrivateKeyDer, ServerName};
    assert!(!cfg.skip, "tool: the reference client has no skip-verify arm");
    let mut roots = rustls::RootCertStore::empty();
    for c in CertificateDer::pem_file_iter(cfg.ca.as_deref().expect("tool: ca")).expect("tool: ca file") {
        roots.add(c.expect("tool: ca pem")).expect("tool: ca cert");
    }
    let provider = rustls::crypto::CryptoProvider::get_default().expect("tool: provider").clone();
    let b = rustls::ClientConfig::builder_with_provider(provider)
        .with_protocol_versions(&[&rustls::version::TLS12])
        .expect("tool: TLS 1.2")
        .with_root_certificates(roots);
    let config = match (&cfg.cert, &cfg.key) {
        (Some(c), Some(k)) => {
            let chain: Vec<CertificateDer<'static>> =
                CertificateDer::pem_file_iter(c).expect("tool: cert file").map(|x| x.expect("tool: cert pem")).collect();
            let key = PrivateKeyDer::from_pem_file(k).expect("tool: key file");
            b.with_client_auth_cert(chain, key).expect("tool: client auth")
        }
        _ => b.with_no_client_auth(),
    };
    let connector = tokio_rustls::TlsConnector::from(Arc::new(config));
    let name = ServerName::try_from(cfg.name.clone()).expect("tool: server name");
    match connector.connect(name, io).await {
        Err(e) => {
            let (k, t) = classify_io(&e);
            (Side::failed(k, t), None)
        }
        Ok(st) => {
            let mut st = tokio_rustls::TlsStream::Client(st);
            let mut side = Side::new();
            side.hs = "ok".into();
            side.proto = format!("{:?}", st.get_ref().1.protocol_version());
            side.kind = kind_text(st.get_ref().1.handshake_kind());
            client_ping(&mut st, &mut side).await;
            (side, Some(st))
        }
    }
}

/// The serve path of the server: acceptor from the (already loaded) configuration, accept, then serve.
async fn server_side(io: DuplexStream, cfg: Arc<tls::TlsIdentityInner>) -> (Side, Option<ServerStream>) {
    match tokio_rustls::TlsAcceptor::from(cfg).accept(io).await {
        Err(e) => {
            let (k, t) = classify_io(&e);
            (Side::failed(k, t), None)
        }
        Ok(mut st) => {
            let mut side = Side::new();
            side.hs = "ok".into();
            side.proto = format!("{:?}", st.get_ref().1.protocol_version());
            side.kind = kind_text(st.get_ref().1.handshake_kind());
            server_echo(&mut st, &mut side).await;
            (side, Some(st))
        }
    }
}

fn panic_text(p: &(dyn std::any::Any + Send)) -> String {
    p.downcast_ref::<String>()
        .cloned()
        .or_else(|| p.downcast_ref::<&str>().map(|s| (*s).to_string()))
        .unwrap_or_default()
}

/// Run a future as a task: a panic or a hang of the code under test is data.
async fn guarded<T: Send + 'static>(
    f: impl std::future::Future<Output = (Side, Option<T>)> + Send + 'static,
) -> (Side, Option<T>) {
    match tokio::spawn(tokio::time::timeout(STEP_TIMEOUT, f)).await {
        Ok(Ok(r)) => r,
        Ok(Err(_)) => (Side::failed("timeout", "no progress".into()), None),
        Err(e) if e.is_panic() => {
            (Side::failed("panic", panic_text(e.into_panic().as_ref())), None)
        }
        Err(e) => (Side::failed("cancelled", e.to_string()), None),
    }
}

fn put_sides(line: &mut Value, c: &Side, s: &Side) {
    let o = line.as_object_mut().expect("object");
    o.insert("client_hs".into(), json!(c.hs));
    o.insert("client_rt".into(), json!(c.rt));
    o.insert("cli_data".into(), json!(c.data));
    o.insert("client_err".into(), json!(c.err));
    o.insert("seen_cn".into(), c.peer["cn"].clone());
    o.insert("seen_serial".into(), c.peer["serial"].clone());
    o.insert("seen_issuer".into(), c.peer["issuer"].clone());
    o.insert("server_hs".into(), json!(s.hs));
    o.insert("server_rt".into(), json!(s.rt));
    o.insert("srv_data".into(), json!(s.data));
    o.insert("server_err".into(), json!(s.err));
    o.insert("srv_saw_client_cert".into(), json!(s.peer["n"].as_u64().unwrap_or(0) > 0));
    o.insert("srv_saw_client_cn".into(), s.peer["cn"].clone());
    o.insert("proto".into(), json!(if c.proto.is_empty() { s.proto.clone() } else { c.proto.clone() }));
    o.insert("seen_fp".into(), c.peer["fp"].clone());
    put_resumption(o, c);
    o.insert("srv_hs_kind".into(), json!(s.kind));
    o.insert("srv_resumed".into(), json!(s.kind == "resumed"));
}

/// what the client end observed of resumption: whether it is a returning client, what its store handed out / took in,
/// rustls's handshake kind
fn put_resumption(o: &mut serde_json::Map<String, Value>, c: &Side) {
    o.insert("keep".into(), json!(c.keep));
    o.insert("offered".into(), json!(c.offered));
    o.insert("stored".into(), json!(c.stored));
    o.insert("hs_kind".into(), json!(c.kind));
    o.insert("resumed".into(), json!(c.kind == "resumed"));
}

fn merge(mut a: Value, b: &Value) -> Value {
    for (k, v) in b.as_object().expect("object") {
        a.as_object_mut().expect("object").insert(k.clone(), v.clone());
    }
    a
}

fn client_cert_paths(pki: &Pki, which: &str) -> (Option<String>, Option<String>) {
    match which {
        "none" => (None, None),
        w => (Some(pki.path(&format!("cli_{w}.crt"))), Some(pki.path(&format!("cli_{w}.key")))),
    }
}

// ------------------------------------------------------------------------------------------------
// a cell of the matrix
// ------------------------------------------------------------------------------------------------
async fn run_case(pki: &Pki, k: &Value) -> Value {
    let server_cert = k["serverCert"].as_str().expect("tool: serverCert").to_string();
    let name_matches = k["nameMatches"].as_bool().expect("tool: nameMatches");
    let skip = k["skipVerify"].as_bool().expect("tool: skipVerify");
    let client_cert = k["clientCert"].as_str().expect("tool: clientCert").to_string();
    let server_ca = k["serverClientCA"].as_str().expect("tool: serverClientCA").to_string();
    // "penguin": the application's `tls_connect` (TLS 1.3 only: it always sends an ECH GREASE extension);
    // "ref12": a plain rustls client of this harness restricted to TLS 1.2, to exercise the application's
    // SERVER configuration under TLS 1.2 (the client-side decision is then rustls's own, not the application's)
    let client_kind = k["client"].as_str().unwrap_or("penguin").to_string();
    let mut line = merge(
        json!({"ev": "case", "client": client_kind, "serverCert": server_cert, "nameMatches": name_matches,
               "skipVerify": skip, "clientCert": client_cert, "serverClientCA": server_ca}),
        &pki.tags(),
    );
    let m = if name_matches { "match" } else { "differ" };
    let scrt = pki.path(&format!("srv_{server_cert}_{m}.crt"));
    let skey = pki.path(&format!("srv_{server_cert}_{m}.key"));
    let sca = (server_ca == "configured").then(|| pki.path("ca_trusted.pem"));
    let (ccrt, ckey) = client_cert_paths(pki, &client_cert);
    let ccfg = ClientCfg { name: pki.req_name.clone(), cert: ccrt, key: ckey, ca: Some(pki.path("ca_trusted.pem")), skip };

    let (cio, sio) = tokio::io::duplex(1 << 16);
    let server = guarded(async move {
        match make_server_config(&scrt, &skey, sca.as_deref()).await {
            Ok(cfg) => server_side(sio, Arc::new(cfg)).await,
            Err(e) => (Side::failed("config_err", format!("{e:?}")), None),
        }
    });
    let ((c, cst), (s, sst)) = if client_kind == "ref12" {
        tokio::join!(guarded(ref12_client_side(cio, ccfg)), server)
    } else {
        tokio::join!(guarded(client_side(cio, ccfg)), server)
    };
    put_sides(&mut line, &c, &s);
    if let Some(mut st) = cst {
        let _ = tokio::time::timeout(Duration::from_secs(2), st.shutdown()).await;
    }
    drop(sst);
    line
}

// ------------------------------------------------------------------------------------------------
// a reload script
// ------------------------------------------------------------------------------------------------
async fn run_script(pki: &Pki, s: &Value, out: &mut Vec<Value>) {
    let id = s["id"].clone();
    let mtls = s["mtls"].as_bool().unwrap_or(false);
    let ops = s["ops"].as_array().expect("tool: ops").clone();
    // the protocol version the returning clients ("keep") of this script speak
    let tls = s["tls"].as_str().unwrap_or("1.3").to_string();
    let mut kept = KeptClients::new(&tls);
    out.push(merge(json!({"ev": "script", "id": id, "mtls": mtls, "ops": ops, "tls": tls}), &pki.tags()));
    let live_crt = pki.path("live.crt");
    let live_key = pki.path("live.key");
    // the server's client CA bundle: ONE path for the whole script (and for every script of this process); its
    // content starts as generation 0 (the trusted CA) and is replaced in place by "rotate"
    let sca = mtls.then(|| pki.path(CLIENT_CA_LIVE));
    let mut version = 0usize;
    let (mut ca_gen, mut ca_loaded) = (0usize, 0usize);
    pki.install_ident(0);
    pki.install_ca(CLIENT_CA_LIVE, 0);
    // which kind of junk the n-th botch of this script writes: all four kinds come round over the scripts
    let junk_base = id.as_u64().unwrap_or(0);
    let mut botched = 0usize;
    // the client CA bundle at the path is junk (written by "botch" / "badstart"); the next "reload" restores it first
    let mut ca_broken = false;
    // a script may BEGIN with a start-up on an unusable client CA bundle ("badstart"): if that yields a server, the
    // script goes on with THAT server; if it is refused, the bundle is repaired and the server started as usual
    let mut identity = None;
    let mut badstart = None;
    if mtls && ops.first().is_some_and(|o| o["op"] == "badstart") {
        let junk = pki.break_ca(CLIENT_CA_LIVE, junk_base);
        match make_tls_identity(&live_crt, &live_key, sca.as_deref()).await {
            Ok(i) => {
                identity = Some(i);
                ca_broken = true;
                badstart = Some(json!({"res": "ok", "err": "", "junk": junk}));
            }
            Err(e) => {
                badstart = Some(json!({"res": "err", "err": format!("{e:?}"), "junk": junk}));
                pki.install_ca(CLIENT_CA_LIVE, 0);
            }
        }
    }
    let identity = match identity {
        Some(i) => i,
        None => match make_tls_identity(&live_crt, &live_key, sca.as_deref()).await {
            Ok(i) => i,
            Err(e) => {
                out.push(json!({"ev": "step", "id": id, "i": 0, "op": "init", "conn": 0, "res": "err", "err": format!("{e:?}")}));
                return;
            }
        },
    };
    let mut conns: Vec<Option<(ClientStream, ServerStream)>> = Vec::new();
    for (i, op) in ops.iter().enumerate() {
        let kind = op["op"].as_str().expect("tool: op");
        let conn = op["conn"].as_u64().unwrap_or(0) as usize;
        let mut line = json!({"ev": "step", "id": id, "i": i + 1, "op": kind, "conn": conn, "mtls": mtls,
                              "ca_gen": ca_gen, "ca_loaded": ca_loaded, "botched": botched, "ca_broken": ca_broken});
        match kind {
            "badstart" => {
                // (executed above, before the server existed)
                let b = badstart.take().expect("tool: badstart is the first operation of a mutual-TLS script");
                line = merge(line, &b);
                line["cause"] = json!("ca");
                line["path"] = json!(CLIENT_CA_LIVE);
            }
            "botch" => {
                // a reload request that finds the client CA bundle unusable: the file at the configured path is
                // overwritten in place with junk, certificate and key stay as they are, reload_tls_identity is called
                assert!(op["cause"] == "ca" && mtls, "tool: a duplex botch is one of the client CA bundle");
                botched += 1;
                let junk = pki.break_ca(CLIENT_CA_LIVE, junk_base + botched as u64);
                ca_broken = true;
                let r = {
                    let identity = identity.clone();
                    let (a, b, c) = (live_crt.clone(), live_key.clone(), sca.clone());
                    tokio::spawn(tokio::time::timeout(STEP_TIMEOUT, async move {
                        reload_tls_identity(&identity, &a, &b, c.as_deref()).await
                    }))
                    .await
                };
                let (res, err) = match r {
                    Ok(Ok(Ok(()))) => ("ok", String::new()),
                    Ok(Ok(Err(e))) => ("err", format!("{e:?}")),
                    Ok(Err(_)) => ("timeout", String::new()),
                    Err(e) => (if e.is_panic() { "panic" } else { "cancelled" }, e.to_string()),
                };
                line["res"] = json!(res);
                line["err"] = json!(err);
                line["n"] = json!(botched);
                line["cause"] = json!("ca");
                line["junk"] = json!(junk);
                line["path"] = json!(CLIENT_CA_LIVE);
            }
            "connect" => {
                // without "cc": the client that was set up for this server (scripts without rotation)
                let cc = op["cc"].as_str().unwrap_or(if mtls { "trustedCA" } else { "none" }).to_string();
                line["cc"] = json!(cc);
                pki.ensure_named(&cc);
                let (ccrt, ckey) = client_cert_paths(pki, &cc);
                let ccfg = ClientCfg {
                    name: pki.req_name.clone(),
                    cert: ccrt,
                    key: ckey,
                    ca: Some(pki.path("ca_trusted.pem")),
                    skip: false,
                };
                let (cio, sio) = tokio::io::duplex(1 << 16);
                // `run_listener`: the configuration is loaded when the connection is accepted
                let cfg = identity.load_full();
                let keep = op["keep"].as_bool().unwrap_or(false);
                line["tls"] = json!(if keep { tls.as_str() } else { "1.3" });
                let ((c, cst), (s, sst)) = if keep {
                    // a returning client: the ClientConfig made for this certificate at its first connect of the script
                    let kc = kept.get(&cc, &ccfg);
                    tokio::join!(guarded(kept_client_side(cio, kc, pki.req_name.clone())), guarded(server_side(sio, cfg)))
                } else {
                    tokio::join!(guarded(client_side(cio, ccfg)), guarded(server_side(sio, cfg)))
                };
                put_sides(&mut line, &c, &s);
                line["keep"] = json!(keep);
                // conn = the slot the script gives this connection (0: the script does not keep it)
                let both = match (cst, sst) {
                    (Some(a), Some(b)) => Some((a, b)),
                    _ => None,
                };
                if conn > 0 {
                    if conns.len() < conn {
                        conns.resize_with(conn, || None);
                    }
                    conns[conn - 1] = both;
                }
            }
            "rotate" => {
                ca_gen += 1;
                pki.install_ca(CLIENT_CA_LIVE, ca_gen);
                line["res"] = json!("ok");
                line["to"] = json!(ca_gen);
                line["path"] = json!(CLIENT_CA_LIVE);
            }
            "reload" => {
                version += 1;
                ca_loaded = ca_gen;
                if ca_broken {
                    // the operator restores the bundle (the generation that was at the path) before this reload
                    pki.install_ca(CLIENT_CA_LIVE, ca_gen);
                    ca_broken = false;
                }
                pki.install_ident(version);
                let r = {
                    let identity = identity.clone();
                    let (a, b, c) = (live_crt.clone(), live_key.clone(), sca.clone());
                    tokio::spawn(tokio::time::timeout(STEP_TIMEOUT, async move {
                        reload_tls_identity(&identity, &a, &b, c.as_deref()).await
                    }))
                    .await
                };
                let (res, err) = match r {
                    Ok(Ok(Ok(()))) => ("ok", String::new()),
                    Ok(Ok(Err(e))) => ("err", format!("{e:?}")),
                    Ok(Err(_)) => ("timeout", String::new()),
                    Err(e) => (if e.is_panic() { "panic" } else { "cancelled" }, e.to_string()),
                };
                line["res"] = json!(res);
                line["err"] = json!(err);
                line["to"] = json!(version);
            }
            "use" => {
                let slot = conns.get_mut(conn.wrapping_sub(1)).and_then(Option::take);
                match slot {
                    None => {
                        put_sides(&mut line, &Side::failed("gone", String::new()), &Side::failed("gone", String::new()));
                    }
                    Some((cst, sst)) => {
                        let cl = guarded(async move {
                            let mut st = cst;
                            let mut side = Side::new();
                            side.hs = "ok".into();
                            client_ping(&mut st, &mut side).await;
                            (side, Some(st))
                        });
                        let sv = guarded(async move {
                            let mut st = sst;
                            let mut side = Side::new();
                            side.hs = "ok".into();
                            server_echo(&mut st, &mut side).await;
                            (side, Some(st))
                        });
                        let ((c, cst), (s, sst)) = tokio::join!(cl, sv);
                        put_sides(&mut line, &c, &s);
                        if let (Some(a), Some(b)) = (cst, sst) {
                            conns[conn - 1] = Some((a, b));
                        }
                    }
                }
            }
            other => panic!("tool: unknown operation {other}"),
        }
        out.push(line);
    }
}

// ------------------------------------------------------------------------------------------------
// a client-side script: the roots file of the client replaced in place
// ------------------------------------------------------------------------------------------------
// One client "process" (this one), pointed at ONE roots file for all its connections: roots_live.pem of the PKI set.
// "rotate" overwrites the file in place with the next generation of the CA; "connect" is the application's
// `tls_connect` with that path against a server (the application's make_server_config, no client CA) presenting a
// certificate for the requested name issued by `srv`.
async fn run_cscript(pki: &Pki, s: &Value, out: &mut Vec<Value>) {
    let id = s["id"].clone();
    let ops = s["ops"].as_array().expect("tool: ops").clone();
    out.push(merge(json!({"ev": "cscript", "id": id, "ops": ops}), &pki.tags()));
    let mut roots = 0usize;
    pki.install_ca(ROOTS_LIVE, 0);
    for (i, op) in ops.iter().enumerate() {
        let kind = op["op"].as_str().expect("tool: op");
        let mut line = json!({"ev": "cstep", "id": id, "i": i + 1, "op": kind, "roots": roots, "path": ROOTS_LIVE});
        match kind {
            "connect" => {
                let srv = op["srv"].as_str().expect("tool: srv").to_string();
                line["srv"] = json!(srv);
                pki.ensure_named(&srv);
                let scrt = pki.path(&format!("srv_{srv}_match.crt"));
                let skey = pki.path(&format!("srv_{srv}_match.key"));
                let ccfg = ClientCfg { name: pki.req_name.clone(), cert: None, key: None, ca: Some(pki.path(ROOTS_LIVE)), skip: false };
                let (cio, sio) = tokio::io::duplex(1 << 16);
                let server = guarded(async move {
                    match make_server_config(&scrt, &skey, None).await {
                        Ok(cfg) => server_side(sio, Arc::new(cfg)).await,
                        Err(e) => (Side::failed("config_err", format!("{e:?}")), None),
                    }
                });
                let ((c, cst), (s, sst)) = tokio::join!(guarded(client_side(cio, ccfg)), server);
                put_sides(&mut line, &c, &s);
                if let Some(mut st) = cst {
                    let _ = tokio::time::timeout(Duration::from_secs(2), st.shutdown()).await;
                }
                drop(sst);
            }
            "rotate" => {
                roots += 1;
                pki.install_ca(ROOTS_LIVE, roots);
                line["res"] = json!("ok");
                line["to"] = json!(roots);
            }
            other => panic!("tool: unknown operation {other}"),
        }
        out.push(line);
    }
}

// ------------------------------------------------------------------------------------------------
// real-server scripts: server_main + SIGUSR1
// ------------------------------------------------------------------------------------------------
// What the duplex scripts above cannot see is the path the running server takes to a reload:
// `server_main` -> `check_start_tls` -> `register_signal_handler` -> SIGUSR1 -> `reload_tls_identity` with the
// arguments the SERVER kept.  Here `rusty_penguin_lib::server::server_main` runs in this process on a loopback
// TCP port with --tls-cert / --tls-key (and --tls-ca for mtls scripts) pointing at live.crt / live.key of the
// PKI set; connections are made with the application's `tls_connect` over real TCP, an HTTP/1.1 request (the
// server answers with its 404 body) is the application-data round trip ("reached the server"); a reload
// rewrites live.crt / live.key and sends SIGUSR1 to this process.
//
// SIGUSR1 is process-wide.  Every script gets its OWN tokio runtime which is shut down when the script ends:
// `server_main`, its listeners and the task of `register_signal_handler` die with it, so at any time at most
// one server (one SIGUSR1 reload task) lives in this process.  A server whose start failed on a port clash has
// already registered its reload task: its runtime is dropped as well before the next attempt.
//
// Waiting for a reload without sleep-and-hope:
//  (1) this harness holds its own tokio listener for SIGUSR1 (registered before the server starts, which also
//      means the default action "terminate" is never in force when the signal is raised).  After kill() the
//      harness waits for its own listener: tokio broadcasts a signal to all listeners, so from then on the
//      server's reload task has been woken too.  Not seeing the own signal within SIGNAL_DEADLINE means the
//      harness cannot do its job: TOOL ERROR (panic "tool:"), never a verdict.
//  (2) then it polls with probe handshakes presenting what the NEW identity must accept (the trusted client
//      certificate for mtls, none otherwise) until one of them is served the new certificate (serial 100+v;
//      in TLS 1.3 the client holds the server's certificate even if the server then refuses the client) ->
//      res "ok".  If RELOAD_DEADLINE passes with the signal delivered and the probes still being served the old
//      identity (or failing), that is an OBSERVATION, logged as res "stale" / "unreachable" with what the last
//      probe saw; TLC rejects the line (reload_not_effective / reload_failed).  The deadline is only a bound on
//      how long a server that was woken may take to read three small files; nothing is compared across
//      processes and no fixed sleep decides anything.
// Tool errors (exit != 0 of this program): no free port after PORT_ATTEMPTS attempts (`server_main` returning
// AddrInUse is a port clash, not a finding), `server_main` still running but not listening on its port after
// START_DEADLINE, the own SIGUSR1 listener silent.
// Everything else (server_main returning / failing after start, refused or hanging handshakes, panics of the
// client code) is data.
type RealStream = tokio_rustls::TlsStream<tokio::net::TcpStream>;

const START_DEADLINE: Duration = Duration::from_secs(30);
const SIGNAL_DEADLINE: Duration = Duration::from_secs(30);
const RELOAD_DEADLINE: Duration = Duration::from_secs(30);
/// once a reload of this run was seen NOT to take effect within RELOAD_DEADLINE the verdict of the run is a
/// rejected line already; later reloads wait this long only, so that a server that never reloads does not cost
/// RELOAD_DEADLINE per script
const RELOAD_DEADLINE_AFTER_STALE: Duration = Duration::from_secs(2);
static STALE_SEEN: std::sync::atomic::AtomicBool = std::sync::atomic::AtomicBool::new(false);
/// after SIGUSR1 with an unusable client CA bundle: time given to the server's reload task before the next operation
const BOTCH_SETTLE: Duration = Duration::from_millis(40);
const PORT_ATTEMPTS: usize = 8;
/// the server's --timeout (idle HTTP connections are closed after it): far above anything a script takes
const SERVER_TIMEOUT_SECS: u64 = 900;
const NOT_FOUND_BODY: &str = "verif-c17-not-found";

/// One HTTP/1.1 request / response on a kept-alive connection. Returns (status, body).
async fn http_round_trip(st: &mut RealStream, host: &str) -> std::io::Result<(u16, String)> {
    let eof = || std::io::Error::from(std::io::ErrorKind::UnexpectedEof);
    let req = format!("GET /verif-c17 HTTP/1.1\r\nHost: {host}\r\nUser-Agent: verif-c17\r\n\r\n");
    st.write_all(req.as_bytes()).await?;
    st.flush().await?;
    let mut buf: Vec<u8> = Vec::new();
    let mut chunk = [0u8; 2048];
    let head_end = loop {
        if let Some(p) = buf.windows(4).position(|w| w == b"\r\n\r\n") {
            break p + 4;
        }
        if buf.len() > 65536 {
            return Err(std::io::Error::other("response head too long"));
        }
        let n = st.read(&mut chunk).await?;
        if n == 0 {
            return Err(eof());
        }
        buf.extend_from_slice(&chunk[..n]);
    };
    let head = String::from_utf8_lossy(&buf[..head_end]).into_owned();
    let mut lines = head.split("\r\n");
    let status_line = lines.next().unwrap_or("");
    let mut parts = status_line.split(' ');
    let status = match (parts.next(), parts.next().and_then(|s| s.parse::<u16>().ok())) {
        (Some(v), Some(code)) if v.starts_with("HTTP/1.") => code,
        _ => return Err(std::io::Error::other(format!("not an HTTP/1.x response: {status_line:?}"))),
    };
    let mut len = 0usize;
    for l in lines {
        if let Some((k, v)) = l.split_once(':') {
            if k.eq_ignore_ascii_case("content-length") {
                len = v.trim().parse().map_err(|_| std::io::Error::other("bad content-length"))?;
            }
        }
    }
    if len > 65536 {
        return Err(std::io::Error::other("response body too long"));
    }
    while buf.len() < head_end + len {
        let n = st.read(&mut chunk).await?;
        if n == 0 {
            return Err(eof());
        }
        buf.extend_from_slice(&chunk[..n]);
    }
    Ok((status, String::from_utf8_lossy(&buf[head_end..head_end + len]).into_owned()))
}

/// What the client end of a real connection observed (Side + the HTTP status).
struct RealObs {
    side: Side,
    status: u16,
}

/// The server does not set TCP_NODELAY: after the handshake its session tickets go out first and the HTTP answer
/// waits (Nagle) for their ACK, which this end, having nothing to send, would delay by 40 ms. Setting
/// TCP_QUICKACK on the harness's OWN socket flushes a pending ACK; repeating it while a round trip is in flight
/// only shortens the run (25 s -> a few seconds for the quick tier) and changes nothing the server does.
fn quick_ack_fd(fd: std::os::fd::RawFd) {
    let one: libc::c_int = 1;
    // SAFETY: setsockopt with a valid pointer / length on a descriptor that is open for the duration of the
    // call (the stream it belongs to is borrowed by the caller); a failure is ignored
    unsafe {
        libc::setsockopt(
            fd,
            libc::IPPROTO_TCP,
            libc::TCP_QUICKACK,
            std::ptr::from_ref(&one).cast(),
            std::mem::size_of::<libc::c_int>() as libc::socklen_t,
        );
    }
}

async fn with_quick_ack<T>(fd: std::os::fd::RawFd, fut: impl std::future::Future<Output = T>) -> T {
    let mut fut = std::pin::pin!(fut);
    loop {
        quick_ack_fd(fd);
        tokio::select! {
            r = &mut fut => return r,
            () = tokio::time::sleep(Duration::from_millis(1)) => {}
        }
    }
}

async fn real_round_trip(st: &mut RealStream, host: &str, obs: &mut RealObs) {
    let fd = {
        use std::os::fd::AsRawFd as _;
        st.get_ref().0.as_raw_fd()
    };
    match with_quick_ack(fd, http_round_trip(st, host)).await {
        Ok((status, body)) => {
            obs.side.rt = "ok".into();
            obs.side.data = body;
            obs.status = status;
        }
        Err(e) => {
            let (k, t) = classify_io(&e);
            obs.side.rt = k.into();
            obs.side.err = t;
        }
    }
    obs.side.peer = peer_info(st.get_ref().1.peer_certificates());
}

/// TCP connect + the application's `tls_connect` + one round trip.
async fn real_client(port: u16, cfg: ClientCfg) -> (RealObs, Option<RealStream>) {
    let tcp = match tokio::net::TcpStream::connect(("127.0.0.1", port)).await {
        Ok(t) => t,
        Err(e) => return (RealObs { side: Side::failed("tcp_err", format!("{e:?}")), status: 0 }, None),
    };
    let _ = tcp.set_nodelay(true);
    let fd = {
        use std::os::fd::AsRawFd as _;
        tcp.as_raw_fd()
    };
    let hs = tls_connect(tcp, &cfg.name, cfg.cert.as_deref(), cfg.key.as_deref(), cfg.ca.as_deref(), cfg.skip);
    match with_quick_ack(fd, hs).await {
        Err(e) => {
            let (k, t) = classify_tls(&e);
            (RealObs { side: Side::failed(k, t), status: 0 }, None)
        }
        Ok(mut st) => {
            let mut obs = RealObs { side: Side::new(), status: 0 };
            obs.side.hs = "ok".into();
            obs.side.proto = format!("{:?}", st.get_ref().1.protocol_version());
            obs.side.kind = kind_text(st.get_ref().1.handshake_kind());
            real_round_trip(&mut st, &cfg.name, &mut obs).await;
            (obs, Some(st))
        }
    }
}

/// TCP connect + a returning client's handshake with its KEPT configuration + one round trip (the HTTP answer comes
/// after the session tickets the server sent, so they are in the store when this returns).
async fn real_kept_client(port: u16, kc: Arc<KeptClient>, name: String) -> (RealObs, Option<RealStream>) {
    let before = kc.counters();
    let tcp = match tokio::net::TcpStream::connect(("127.0.0.1", port)).await {
        Ok(t) => t,
        Err(e) => return (RealObs { side: Side::failed("tcp_err", format!("{e:?}")), status: 0 }, None),
    };
    let _ = tcp.set_nodelay(true);
    let fd = {
        use std::os::fd::AsRawFd as _;
        tcp.as_raw_fd()
    };
    let connector = tokio_rustls::TlsConnector::from(kc.config.clone());
    let sname = rustls::pki_types::ServerName::try_from(name.clone()).expect("tool: server name");
    match with_quick_ack(fd, connector.connect(sname, tcp)).await {
        Err(e) => {
            let (k, t) = classify_io(&e);
            let mut side = Side::failed(k, t);
            put_store_delta(&mut side, &kc, before);
            (RealObs { side, status: 0 }, None)
        }
        Ok(st) => {
            let mut st = tokio_rustls::TlsStream::Client(st);
            let mut obs = RealObs { side: Side::new(), status: 0 };
            obs.side.hs = "ok".into();
            obs.side.proto = format!("{:?}", st.get_ref().1.protocol_version());
            obs.side.kind = kind_text(st.get_ref().1.handshake_kind());
            real_round_trip(&mut st, &name, &mut obs).await;
            put_store_delta(&mut obs.side, &kc, before);
            (obs, Some(st))
        }
    }
}

/// `guarded` for the real client: a panic or a hang of the code under test is data.
async fn guarded_real(
    f: impl std::future::Future<Output = (RealObs, Option<RealStream>)> + Send + 'static,
) -> (RealObs, Option<RealStream>) {
    let (side, st) = guarded(async move {
        let (obs, st) = f.await;
        let status = obs.status;
        (obs.side, Some((status, st)))
    })
    .await;
    match st {
        Some((status, st)) => (RealObs { side, status }, st),
        None => (RealObs { side, status: 0 }, None),
    }
}

fn put_real(line: &mut Value, o: &RealObs) {
    let m = line.as_object_mut().expect("object");
    m.insert("client_hs".into(), json!(o.side.hs));
    m.insert("client_rt".into(), json!(o.side.rt));
    m.insert("http_status".into(), json!(o.status));
    m.insert("cli_data".into(), json!(o.side.data));
    m.insert("client_err".into(), json!(o.side.err));
    m.insert("seen_cn".into(), o.side.peer["cn"].clone());
    m.insert("seen_serial".into(), o.side.peer["serial"].clone());
    m.insert("seen_issuer".into(), o.side.peer["issuer"].clone());
    m.insert("proto".into(), json!(o.side.proto));
    m.insert("seen_fp".into(), o.side.peer["fp"].clone());
    put_resumption(m, &o.side);
}

fn real_client_cfg(pki: &Pki, cc: &str) -> ClientCfg {
    let (cert, key) = client_cert_paths(pki, cc);
    ClientCfg { name: pki.req_name.clone(), cert, key, ca: Some(pki.path("ca_trusted.pem")), skip: false }
}

fn free_port() -> u16 {
    // bind and release: the kernel hands out a port nobody listens on right now
    let l = std::net::TcpListener::bind(("127.0.0.1", 0)).expect("tool: cannot bind a loopback port");
    l.local_addr().expect("tool: local_addr").port()
}

/// Some(true): a LISTEN socket on 127.0.0.1:port belongs to this process; Some(false): none does (yet);
/// None: the socket table cannot be read.
fn listener_is_ours(port: u16) -> Option<bool> {
    let table = std::fs::read_to_string("/proc/self/net/tcp").ok()?;
    let want = format!("0100007F:{port:04X}");
    let mut inodes = Vec::new();
    for l in table.lines().skip(1) {
        let f: Vec<&str> = l.split_whitespace().collect();
        if f.len() > 9 && f[1] == want && f[3] == "0A" {
            inodes.push(f[9].to_string());
        }
    }
    if inodes.is_empty() {
        return Some(false);
    }
    for e in std::fs::read_dir("/proc/self/fd").ok()? {
        if let Ok(target) = std::fs::read_link(e.ok()?.path()) {
            let t = target.to_string_lossy();
            if inodes.iter().any(|i| t == format!("socket:[{i}]")) {
                return Some(true);
            }
        }
    }
    Some(false)
}

enum RealEnd {
    Done,
    /// the port picked was taken before `server_main` bound it: try again with a fresh runtime
    PortClash(String),
}

async fn real_script(pki: &Pki, s: &Value, out: &mut Vec<Value>) -> RealEnd {
    use rusty_penguin_lib::arg::ServerArgs;
    use rusty_penguin_lib::server::{Error as ServerError, server_main};
    let id = s["id"].clone();
    let mtls = s["mtls"].as_bool().unwrap_or(false);
    let ops = s["ops"].as_array().expect("tool: ops").clone();
    // the protocol version the returning clients ("keep") of this script speak
    let tls = s["tls"].as_str().unwrap_or("1.3").to_string();
    let mut kept = KeptClients::new(&tls);
    // (1) of the reload protocol; also disarms the default action of SIGUSR1 for good
    let mut own_usr1 = tokio::signal::unix::signal(tokio::signal::unix::SignalKind::user_defined1())
        .expect("tool: cannot listen for SIGUSR1");
    let mut version = 0usize;
    let (mut ca_gen, mut ca_loaded) = (0usize, 0usize);
    let mut botched = 0usize;
    // which kind of junk the n-th botched client CA bundle of this script is; the bundle at the path is junk
    let junk_base = id.as_u64().unwrap_or(0);
    let mut ca_broken = false;
    pki.install_ident(0);
    // --tls-ca: ONE path for the whole script (and every script of this process), generation 0 to begin with
    pki.install_ca(CLIENT_CA_LIVE, 0);
    let port = free_port();
    let args: &'static ServerArgs = Box::leak(Box::new(ServerArgs {
        host: vec!["127.0.0.1".to_string()],
        port: vec![port],
        tls_cert: Some(pki.path("live.crt")),
        tls_key: Some(pki.path("live.key")),
        tls_ca: mtls.then(|| pki.path(CLIENT_CA_LIVE)),
        not_found_resp: NOT_FOUND_BODY.to_string(),
        timeout: penguin_mux::timing::OptionalDuration::from_secs(SERVER_TIMEOUT_SECS),
        ..Default::default()
    }));
    out.push(merge(json!({"ev": "rscript", "id": id, "mtls": mtls, "ops": ops, "port": port, "tls": tls}), &pki.tags()));
    let mut server = tokio::spawn(server_main(args));
    // wait until `server_main` listens on the port (or has given up). "Listens" is read from the kernel's socket
    // table: a LISTEN socket on 127.0.0.1:port whose inode is one of this process's descriptors. That cannot be
    // confused with somebody else's listener that took the port in between (then `server_main` fails with
    // AddrInUse, see below). Without a readable /proc: a TCP connect that succeeds, followed by a grace period in
    // which a `server_main` that lost the port would have returned.
    let t0 = std::time::Instant::now();
    loop {
        if server.is_finished() {
            break;
        }
        match listener_is_ours(port) {
            Some(true) => break,
            Some(false) => {}
            None => {
                if tokio::net::TcpStream::connect(("127.0.0.1", port)).await.is_ok() {
                    tokio::time::sleep(Duration::from_millis(50)).await;
                    if !server.is_finished() {
                        break;
                    }
                    continue;
                }
            }
        }
        assert!(t0.elapsed() < START_DEADLINE, "tool: server_main is running but does not listen on 127.0.0.1:{port}");
        tokio::time::sleep(Duration::from_millis(1)).await;
    }
    if server.is_finished() {
        let init = |res: &str, err: String| json!({"ev": "rstep", "id": id, "i": 0, "op": "init", "conn": 0, "res": res, "err": err});
        match (&mut server).await {
            Ok(Err(ServerError::Io(e))) if e.kind() == std::io::ErrorKind::AddrInUse => {
                return RealEnd::PortClash(format!("{e:?}"));
            }
            // the server refuses to start with a configuration generated by this harness, or ends right away
            Ok(Err(e)) => out.push(init("err", format!("{e:?}"))),
            Ok(Ok(())) => out.push(init("returned", String::new())),
            Err(e) => out.push(init(if e.is_panic() { "panic" } else { "cancelled" }, e.to_string())),
        }
        return RealEnd::Done;
    }
    let mut conns: Vec<Option<RealStream>> = Vec::new();
    for (i, op) in ops.iter().enumerate() {
        let kind = op["op"].as_str().expect("tool: op");
        let conn = op["conn"].as_u64().unwrap_or(0) as usize;
        let mut line = json!({"ev": "rstep", "id": id, "i": i + 1, "op": kind, "conn": conn, "mtls": mtls, "reloads": version,
                              "ca_gen": ca_gen, "ca_loaded": ca_loaded, "botched": botched, "ca_broken": ca_broken});
        match kind {
            "botch" => {
                // an incomplete renewal: the key file (cause "key", the default) or the client CA bundle (cause "ca") is
                // unusable when the reload is requested. There is nothing to wait for but the delivery of the signal:
                // whether the server has already tried (and failed) or not, it serves the identity installed last; the
                // next "reload" writes a complete identity again (and restores the bundle).
                botched += 1;
                let cause = op["cause"].as_str().unwrap_or("key").to_string();
                let junk = if cause == "ca" {
                    assert!(mtls, "tool: a botched client CA bundle needs a server with --tls-ca");
                    ca_broken = true;
                    pki.break_ca(CLIENT_CA_LIVE, junk_base + botched as u64)
                } else {
                    std::fs::write(pki.dir.join("live.key"), "-----BEGIN NOTHING-----\nAAAA\n-----END NOTHING-----\n")
                        .expect("tool: overwrite key file");
                    "nokey"
                };
                line["cause"] = json!(cause);
                line["junk"] = json!(junk);
                // SAFETY: plain libc call; a handler for SIGUSR1 is installed (own_usr1 above)
                let rc = unsafe { libc::kill(libc::getpid(), libc::SIGUSR1) };
                assert!(rc == 0, "tool: kill(getpid(), SIGUSR1) failed");
                match tokio::time::timeout(SIGNAL_DEADLINE, own_usr1.recv()).await {
                    Ok(Some(())) => {}
                    _ => panic!("tool: SIGUSR1 was raised but not delivered to this process's listeners within {SIGNAL_DEADLINE:?}"),
                }
                if cause == "ca" {
                    // no judgement, only time for the server's reload task to read the three files (a connect that
                    // comes before it did is served by the previous configuration, as the property demands anyway)
                    tokio::time::sleep(BOTCH_SETTLE).await;
                }
                line["res"] = json!("signalled");
                line["n"] = json!(botched);
                line["server_running"] = json!(!server.is_finished());
            }
            "connect" => {
                let cc = op["cc"].as_str().expect("tool: cc").to_string();
                line["cc"] = json!(cc);
                pki.ensure_named(&cc);
                let keep = op["keep"].as_bool().unwrap_or(false);
                line["tls"] = json!(if keep { tls.as_str() } else { "1.3" });
                let (obs, st) = if keep {
                    // a returning client: the ClientConfig made for this certificate at its first connect of the script
                    let kc = kept.get(&cc, &real_client_cfg(pki, &cc));
                    guarded_real(real_kept_client(port, kc, pki.req_name.clone())).await
                } else {
                    guarded_real(real_client(port, real_client_cfg(pki, &cc))).await
                };
                put_real(&mut line, &obs);
                line["keep"] = json!(keep);
                // conn = the slot the script gives this connection (0: the script does not keep it)
                match (conn, st) {
                    (0, Some(mut st)) => {
                        let _ = tokio::time::timeout(Duration::from_secs(2), st.shutdown()).await;
                    }
                    (0, None) => {}
                    (k, st) => {
                        if conns.len() < k {
                            conns.resize_with(k, || None);
                        }
                        // a connection whose round trip failed is not usable
                        conns[k - 1] = if obs.side.rt == "ok" { st } else { None };
                    }
                }
            }
            "rotate" => {
                // the operator replaces the CA bundle in place; no signal
                ca_gen += 1;
                pki.install_ca(CLIENT_CA_LIVE, ca_gen);
                line["res"] = json!("ok");
                line["to"] = json!(ca_gen);
                line["path"] = json!(CLIENT_CA_LIVE);
            }
            "reload" => {
                version += 1;
                ca_loaded = ca_gen;
                if ca_broken {
                    // the operator restores the bundle (the generation that was at the path) before this reload
                    pki.install_ca(CLIENT_CA_LIVE, ca_gen);
                    ca_broken = false;
                }
                pki.install_ident(version);
                // the probes present what the NEW configuration must accept: the certificate of the CA generation at
                // the configured path (nothing without mutual TLS)
                let right = if mtls { gen_name(ca_gen) } else { "none".to_string() };
                pki.ensure_named(&right);
                line["cc"] = json!(right);
                let want_serial = 100 + version as u64;
                // SAFETY: plain libc call; a handler for SIGUSR1 is installed (own_usr1 above)
                let rc = unsafe { libc::kill(libc::getpid(), libc::SIGUSR1) };
                assert!(rc == 0, "tool: kill(getpid(), SIGUSR1) failed");
                match tokio::time::timeout(SIGNAL_DEADLINE, own_usr1.recv()).await {
                    Ok(Some(())) => {}
                    _ => panic!("tool: SIGUSR1 was raised but not delivered to this process's listeners within {SIGNAL_DEADLINE:?}"),
                }
                let t0 = std::time::Instant::now();
                let mut polls = 0u64;
                let (res, last) = loop {
                    polls += 1;
                    let (obs, st) = guarded_real(real_client(port, real_client_cfg(pki, &right))).await;
                    if let Some(mut st) = st {
                        let _ = tokio::time::timeout(Duration::from_secs(2), st.shutdown()).await;
                    }
                    if obs.side.peer["serial"].as_u64() == Some(want_serial) {
                        break ("ok", obs);
                    }
                    if obs.side.hs == "panic" {
                        break ("panic", obs);
                    }
                    let deadline = if STALE_SEEN.load(std::sync::atomic::Ordering::Relaxed) {
                        RELOAD_DEADLINE_AFTER_STALE
                    } else {
                        RELOAD_DEADLINE
                    };
                    if t0.elapsed() >= deadline {
                        STALE_SEEN.store(true, std::sync::atomic::Ordering::Relaxed);
                        break (if obs.side.hs == "tcp_err" { "unreachable" } else { "stale" }, obs);
                    }
                    tokio::time::sleep(Duration::from_millis(if polls < 50 { 2 } else { 50 })).await;
                };
                put_real(&mut line, &last);
                line["res"] = json!(res);
                line["to"] = json!(version);
                line["polls"] = json!(polls);
                line["signal"] = json!("delivered");
                line["server_running"] = json!(!server.is_finished());
            }
            "use" => match conns.get_mut(conn.wrapping_sub(1)).and_then(Option::take) {
                None => put_real(&mut line, &RealObs { side: Side::failed("gone", String::new()), status: 0 }),
                Some(st) => {
                    let host = pki.req_name.clone();
                    let (obs, st) = guarded_real(async move {
                        let mut st = st;
                        let mut obs = RealObs { side: Side::new(), status: 0 };
                        obs.side.hs = "ok".into();
                        real_round_trip(&mut st, &host, &mut obs).await;
                        (obs, Some(st))
                    })
                    .await;
                    put_real(&mut line, &obs);
                    conns[conn - 1] = if obs.side.rt == "ok" { st } else { None };
                }
            },
            other => panic!("tool: unknown operation {other}"),
        }
        out.push(line);
    }
    for st in conns.iter_mut().filter_map(Option::as_mut) {
        let _ = tokio::time::timeout(Duration::from_secs(2), st.shutdown()).await;
    }
    server.abort();
    let _ = server.await;
    RealEnd::Done
}

/// Runs one real-server script in a runtime of its own. A panic of the code under test outside the guarded
/// client tasks comes back as Err (data); tool errors are panics with the prefix "tool:" (checked by main).
fn run_real_script(pki: &Pki, s: &Value, out: &mut Vec<Value>) -> Result<(), Box<dyn std::any::Any + Send>> {
    let mut clashes = Vec::new();
    for _ in 0..PORT_ATTEMPTS {
        let rt = tokio::runtime::Builder::new_multi_thread().worker_threads(2).enable_all().build().expect("tool: runtime");
        let mut part = Vec::new();
        let r = rt.block_on(AssertUnwindSafe(real_script(pki, s, &mut part)).catch_unwind());
        // the server, its listeners and its SIGUSR1 task end here
        rt.shutdown_timeout(Duration::from_secs(5));
        match r {
            Ok(RealEnd::PortClash(e)) => clashes.push(e),
            Ok(RealEnd::Done) => {
                out.append(&mut part);
                return Ok(());
            }
            Err(p) => {
                out.append(&mut part);
                return Err(p);
            }
        }
    }
    panic!("tool: no free loopback port for server_main after {PORT_ATTEMPTS} attempts: {clashes:?}");
}

// ------------------------------------------------------------------------------------------------
fn main() {
    let args: Vec<String> = std::env::args().collect();
    if args.len() != 8 {
        eprintln!("usage: tls_matrix <cases.ndjson> <out.ndjson> <seed> <npki> <algs> <namekinds> <scratch-dir>");
        std::process::exit(2);
    }
    let input = std::fs::read_to_string(&args[1]).expect("tool: read cases");
    let seed: u64 = args[3].parse().expect("tool: seed");
    let npki: u64 = args[4].parse().expect("tool: npki");
    let algs: Vec<&str> = args[5].split(',').collect();
    let namekinds: Vec<&str> = args[6].split(',').collect();
    let scratch = PathBuf::from(&args[7]);
    std::fs::create_dir_all(&scratch).expect("tool: scratch directory");
    // the messages of caught panics are logged as data
    std::panic::set_hook(Box::new(|info| {
        let msg = info.payload().downcast_ref::<String>().cloned()
            .or_else(|| info.payload().downcast_ref::<&str>().map(|s| (*s).to_string()))
            .unwrap_or_default();
        if msg.starts_with("tool:") {
            eprintln!("{msg} ({:?})", info.location());
        }
    }));
    // the application's own provider selection
    let _ = tls::init_crypto_provider();

    let items: Vec<Value> = input
        .lines()
        .filter(|l| !l.trim().is_empty())
        .map(|l| serde_json::from_str(l).expect("tool: malformed case line"))
        .filter(|v: &Value| v["ev"] == "case" || v["ev"] == "script" || v["ev"] == "rscript" || v["ev"] == "cscript")
        .collect();

    let rt = tokio::runtime::Builder::new_multi_thread().worker_threads(2).enable_all().build().expect("tool: runtime");
    let mut cache: HashMap<(u64, String, String), Pki> = HashMap::new();
    let mut lines: Vec<Value> = Vec::new();
    for set in 0..npki {
        let r = splitmix(seed.wrapping_mul(1_000_003).wrapping_add(set));
        let def_alg = algs[(r % algs.len() as u64) as usize].to_string();
        let def_name = namekinds[((r >> 16) % namekinds.len() as u64) as usize].to_string();
        for item in &items {
            // pinned parameters (replay): executed once, in the first round
            let pinned = item.get("alg").is_some() && item.get("namekind").is_some();
            if pinned && set > 0 {
                continue;
            }
            let alg = item["alg"].as_str().map_or(def_alg.clone(), str::to_string);
            let namekind = item["namekind"].as_str().map_or(def_name.clone(), str::to_string);
            let index = item["pki"].as_u64().unwrap_or(set);
            let pki = cache
                .entry((index, alg.clone(), namekind.clone()))
                .or_insert_with(|| make_pki(&scratch, index, &alg, &namekind, splitmix(r)));
            // a panic outside the two guarded tasks (configuration code called inline) is data as well
            if item["ev"] == "case" {
                let r = rt.block_on(AssertUnwindSafe(run_case(pki, item)).catch_unwind());
                lines.push(r.unwrap_or_else(|p| {
                    let mut line = merge(merge(item.clone(), &pki.tags()), &json!({"ev": "case", "client": item["client"].as_str().unwrap_or("penguin")}));
                    let msg = panic_text(p.as_ref());
                    assert!(!msg.starts_with("tool:"), "{msg}");
                    put_sides(&mut line, &Side::failed("panic", msg.clone()), &Side::failed("panic", msg));
                    line
                }));
            } else if item["ev"] == "rscript" {
                let mut part = Vec::new();
                let r = run_real_script(pki, item, &mut part);
                let n = part.len();
                lines.append(&mut part);
                if let Err(p) = r {
                    let msg = panic_text(p.as_ref());
                    assert!(!msg.starts_with("tool:"), "{msg}");
                    lines.push(json!({"ev": "rstep", "id": item["id"], "i": n, "op": "panic", "conn": 0, "res": "panic", "err": msg}));
                }
            } else if item["ev"] == "cscript" {
                let mut part = Vec::new();
                let r = rt.block_on(AssertUnwindSafe(run_cscript(pki, item, &mut part)).catch_unwind());
                let n = part.len();
                lines.append(&mut part);
                if let Err(p) = r {
                    let msg = panic_text(p.as_ref());
                    assert!(!msg.starts_with("tool:"), "{msg}");
                    lines.push(json!({"ev": "cstep", "id": item["id"], "i": n, "op": "panic", "res": "panic", "err": msg}));
                }
            } else {
                let mut part = Vec::new();
                let r = rt.block_on(AssertUnwindSafe(run_script(pki, item, &mut part)).catch_unwind());
                let n = part.len();
                lines.append(&mut part);
                if let Err(p) = r {
                    let msg = panic_text(p.as_ref());
                    assert!(!msg.starts_with("tool:"), "{msg}");
                    lines.push(json!({"ev": "step", "id": item["id"], "i": n, "op": "panic", "conn": 0, "res": "panic", "err": msg}));
                }
            }
        }
    }
    let mut f = std::io::BufWriter::new(std::fs::File::create(&args[2]).expect("tool: create log"));
    for l in &lines {
        writeln!(f, "{}", serde_json::to_string(l).expect("tool: json")).expect("tool: write log");
    }
    f.flush().expect("tool: write log");
    drop(cache);
    let _ = std::fs::remove_dir_all(&scratch);
}
