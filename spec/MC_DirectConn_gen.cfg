\* C01: script generation: every pair of programs (<= 2 writes per side, empty / non-empty) and every back-pressure pair, one SHAPE line each
SPECIFICATION Spec
CONSTANTS
  MaxW = 2
  Sizes = {0, 1}
  Fault = "none"
  Proto = "tcp"
  Gen = TRUE
  MaxK = 1
INVARIANTS Inv_Prefix Inv_Complete Inv_HalfClose Inv_Closed Inv_Independent Inv_Other
