\* C01: negative control: a relay with the fault `u_frag` must violate U_Header
SPECIFICATION Spec
CONSTANTS
  MaxW = 1
  Sizes = {0}
  Fault = "u_frag"
  Proto = "udp"
  Gen = FALSE
  MaxK = 2
INVARIANTS U_Header
