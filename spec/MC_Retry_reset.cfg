\* C19 part B: scripts with long retry intervals (reset of the back-off visible in the timing)
SPECIFICATION Spec
CONSTANTS
  OrderlyMode = "reconnect"
  Params <- ParamsR
  MaxAtt = 6
  StepBehs = {"refuse", "close_abrupt", "drop_unserved", "healthy"}
  CloseDs = {600}
  MaxStall = 0
  MaxMute = 0
  MaxOpen = 0
  MaxClose = 1
INVARIANTS TypeOK DelaySequence WaitedIsPrescribed ResetAfterSuccess GiveUpExactly NonRetryableEndsAtOnce ListenerAlive NoLostRequest Emit
CHECK_DEADLOCK FALSE
