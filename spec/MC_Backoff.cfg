\* C19 part A, thorough: all tuples initial 1..3, max 1..8, mult 1..3, max_count 0..4; op sequences to length 8
SPECIFICATION Spec
CONSTANTS
  Initials = {1, 2, 3}
  Maxes = {1, 2, 3, 4, 5, 6, 7, 8}
  Mults = {1, 2, 3}
  MaxCounts = {0, 1, 2, 3, 4}
  MaxOps = 8
INVARIANTS TypeOK NoneExactly DelayLaw Bounded Monotone RestartsShortest ReplayAgrees Emit
CHECK_DEADLOCK FALSE
