SPECIFICATION Spec
CONSTANTS
  Trailing = "ignore"
  Alphabet = {0, 1, 3, 6, 7, 117, 118, 255}
  MaxLen = 6
  TailAlphabet = {0, 1, 2, 3, 255}
  TailLen = 5
  Wide = FALSE
INVARIANTS Correct Emit
CHECK_DEADLOCK FALSE
