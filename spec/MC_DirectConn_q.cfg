\* C01: the oracle on an ideal direct connection, quick instance (<= 2 writes per side, sizes 0..2; the back-pressure programs)
SPECIFICATION Spec
CONSTANTS
  MaxW = 2
  Sizes = {0, 1, 2}
  Fault = "none"
  Proto = "tcp"
  Gen = FALSE
  MaxK = 1
INVARIANTS Inv_Prefix Inv_Complete Inv_HalfClose Inv_Closed Inv_Independent Inv_Other
