------------------------------ MODULE MC_Mux ------------------------------
(***************************************************************************)
(* Model-checking harness for PenguinMux: the fine-grained next-state      *)
(* relation (every task step separately interleaved with every application *)
(* step) and the bounded workloads.  One module, many .cfg files: each     *)
(* configuration switches features on through constants.                   *)
(***************************************************************************)
EXTENDS Bridge

CONSTANTS
  CfgSet,        \* set of Options records an endpoint may be started with
  SameCfg,       \* TRUE: both endpoints use the same record (halves the initial states)
  Openers,       \* endpoints whose application opens streams
  MaxOpens,      \* stream requests per opener
  Ids,           \* flow ids insert_new_flow may draw (non-zero)
  Hosts,         \* target hosts used by opens / binds / datagrams
  MaxWrites,     \* writes per handle
  Writers,       \* endpoints whose application writes
  Lens,          \* write sizes
  ReadMax,       \* read buffer sizes
  Closers,       \* endpoints whose application may shut down / drop streams
  MuxDroppers,   \* endpoints whose application may drop the Multiplexor
  Cancellers,    \* endpoints whose application may give up a pending stream / bind request
  DgSenders, MaxDgrams,
  Binders, MaxBinds,
  Faults,        \* subset of {"cutsrc","endsrc","cutsink"}
  AdvMsgs, MaxAdv, \* adversary: messages that may be injected towards "A", and how many
  Bridgers,      \* endpoints whose application hands its streams to the bridge (C13)
  SplitFlush,    \* TRUE: the flush that follows every message of the main loop is a separate step (the sink may take its
                 \* time); FALSE: message and flush are one step
  MaxNow,        \* virtual time may advance (by one second at a time) up to this value; 0 = time stands still
  MaxHandles,    \* state constraint: handles per endpoint
  MaxCtr         \* state constraint: connect attempts + binds + datagrams in one behaviour

VARIABLE st

vars == <<st>>

Cfgs == IF SameCfg THEN {[e \in E |-> c] : c \in CfgSet} ELSE [E -> CfgSet]
Init == st \in {InitState(c) : c \in Cfgs}

Hs(e) == DOMAIN st.hnd[e]
AppHs(e) == {h \in Hs(e) : st.hnd[e][h].st = "app"}
NCalls(e, k) == Cardinality({c \in DOMAIN st.calls[e] : st.calls[e][c].k = k})

Progress(S) == {t \in S : t.obs.res # "pending"}

(* ghost counters that bound the workload *)
OpensDone(e) == Cardinality({h \in Hs(e) : st.hnd[e][h].role = "req"}) + NCalls(e, "open")

AOpenStart(e) ==
  /\ e \in Openers /\ OpensDone(e) < MaxOpens
  /\ \E id \in Ids, host \in Hosts :
       st' \in OpenStart(st, e, st.ctr, host, 7, id)
AOpenPoll(e) ==
  \E c \in DOMAIN st.calls[e], id \in Ids : st' \in Progress(OpenPoll(st, e, c, id))
AAccept(e) == st' \in Progress(Accept(st, e))
AWrite(e) ==
  \E h \in AppHs(e), len \in Lens :
     /\ e \in Writers
     /\ st.hnd[e][h].woff < MaxWrites   \* woff counts bytes; with Lens >= 1 it also bounds the number of writes
     /\ st' \in Progress(Write(st, e, h, len))
AWriteZero(e) ==
  \E h \in AppHs(e) : 0 \in Lens /\ st' \in Write(st, e, h, 0)
ARead(e) ==
  \E h \in AppHs(e), mx \in ReadMax : st' \in Progress(Read(st, e, h, mx))
AReadEofAgain(e) == FALSE
AShutdown(e) ==
  /\ e \in Closers
  /\ \E h \in AppHs(e) : ~st.hnd[e][h].closedW /\ st' \in Shutdown(st, e, h)
ADropStream(e) ==
  /\ e \in Closers
  /\ \E h \in AppHs(e) : st' \in DropStream(st, e, h)
ADropMux(e) == e \in MuxDroppers /\ st' \in DropMux(st, e)
ACancel(e) == e \in Cancellers /\ \E c \in DOMAIN st.calls[e] : st' \in CancelCall(st, e, c)
ASendDgram(e) ==
  /\ e \in DgSenders /\ Len(st.dgSent[e]) < MaxDgrams
  /\ \E host \in Hosts : st' \in SendDgram(st, e, 0, host, 9, "d", FALSE)
AGetDgram(e) == st' \in Progress(GetDgram(st, e))
ABindStart(e) ==
  /\ e \in Binders
  /\ NCalls(e, "bind") + Cardinality({g \in DOMAIN st.bindAns : TRUE}) < MaxBinds
  /\ \E id \in Ids, host \in Hosts :
       st' \in BindStart(st, e, st.ctr, 1, host, 9, id)
ABindPoll(e) == \E c \in DOMAIN st.calls[e] : st' \in Progress(BindPoll(st, e, c))
ANextBind(e) == st.cfg[e].bindCap > 0 /\ st' \in Progress(NextBind(st, e))
ABindReply(e) == \E r \in DOMAIN st.breq[e], acc \in BOOLEAN :
                    /\ st.breq[e][r].g \notin DOMAIN st.bindAns
                    /\ st' \in BindReply(st, e, r, acc)
ABindDrop(e) == \E r \in DOMAIN st.breq[e] : st' \in BindDrop(st, e, r)

(* the bridge: every poll against every environment of a small alphabet *)
BrEnvs ==
  {[rd |-> r, wr |-> w, fl |-> Ans("ready", 0), sh |-> h] :
     r \in {<<>>, <<Ans("data", 1)>>, <<Ans("data", 1), Ans("data", 1)>>, <<Ans("data", 1), Ans("err", 0)>>,
            <<Ans("eof", 0)>>, <<Ans("err", 0)>>},
     w \in {<<>>, <<Ans("ready", 1)>>, <<Ans("ready", 2), Ans("ready", 2)>>, <<Ans("err", 0)>>},
     h \in {Ans("ready", 0), Ans("pending", 0), Ans("err", 0)}}
DataIn(env) == Cardinality({i \in DOMAIN env.rd : env.rd[i].k = "data"})
ABridgeStart(e) ==
  /\ e \in Bridgers
  /\ \E h \in AppHs(e) : st' \in BridgeStart(st, e, h)
ABridgePoll(e) ==
  \E b \in DOMAIN st.br[e], env \in BrEnvs :
     /\ st.hnd[e][st.br[e][b].h].woff + DataIn(env) <= MaxWrites
     /\ st' \in BridgePoll(st, e, b, env)
     /\ [st' EXCEPT !.obs = NoObs] # [st EXCEPT !.obs = NoObs]
ABridgeDrop(e) ==
  \E b \in DOMAIN st.br[e] : st.br[e][b].res \in {"ok", "err"} /\ st' \in BridgeDrop(st, e, b)

(* fine-grained task steps *)
TUnblock(e) == /\ st.task[e].ph = "run" /\ st.rxblk[e].k # "none"
               /\ st' = Unblock(st, e) /\ st' # st
TRecv(e)  == /\ st.task[e].ph = "run" /\ st.rxblk[e].k = "none" /\ SrcHasMsg(st, e)
             /\ st' = RecvOne(st, e)
TSend(e)  == /\ st.task[e].ph = "run" /\ st.sink[e] = "open" /\ st.outq[e] # <<>> /\ ~st.fl[e]
             /\ st' = IF SplitFlush THEN [SendOne(st, e) EXCEPT !.fl[e] = TRUE] ELSE Flush(SendOne(st, e), e)
TFlush(e) == /\ st.task[e].ph = "run" /\ st.fl[e]
             /\ st' = FlushStep(st, e)
TSinkErr(e) == /\ st.task[e].ph = "run" /\ ~st.fl[e]
               /\ \/ st.sink[e] \in {"cut", "closed"} /\ st' = BeginWd(st, e, FALSE, "ws")
                  \/ st.sink[e] = "softcut" /\ st.outq[e] # <<>>
                     /\ st' = BeginWd([st EXCEPT !.outq[e] = Tail(@)], e, FALSE, "ws")
TKa(e)    == /\ st.task[e].ph = "run" /\ KaEnabled(st, e)
             /\ st' = KaStep(st, e)
TDrop(e)  == /\ st.task[e].ph = "run" /\ st.drops[e] # <<>>
             /\ st' = DropOne(st, e)
TWd(e)    == /\ st.task[e].ph \notin {"run", "done"}
             /\ \E gr \in {0, 1}, gs \in {0, 1} : st' = WdRun(st, e, gr, gs) /\ st' # st

AFault(e) ==
  /\ st.healthy
  /\ \/ "cutsrc"  \in Faults /\ st' \in CutSrc(st, e)
     \/ "endsrc"  \in Faults /\ st' \in EndSrc(st, e)
     \/ "cutsink" \in Faults /\ st' \in CutSink(st, e)
     \/ "softcut" \in Faults /\ st' \in SoftCutSink(st, e)

ATime == st.now < MaxNow /\ st' \in AdvanceTo(st, st.now + 1)

AAdv ==
  /\ st.advn < MaxAdv
  /\ \E m \in AdvMsgs : st' \in Inject(st, "A", m)

Next ==
  \/ \E e \in E :
       \/ AOpenStart(e) \/ AOpenPoll(e) \/ AAccept(e) \/ AWrite(e) \/ AWriteZero(e) \/ ARead(e)
       \/ AShutdown(e) \/ ADropStream(e) \/ ADropMux(e) \/ ACancel(e)
       \/ ASendDgram(e) \/ AGetDgram(e)
       \/ ABindStart(e) \/ ABindPoll(e) \/ ANextBind(e) \/ ABindReply(e) \/ ABindDrop(e)
       \/ TUnblock(e) \/ TRecv(e) \/ TSend(e) \/ TFlush(e) \/ TSinkErr(e) \/ TKa(e) \/ TDrop(e) \/ TWd(e)
       \/ AFault(e)
       \/ ABridgeStart(e) \/ ABridgePoll(e) \/ ABridgeDrop(e)
  \/ AAdv
  \/ ATime

Spec == Init /\ [][Next]_vars

(* C08, liveness at design level: a connection task that has left its main loop finishes, whatever the applications
   do -- provided both connection tasks keep being polled and an application whose accept queue is full keeps
   accepting (the receive loop of its task is stalled until it does).  Checked without VIEW. *)
TaskStep == \E e \in E : TUnblock(e) \/ TRecv(e) \/ TSend(e) \/ TFlush(e) \/ TSinkErr(e) \/ TKa(e) \/ TDrop(e) \/ TWd(e)
AcceptStep == \E e \in E : AAccept(e)
FairSpec == Init /\ [][Next]_vars /\ WF_vars(TaskStep) /\ WF_vars(AcceptStep)
WdTerminates == \A e \in E : (st.task[e].ph \notin {"run", "done"}) ~> (st.task[e].ph = "done")

View == [st EXCEPT !.obs = NoObs]

Bound == (\A e \in E : Len(st.hnd[e]) <= MaxHandles) /\ st.ctr <= MaxCtr + 1

(* ------------------------------------------------------------------ *)
(* Invariants                                                          *)
(* ------------------------------------------------------------------ *)
NoViolation == st.viol = {}
NoKF == st.kf = {}

TypeOK ==
  /\ \A e \in E : \A id \in DOMAIN st.slot[e] :
        st.slot[e][id].k = "Est" => st.slot[e][id].h \in DOMAIN st.hnd[e]
  /\ \A e \in E : \A h \in Hs(e) : st.hnd[e][h].credit >= 0 /\ st.hnd[e][h].since >= 0

(* C03: never acknowledge more than consumed *)
AckSound == \A e \in E : \A h \in Hs(e) : st.hnd[e][h].ackSent <= st.hnd[e][h].consumed

(* C03: the inbound queue never exceeds the window we advertised *)
QueueBound == \A e \in E : \A h \in Hs(e) : Len(st.hnd[e][h].inq) <= st.cfg[e].rwnd

(* C07: initial credit of every handle = the window the other side advertised *)
InitialCredit ==
  st.healthy => \A e \in E : \A h \in Hs(e) : st.hnd[e][h].adv = st.cfg[Peer(e)].rwnd

(* C07: one request, one stream on each side, correct target *)
ExactlyOne ==
  ~st.confused => \A e \in E : \A h \in Hs(e) :
     LET x == st.hnd[e][h] IN
     x.conn # 0 =>
       /\ Cardinality({g \in Hs(e) : st.hnd[e][g].conn = x.conn}) = 1
       /\ Cardinality(PeerHandles(st, e, h)) <= 1
       /\ x.role = "req" => Cardinality(PeerHandles(st, e, h)) = 1
TargetCarried ==
  ~st.confused => \A e \in E : \A c \in DOMAIN st.calls[e] :
     LET k == st.calls[e][c] IN
     (k.k = "open" /\ k.resp = "some") =>
        \A p \in PeerHandles(st, e, k.h) :
           st.hnd[Peer(e)][p].host = k.host /\ st.hnd[Peer(e)][p].port = k.port

(* C07: bounded retry *)
BoundedRetry ==
  \A e \in E : \A c \in DOMAIN st.calls[e] :
     st.calls[e][c].k = "open" => st.calls[e][c].tries <= st.cfg[e].retries

(* C06: quiescent => no slot is held for a stream whose handle is gone *)
Quiet == \A e \in E : st.outq[e] = <<>> /\ st.wire[e] = <<>> /\ st.unfl[e] = <<>> /\ st.drops[e] = <<>> /\ st.rxblk[e].k = "none"
Released ==
  (Quiet /\ ~st.confused) => \A e \in E : st.task[e].ph = "run" =>
     \A id \in DOMAIN st.slot[e] :
        LET sl == st.slot[e][id] IN
        /\ sl.k = "Est" => st.hnd[e][sl.h].st # "dropped"
        /\ sl.k \in {"Req", "Bind"} => (st.mux[e] => HasCall(st, e, sl.c))

NoOrphanWriter == NoOrphanWriterS(st)

(* C08: once the task is done everything is resolved *)
DoneResolved ==
  \A e \in E : st.task[e].ph = "done" =>
     /\ \A c \in DOMAIN st.calls[e] : st.calls[e][c].resp # "pending"
     /\ \A h \in Hs(e) : st.hnd[e][h].st # "dropped" => st.hnd[e][h].closedW /\ ~SenderAlive(st, e, h)

(* configuration sets used by the .cfg files *)
MkCfg(rwnd, thr, ac, dg, bc, rt) ==
  [rwnd |-> rwnd, thr |-> thr, acceptCap |-> ac, dgCap |-> dg, bindCap |-> bc, retries |-> rt, kaI |-> 0, kaT |-> 0]
CoreCfgs  == {MkCfg(r, t, 1, 1, 0, 1) : r \in 1..2, t \in 1..3}
CoreCfgsQ == {MkCfg(r, t, 1, 1, 0, 1) : r \in 1..2, t \in 1..2}
OneCfg    == {MkCfg(2, 2, 1, 1, 0, 2)}
(* adversary alphabet: every opcode on the reserved id 0 and on an id A does not know (2).  The live
   flow (1) is never addressed, so the bystander monitors stay meaningful; a Connect colliding with
   the live flow is left to MC_Open and to the one-real-endpoint simulator, because here A's Reset
   reply would reach the conforming endpoint B instead of the adversary.                        *)
AdvSet ==
  UNION {{MConnect(i, 1, "hx", 1, 0), MAck(i, 1, 0), MReset(i, 0), MFinish(i, 0), MPush(i, 0, 0, 1, 0),
          MBind(i, 1, "hx", 1, 0), MDgram(i, "hx", 1, "d", 0)} : i \in {0, 2}}
  \cup {MkMsg("junk"), MkMsg("ping")}
TinyCfg   == {MkCfg(1, 1, 1, 1, 0, 1)}
OpenCfgs  == {MkCfg(1, 1, ac, 1, 0, rt) : ac \in 1..1, rt \in 1..2}
CloseCfgs == {MkCfg(r, 1, 1, 1, 0, 1) : r \in 1..2}
DgCfgs    == {MkCfg(1, 1, 1, dg, 0, 1) : dg \in 1..2}
CancelCfgs == {MkCfg(1, 1, 1, 1, 1, 2)}
BindCfgs  == {MkCfg(1, 1, 1, 1, bc, 1) : bc \in 0..2}
LiveCfgs  == {MkCfg(r, t, 1, 1, 0, 1) : r \in 1..3, t \in 1..4}
(* keepalive: interval 1..2, effective timeout 0 (off) or interval..3 *)
KaCfgs    == {[MkCfg(1, 1, 1, 1, 0, 1) EXCEPT !.kaI = i, !.kaT = t] : i \in 1..2, t \in 0..3} \cup {MkCfg(1, 1, 1, 1, 0, 1)}
KaCfgsQ   == {[MkCfg(1, 1, 1, 1, 0, 1) EXCEPT !.kaI = 1, !.kaT = t] : t \in {0, 1, 2}}

(* C16 / C08 at design level, in terms of what the task does when it is polled.  The detector is tick based: a
   task that gave up had seen more than kaT without a Pong (never earlier), a task that is still in its main loop
   with a tick due has not been polled since; keepalive off => no Ping ever queued and no such exit. *)
KaExitSound ==
  \A e \in E : st.task[e].res = "keepalive" => st.cfg[e].kaI > 0 /\ st.cfg[e].kaT > 0
KaSilentWhenOff ==
  \A e \in E : st.cfg[e].kaI = 0 =>
     /\ \A i \in DOMAIN st.outq[e] : st.outq[e][i].op # "ping"
     /\ \A i \in DOMAIN st.wire[e] : st.wire[e][i].op # "ping"
=============================================================================
