\* C17 quick: the 72 cells of the matrix + every interleaving of <= 2 connections, <= 2 reloads, <= 2 uses, with and without mutual TLS
\* (duplex scripts) + the real-server scripts: <= 2 connections (trusted client certificate / none / other CA) x <= 2 reloads x <= 1 use
SPECIFICATION Spec
CONSTANTS
  Mode = "swap"
  MaxConn = 2
  MaxReload = 2
  MaxUse = 2
  Mtls = {FALSE, TRUE}
  RMaxConn = 2
  RMaxReload = 2
  RMaxUse = 1
  RealMtls = {FALSE, TRUE}
INVARIANTS TypeOK Undisturbed Fresh ConfigKept Authenticated Emit
CHECK_DEADLOCK FALSE
