\* C17 negative control: "sharedcache", state form: after a reload the server would still honour a ticket issued by the replaced
\* configuration; TLC must find TicketsOfThisConfiguration violated
SPECIFICATION Spec
CONSTANTS
  Mode = "sharedcache"
  MaxConn = 2
  MaxReload = 2
  MaxUse = 2
  Mtls = {}
  RMaxConn = 2
  RMaxReload = 1
  RMaxUse = 1
  RealMtls = {}
  RotConn = 2
  RotReload = 1
  RotRotate = 1
  RotUse = 1
  RRotConn = 2
  RRotReload = 1
  RRotRotate = 1
  RRotUse = 1
  CliConn = 2
  CliRotate = 1
  FConn = 2
  FReload = 1
  FBotch = 1
  FUse = 1
  FailMtls = {}
  ResConn = 2
  ResReload = 1
  ResRotate = 1
  ResUse = 1
  ResMtls = {FALSE, TRUE}
  RResConn = 2
  RResReload = 1
  RResRotate = 1
  RResUse = 1
  RResMtls = {FALSE, TRUE}
  Extra = {"res"}
INVARIANTS TypeOK Undisturbed ConfigKept CAFollows TicketsOfThisConfiguration
CHECK_DEADLOCK FALSE
