------------------------------- MODULE Credit -------------------------------
(***************************************************************************)
(* C03, unbounded: the credit scheme of one direction of one logical       *)
(* stream as a counter system.  W = window advertised by the receiver,     *)
(* T = its acknowledgement threshold (1 <= T <= W after the clamp of fix   *)
(* F1), both arbitrary.  Apalache proves the invariant IndInv inductive    *)
(* for all W and T (no bound on the number of frames), and IndInv implies  *)
(* the clauses of C03: pushes in flight + queued never exceed W (so the    *)
(* receive queue cannot overflow and no stream is reset for overrunning    *)
(* the window), and the receiver never acknowledges what it has not        *)
(* consumed.                                                               *)
(***************************************************************************)
EXTENDS Integers

CONSTANTS
  \* @type: Int;
  W,
  \* @type: Int;
  T

VARIABLES
  \* @type: Int;
  credit,      \* sender's psh_send_remaining
  \* @type: Int;
  wire,        \* Push frames on the link
  \* @type: Int;
  queued,      \* frames in the receiver's per-stream queue
  \* @type: Int;
  since,       \* frames consumed since the last Acknowledge
  \* @type: Int;
  acks         \* sum of the counts of the Acknowledge frames on the link

ConstInit == W \in Nat /\ T \in Nat /\ W >= 1 /\ T >= 1 /\ T <= W

Init == credit = W /\ wire = 0 /\ queued = 0 /\ since = 0 /\ acks = 0

Write   == credit > 0 /\ credit' = credit - 1 /\ wire' = wire + 1 /\ UNCHANGED <<queued, since, acks>>
Deliver == wire > 0 /\ wire' = wire - 1 /\ queued' = queued + 1 /\ UNCHANGED <<credit, since, acks>>
(* the reader takes one frame; at the threshold it acknowledges everything consumed since the last time *)
Consume == /\ queued > 0 /\ queued' = queued - 1
           /\ IF since + 1 >= T THEN since' = 0 /\ acks' = acks + since + 1
                                ELSE since' = since + 1 /\ acks' = acks
           /\ UNCHANGED <<credit, wire>>
(* an Acknowledge (or a batch of them, counts add up) arrives *)
AckArrives == \E n \in 1..W : n <= acks /\ acks' = acks - n /\ credit' = credit + n /\ UNCHANGED <<wire, queued, since>>

Next == Write \/ Deliver \/ Consume \/ AckArrives

(* the inductive invariant: every unit of the window is in exactly one place *)
IndInv ==
  /\ credit >= 0 /\ wire >= 0 /\ queued >= 0 /\ since >= 0 /\ acks >= 0
  /\ credit + wire + queued + since + acks = W
  /\ since < T

(* what C03 asks for, consequences of IndInv *)
NoOverrun == wire + queued <= W          \* the queue of capacity W can always take what is on the wire
AckSound  == acks + credit <= W          \* never more credit returned than frames consumed

(* an arbitrary state satisfying the invariant *)
IndInit ==
  /\ credit \in Int /\ wire \in Int /\ queued \in Int /\ since \in Int /\ acks \in Int
  /\ IndInv
=============================================================================
