---------------------------- MODULE MC_MuxSched ----------------------------
(***************************************************************************)
(* Specification -> implementation replay for the multiplexing protocol.   *)
(* The next-state relation works at the grain of the simulator (one        *)
(* application call or one poll of a connection task per step) and records *)
(* every step as a command in the history variable `hist`; TLC in          *)
(* simulation mode (-simulate) prints one schedule per behaviour.  The     *)
(* schedules are executed on the real code by harness/src/bin/mux_sim.rs   *)
(* and the recorded traces are validated by TLC against MuxTrace.tla.      *)
(* Unlike the harness-random generator, every step here is one the         *)
(* SPECIFICATION considers possible in the current state, so the           *)
(* implementation is driven through the specification's reachable          *)
(* interleavings, including the negative steps (a write that must block,   *)
(* a read that must not yet see end-of-stream).                            *)
(***************************************************************************)
EXTENDS Bridge, Json

CONSTANTS CfgSet, Ids, Hosts, Lens, ReadMax, MaxOpens, MaxBytes, MaxDgrams, Depth, EmitEvery, Faults,
          WithBind, WithBridge,    \* switch the bind / bridge steps on
          MaxNow,                  \* virtual time may advance up to this value (0 = time stands still)
          AdvMsgs, MaxAdv          \* adversary mode (C10): B is a scripted raw peer that injects these messages towards A and
                                   \* takes what A sends; MaxAdv = 0: two conforming endpoints

VARIABLES st, hist
vars == <<st, hist>>

Init == /\ st \in {InitState(c) : c \in [E -> CfgSet]}
        /\ hist = <<>>

Rec2(t, cmd) == st' = t /\ hist' = Append(hist, cmd @@ [res |-> t.obs.res, sh |-> t.obs.h])

AppHs(e) == {h \in DOMAIN st.hnd[e] : st.hnd[e][h].st = "app"}
Opened(e) == Cardinality({h \in DOMAIN st.hnd[e] : st.hnd[e][h].role = "req"}) + Cardinality(DOMAIN st.calls[e])

Open(e) ==
  /\ Opened(e) < MaxOpens
  /\ \E id \in Ids, host \in Hosts :
       \E t \in OpenStart(st, e, st.ctr, host, 7, id) :
          Rec2(t, [op |-> "open", e |-> e, c |-> st.ctr, host |-> host, port |-> 7, draws |-> <<id>>])
OpenP(e) ==
  \E c \in DOMAIN st.calls[e] :
     /\ st.calls[e][c].k = "open"
     /\ LET needId == st.calls[e][c].resp = "none" /\ st.calls[e][c].left > 0 IN
        \E id \in (IF needId THEN Ids ELSE {0}) :
           \E t \in OpenPoll(st, e, c, id) :
              Rec2(t, [op |-> "open_poll", e |-> e, c |-> c, draws |-> IF needId THEN <<id>> ELSE <<>>])
Acc(e) == \E t \in Accept(st, e) : Rec2(t, [op |-> "accept", e |-> e])
Wr(e) ==
  \E h \in AppHs(e), len \in Lens :
     /\ st.hnd[e][h].woff + len <= MaxBytes
     /\ \E t \in Write(st, e, h, len) : Rec2(t, [op |-> "write", e |-> e, h |-> h, len |-> len])
Rd(e) ==
  \E h \in AppHs(e), mx \in ReadMax :
     \E t \in Read(st, e, h, mx) : Rec2(t, [op |-> "read", e |-> e, h |-> h, max |-> mx])
Shut(e) == \E h \in AppHs(e) : \E t \in Shutdown(st, e, h) : Rec2(t, [op |-> "shutdown", e |-> e, h |-> h])
Drp(e) == \E h \in AppHs(e) : \E t \in DropStream(st, e, h) : Rec2(t, [op |-> "drop", e |-> e, h |-> h])
Cnc(e) == \E c \in DOMAIN st.calls[e] : \E t \in CancelCall(st, e, c) : Rec2(t, [op |-> "cancel", e |-> e, c |-> c])
(* not in adversary mode: after a local drop the endpoint waits for the peer's Close (finding F20), which a scripted raw
   peer that has nothing more to say never sends *)
DMux(e) == MaxAdv = 0 /\ \E t \in DropMux(st, e) : Rec2(t, [op |-> "drop_mux", e |-> e])
DgS(e) ==
  /\ Len(st.dgSent[e]) < MaxDgrams
  /\ \E host \in Hosts, data \in {"dd", "", "e"}, id \in {0, 1, 2} : \E t \in SendDgram(st, e, id, host, 9, data, FALSE) :
       Rec2(t, [op |-> "dg_send", e |-> e, id |-> id, host |-> host, port |-> 9, data |-> data])
DgG(e) == \E t \in GetDgram(st, e) : Rec2(t, [op |-> "dg_get", e |-> e])
Task(e) ==
  \E gr \in {0, 1}, gs \in {0, 1}, gf \in {1, 1, 1, 0} :
     \E t \in TaskPollF(st, e, gr, gs, gf) : Rec2(t, [op |-> "task", e |-> e, gr |-> gr, gs |-> gs, gf |-> gf])
Flt(e) ==
  /\ st.healthy
  /\ \E k \in Faults :
       \E t \in (CASE k \in {"cutsrc", "cutsrcs"} -> CutSrc(st, e) [] k = "endsrc" -> EndSrc(st, e)
                   [] k = "cutsink" -> CutSink(st, e) [] k = "softcut" -> SoftCutSink(st, e) [] OTHER -> {}) :
          Rec2(t, [op |-> "fault", e |-> e, kind |-> k])

(* time passes (keepalive) *)
Adv == \E d \in {1, 1, 2} : st.now + d <= MaxNow /\
         \E t \in AdvanceTo(st, st.now + d) : Rec2(t, [op |-> "advance", e |-> "A", d |-> d])

(* the scripted raw peer (one real endpoint) *)
AdvI == /\ st.advn < MaxAdv
        /\ \E m \in AdvMsgs : \E t \in Inject(st, "A", m) : Rec2(t, [op |-> "inject", e |-> "A", m |-> m])
AdvT == /\ MaxAdv > 0 /\ st.wire["A"] # <<>>
        /\ st' = [st EXCEPT !.wire["A"] = Tail(@), !.obs = NoObs]
        /\ hist' = Append(hist, [op |-> "take", e |-> "B", res |-> "", sh |-> 0])
Real == IF MaxAdv > 0 THEN {"A"} ELSE E

(* bind requests *)
BindS(e) ==
  /\ WithBind /\ Cardinality({c \in DOMAIN st.calls[e] : st.calls[e][c].k = "bind"}) < 2
  /\ \E id \in Ids, host \in Hosts :
       \E t \in BindStart(st, e, st.ctr, 1, host, 80, id) :
          Rec2(t, [op |-> "bind", e |-> e, c |-> st.ctr, bt |-> 1, host |-> host, port |-> 80, draws |-> <<id>>])
BindP(e) == WithBind /\ \E c \in DOMAIN st.calls[e] : st.calls[e][c].k = "bind" /\
              \E t \in BindPoll(st, e, c) : Rec2(t, [op |-> "bind_poll", e |-> e, c |-> c])
NextB(e) == WithBind /\ \E t \in NextBind(st, e) : Rec2(t, [op |-> "next_bind", e |-> e])
BReply(e) == WithBind /\ \E r \in DOMAIN st.breq[e], acc \in BOOLEAN :
               \E t \in BindReply(st, e, r, acc) : Rec2(t, [op |-> "bind_reply", e |-> e, r |-> r, accept |-> acc])
BDrop(e) == WithBind /\ \E r \in DOMAIN st.breq[e] :
               \E t \in BindDrop(st, e, r) : Rec2(t, [op |-> "bind_drop", e |-> e, r |-> r])
(* the bridge *)
SEnvs ==
  {[rd |-> r, wr |-> w, fl |-> f, sh |-> h] :
     r \in {<<>>, <<Ans("data", 2)>>, <<Ans("data", 1), Ans("data", 2)>>, <<Ans("data", 1), Ans("err", 0)>>,
            <<Ans("eof", 0)>>, <<Ans("data", 3), Ans("eof", 0)>>, <<Ans("err", 0)>>, <<Ans("pending", 0), Ans("data", 1)>>},
     w \in {<<>>, <<Ans("ready", 1)>>, <<Ans("ready", 2), Ans("ready", 3)>>, <<Ans("ready", 1), Ans("pending", 0)>>, <<Ans("err", 0)>>},
     f \in {Ans("ready", 0), Ans("pending", 0), Ans("err", 0)},
     h \in {Ans("ready", 0), Ans("pending", 0), Ans("err", 0)}}
BrStart(e) == WithBridge /\ \E h \in AppHs(e) :
                \E t \in BridgeStart(st, e, h) : Rec2(t, [op |-> "bridge_start", e |-> e, h |-> h])
BrPoll(e) == WithBridge /\ \E b \in DOMAIN st.br[e], env \in SEnvs :
                /\ st.hnd[e][st.br[e][b].h].woff <= MaxBytes
                /\ \E t \in BridgePoll(st, e, b, env) : Rec2(t, [op |-> "bridge_poll", e |-> e, b |-> b, env |-> env])
BrDrop(e) == WithBridge /\ \E b \in DOMAIN st.br[e] : st.br[e][b].res \in {"ok", "err"} /\
                \E t \in BridgeDrop(st, e, b) : Rec2(t, [op |-> "bridge_drop", e |-> e, b |-> b])

Next ==
  /\ Len(hist) < Depth
  /\ \/ AdvI \/ AdvT \/ Adv
     \/ \E e \in Real : Open(e) \/ OpenP(e) \/ Acc(e) \/ Wr(e) \/ Rd(e) \/ Shut(e) \/ Drp(e) \/ DMux(e) \/ Cnc(e)
                  \/ DgS(e) \/ DgG(e) \/ Task(e) \/ Task(e) \/ Flt(e)
                  \/ BindS(e) \/ BindP(e) \/ NextB(e) \/ BReply(e) \/ BDrop(e)
                  \/ BrStart(e) \/ BrPoll(e) \/ BrDrop(e)
Spec == Init /\ [][Next]_vars

(* one line per behaviour prefix of length EmitEvery, 2*EmitEvery, ... (behaviours may end early: a
   connection that was torn down has nothing left to do) *)
Emit == (Len(hist) > 0 /\ Len(hist) % EmitEvery = 0) =>
          PrintT(<<"SCHED", ToJson([cfg |-> st.cfg, cmds |-> hist, viol |-> st.viol])>>)
NoViolation == st.viol = {}

(* ------------------------------------------------------------------ *)
(* Cover mode (breadth-first model checking instead of simulation).  The history stays in the state but is hidden from
   the fingerprint: VIEW CoverView identifies a node by the abstract state and the LAST command, so TLC visits every
   distinct pair (command, resulting state) of the bounded model once, and the hidden history of the first visit is a
   shortest schedule that reaches it.  EmitNode prints that schedule: one implementation test per node of the state
   graph (tools/tlc_sched.py keeps the maximal ones -- the leaves of the breadth-first spanning tree).            *)
CoverView == <<[st EXCEPT !.obs = NoObs], IF hist = <<>> THEN <<>> ELSE <<hist[Len(hist)]>> >>
EmitNode == hist # <<>> => PrintT(<<"SCHED", ToJson([cfg |-> st.cfg, cmds |-> hist, viol |-> st.viol])>>)

MkCfg(rwnd, thr, ac, dg, bc, rt) ==
  [rwnd |-> rwnd, thr |-> thr, acceptCap |-> ac, dgCap |-> dg, bindCap |-> bc, retries |-> rt, kaI |-> 0, kaT |-> 0]
SchedCfgs == {MkCfg(r, t, a, 1, 0, rt) : r \in 1..2, t \in 1..3, a \in 1..2, rt \in 1..2}
AdvSetS ==
  UNION {{MConnect(i, n, "hx", 1, 0) : n \in {0, 1, 2}} \cup {MAck(i, n, 0) : n \in {0, 1, 2}}
         \cup {MReset(i, 0), MFinish(i, 0), MBind(i, 1, "bx", 1, 0), MBind(i, 3, "", 0, 0), MDgram(i, "dx", 5, "a", 0), MDgram(i, "", 0, "", 0)}
         \cup {MPush(i, 1, 0, l, 0) : l \in {0, 1, 2}} : i \in {0, 1, 2}}
  \cup {MkMsg("junk"), MkMsg("ping"), MkMsg("pong"), MkMsg("close")}
SchedCfgsA == {MkCfg(r, t, a, 1, bc, 2) : r \in 1..2, t \in 1..2, a \in 1..2, bc \in 0..1}
SchedCfgsD == {MkCfg(r, 1, 1, dg, 0, 1) : r \in 1..2, dg \in 1..4}
SchedCfgsK == {[MkCfg(r, 1, 1, 1, 0, 1) EXCEPT !.kaI = i, !.kaT = t] : r \in 1..2, i \in 1..2, t \in {0, 1, 2, 3, 4}}
OneCfgC == {MkCfg(1, 1, 1, 1, 0, 1)}
TwoCfgC == {MkCfg(1, 1, 1, 1, 0, 1), MkCfg(2, 2, 1, 1, 0, 2)}
SchedCfgsB == {MkCfg(r, t, 1, 1, bc, 2) : r \in 1..2, t \in 1..2, bc \in 0..2}
=============================================================================
