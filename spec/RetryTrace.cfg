\* C19 part B trace validation; behaviour after an orderly close by the server: reconnect (see ClientRetry.tla)
SPECIFICATION Spec
CONSTANTS
  OrderlyMode = "reconnect"
INVARIANTS TypeOK Clauses
CONSTRAINT Track
POSTCONDITION Accepted
CHECK_DEADLOCK FALSE
