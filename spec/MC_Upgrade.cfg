\* C14 thorough: up to three simultaneous deviations from the valid request, x 4 configurations
SPECIFICATION Spec
CONSTANTS
  MaxDev = 3
INVARIANTS TypeOK Laws Single Emit
CHECK_DEADLOCK FALSE
