#!/usr/bin/env python3
"""MANIFEST.setup_cmd: build the harness once, regenerate the model-checking configurations and
syntax-check every specification.  Offline; uses only files on disk."""
import os, subprocess, sys
sys.path.insert(0, os.path.dirname(os.path.abspath(__file__)))
import vlib
vlib.ensure_dirs()
subprocess.run(["python3", os.path.join(vlib.VERIF, "tools", "gen_cfgs.py")], check=True)
vlib.build_harness(["mux_sim", "mux_stress", "keepalive_sim", "frame_vec", "socks_vec", "chain_vec", "backoff_vec", "ws_vec"])
vlib.build_harness(["frame_vec", "chain_vec"], release=True)
vlib.build_harness(["tls_matrix", "gate", "retry_sim", "tunnel"], crate=vlib.HARNESS_APP)
bad = 0
for f in sorted(os.listdir(vlib.SPEC)):
    if f.endswith(".tla"):
        rc, out = vlib.run(["java", "-cp", vlib.TLA_JAR_CP, "tla2sany.SANY", f], cwd=vlib.SPEC, timeout=120)
        if rc != 0 or "Semantic errors" in out or "Parse Error" in out or "Fatal errors" in out:
            print(out[-2000:])
            bad += 1
print("setup ok" if not bad else f"setup: {bad} specification(s) do not parse")
sys.exit(1 if bad else 0)
