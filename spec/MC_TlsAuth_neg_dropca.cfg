\* C17 negative control: a reload that forgets the client CA ("dropca"), real-server scripts with mutual TLS: after the
\* reload a client without a certificate under the configured CA is admitted; TLC must find Authenticated violated
SPECIFICATION Spec
CONSTANTS
  Mode = "dropca"
  MaxConn = 2
  MaxReload = 2
  MaxUse = 2
  Mtls = {}
  RMaxConn = 2
  RMaxReload = 1
  RMaxUse = 1
  RealMtls = {TRUE}
INVARIANTS TypeOK Authenticated
CHECK_DEADLOCK FALSE
