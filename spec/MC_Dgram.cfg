SPECIFICATION Spec
CONSTANTS
  AckMode = "shaped"
  ThrMode = "fixed"
  EmptyMode = "fixed"
  RstMode = "fixed"
  CfgSet <- DgCfgs
  SameCfg = TRUE
  Openers = {"A"}
  MaxOpens = 1
  Ids = {1}
  Hosts = {"h0"}
  MaxWrites = 1
  Writers = {"A", "B"}
  Lens = {1}
  ReadMax = {4}
  Closers = {}
  MuxDroppers = {}
  Cancellers = {}
  DgSenders = {"A", "B"}
  MaxDgrams = 3
  Binders = {}
  MaxBinds = 0
  Faults = {}
  AdvMsgs = {}
  MaxAdv = 0
  Bridgers = {}
  SplitFlush = FALSE
  MaxNow = 0
  MaxHandles = 1
  MaxCtr = 7
VIEW View
CONSTRAINT Bound
INVARIANTS NoViolation TypeOK AckSound QueueBound InitialCredit ExactlyOne TargetCarried BoundedRetry Released DoneResolved NoOrphanWriter
CHECK_DEADLOCK FALSE
