\* WsAdapter trace validation, collecting, with the stricter reading: the end of the read side without a Close
\* must be reported as Some(Err) (not as None)
SPECIFICATION Spec
CONSTANTS
  EofNoneOk = FALSE
  Collect = TRUE
CONSTRAINT Track
POSTCONDITION Accepted
CHECK_DEADLOCK FALSE
