---------------------------- MODULE MC_WsAdapter ----------------------------
(***************************************************************************)
(* Model checking for the WsAdapter family.  Two specifications over the   *)
(* same alphabet of steps:                                                 *)
(*                                                                         *)
(* SpecLaws   the contract of WsAdapter.tla as a state machine: every step *)
(*            of the alphabet, every result the contract allows, and a     *)
(*            choice of what the transport puts on the wire during the     *)
(*            step (nothing or everything queued; automatic answers or     *)
(*            not).  TLC checks the laws of the contract on it:            *)
(*              DelivLaw  the delivered sequence is the image of a prefix  *)
(*                        of the complete messages fed, under the mapping  *)
(*              WireLaw   the wire is the image of a prefix of the         *)
(*                        accepted sends, in order, interleaved only with  *)
(*                        automatic answers; one close frame at most and   *)
(*                        only automatic pongs behind it; masking by role  *)
(*              FlushLaw  what a successful flush / close covered is on    *)
(*                        the wire                                         *)
(*              NoHang    poll_next is Pending exactly when nothing is     *)
(*                        buffered and the read side is open               *)
(*              Terminal  nothing is delivered after the stream ended and  *)
(*                        no message of the user behind the close frame    *)
(*                                                                         *)
(* SpecEnum   the bounded-exhaustive enumeration of the SCRIPTS (sequences *)
(*            of steps up to Depth): one state per script, one line        *)
(*            <<"CASE", json>> per script that ends in a call of the       *)
(*            adapter.  harness ws_vec runs every script on the real       *)
(*            adapter, as server and as client; WsAdapterTrace.tla         *)
(*            validates the logs.                                          *)
(***************************************************************************)
EXTENDS WsAdapter, TLC, Json

CONSTANTS
  Depth,       \* number of steps of a script / of a behaviour
  FeedData,    \* data frames the peer may send: <<"binary" | "text" | "cont", payload octets, FIN>>
  FeedCtl,     \* <<"ping" | "pong", payload octets>>
  CloseVars,   \* close frames: 0 no payload, 1 code, 2 code + reason, 3 code + 123 octets
  Frags,       \* <<len, cut, plen>>: binary FIN=0 (cut octets), ping(plen), continuation FIN=1 (len - cut) in one step
  Bads,        \* protocol violations: "opcode", "rsv", "bigctl", "fragctl", "mask"
  Ends,        \* how the read side may end: "eof", "ioerr", "ioerr_rst"
  SendLens,    \* payload octets of Binary messages sent
  SendKinds,   \* subset of {"ping", "pong", "close"}
  Wfail        \* TRUE: the write side of the transport may break

VARIABLES st, script, deliv, wire, acc, nfl, nsent
vars == <<st, script, deliv, wire, acc, nfl, nsent>>

\* values for the constants above (a configuration file cannot write tuples)
FeedDataQ == { <<"binary", 0, TRUE>>, <<"binary", 126, TRUE>>, <<"text", 5, TRUE>>, <<"binary", 1, FALSE>>,
               <<"cont", 65536, TRUE>> }
FeedCtlQ == { <<"ping", 0>>, <<"ping", 125>>, <<"pong", 3>> }
FragsQ == { <<126, 1, 2>> }
FeedDataT == { <<"binary", n, TRUE>> : n \in {0, 1, 125, 126, 65535, 65536} }
         \cup { <<"text", 1, TRUE>>, <<"text", 126, TRUE>>, <<"text", 65536, TRUE>>,
                <<"binary", 1, FALSE>>, <<"binary", 65536, FALSE>>, <<"text", 126, FALSE>>,
                <<"cont", 0, TRUE>>, <<"cont", 65535, TRUE>>, <<"cont", 2, FALSE>> }
FeedCtlT == { <<"ping", 0>>, <<"ping", 1>>, <<"ping", 125>>, <<"pong", 0>>, <<"pong", 125>> }
FragsT == { <<126, 1, 2>>, <<65536, 65535, 125>>, <<1, 0, 0>>, <<0, 0, 1>> }
\* depth 4 and more: one value per kind of step
FeedDataD == { <<"binary", 126, TRUE>>, <<"text", 5, TRUE>>, <<"binary", 1, FALSE>>, <<"cont", 65536, TRUE>> }
FeedCtlD == { <<"ping", 125>>, <<"pong", 3>> }
FeedDataS == { <<"text", 5, TRUE>>, <<"binary", 1, FALSE>>, <<"cont", 2, TRUE>> }
FeedCtlS == { <<"ping", 125>> }
NoFrags == {}

Op(op, what, len, fin, a, b, why) == [op |-> op, what |-> what, len |-> len, fin |-> fin, a |-> a, b |-> b, why |-> why]
FeedOps ==
       { Op("feed", x[1], x[2], x[3], 0, 0, "") : x \in FeedData }
  \cup { Op("feed", x[1], x[2], TRUE, 0, 0, "") : x \in FeedCtl }
  \cup { Op("feed", "close", 0, TRUE, v, 0, "") : v \in CloseVars }
  \cup { Op("feed", "frag", x[1], TRUE, x[2], x[3], "") : x \in Frags }
  \cup { Op("feed", "bad", 0, TRUE, 0, 0, y) : y \in Bads }
EndOps == { Op("feed", e, 0, TRUE, 0, 0, "") : e \in Ends }
SendOps ==
       { Op("send", "binary", n, TRUE, 0, 0, "") : n \in SendLens }
  \cup { Op("send", k, 0, TRUE, 0, 0, "") : k \in SendKinds }
NextOp == Op("next", "", 0, TRUE, 0, 0, "")
FlushOp == Op("flush", "", 0, TRUE, 0, 0, "")
CloseOp == Op("close", "", 0, TRUE, 0, 0, "")
WfailOp == Op("wfail", "", 0, TRUE, 0, 0, "")
AdapterOps == {NextOp, FlushOp, CloseOp} \cup SendOps

\* the frames a feed step puts on the connection; payloads are numbered by the index of their first frame
FramesOf(s, o) ==
  LET k == Len(s.conn) IN
  CASE o.what \in {"binary", "text"} -> << Frame(o.what, o.fin, k, o.len) >>
    [] o.what = "cont" -> << Frame("cont", o.fin, k, o.len) >>
    [] o.what \in {"ping", "pong"} -> << Frame(o.what, TRUE, k, o.len) >>
    [] o.what = "close" -> << Frame("close", TRUE, 0, CloseLen(o.a)) >>
    [] o.what = "frag" -> << Frame("binary", FALSE, k, o.a), Frame("ping", TRUE, k + 1, o.b),
                             Frame("cont", TRUE, k, o.len - o.a) >>
    [] o.what = "bad" -> << BadFrame >>

(* ---------------- what the wire may show during a step (generation) --------------------------------- *)
WObs(role, kind, len, first) ==
  [kind |-> kind, len |-> len, first |-> first, r251 |-> TRUE, r95 |-> FALSE, frags |-> 1,
   masked |-> IF role = "client" THEN 1 ELSE 0, minenc |-> TRUE, code |-> -1]
WOfSend(role, p) == IF p.kind = "binary" THEN WObs(role, "binary", p.len, First251(p.k, p.len))
                    ELSE WObs(role, p.kind, 0, -1)
\* q: what is queued (including what this step queues).  The transport writes none or all of it, and may add
\* the answer to the latest ping and / or to a close.
WireChoices(s, q) ==
  LET M == Msgs(s.conn)
      P == {j \in (s.pp + 1) .. Len(M) : M[j].kind = "ping"}
      pong == IF P = {} THEN {<<>>}
              ELSE LET m == M[CHOOSE j \in P : \A i \in P : i <= j] IN {<<>>, <<WObs(s.role, "pong", m.len, First251(m.k, m.len))>>}
      clos == IF HasClose(M) /\ ~s.cw THEN {<<>>, <<WObs(s.role, "close", 0, -1)>>} ELSE {<<>>}
      base == IF s.cw THEN {<<>>} ELSE {<<>>, [i \in 1 .. Len(q) |-> WOfSend(s.role, q[i])]}
  IN IF s.wbroken THEN {<<>>}
     ELSE { b \o a \o c : b \in base, a \in pong, c \in clos } \cup { b \o c \o a : b \in base, a \in pong, c \in clos }

Users(tags) == Cardinality({i \in 1 .. Len(tags) : tags[i] = "user"})

\* the bookkeeping of the laws after a step that led from st to t with W on the wire; p = the message the step
\* tried to queue (or NoMsg), flushing = a successful flush / close
Book(t, W, p, delivered, flushing) ==
  /\ st' = t
  /\ wire' = wire \o [i \in 1 .. Len(W) |-> [w |-> W[i], tag |-> t.tags[i]]]
  /\ LET grown == Len(t.pend) + Users(t.tags) - Len(st.pend)
     IN /\ acc' = IF grown = 1 THEN Append(acc, p) ELSE acc
        /\ nfl' = IF flushing THEN Len(acc) + grown ELSE nfl
  /\ deliv' = delivered

CanonObs(d) == [kind |-> d.kind, len |-> d.len, first |-> d.first, r251 |-> TRUE, r95 |-> TRUE]

Canon ==   \* the alphabet, step by step
  \/ \E o \in FeedOps : /\ st.rdEnd = "open"
                        /\ st' = AfterFeed(st, FramesOf(st, o))
                        /\ UNCHANGED <<deliv, wire, acc, nfl, nsent>>
  \/ \E o \in EndOps : /\ st.rdEnd = "open"
                       /\ st' = AfterEnd(st, IF o.what = "eof" THEN "eof" ELSE "ioerr")
                       /\ UNCHANGED <<deliv, wire, acc, nfl, nsent>>
  \/ /\ Wfail /\ ~st.wbroken
     /\ st' = AfterWfail(st)
     /\ UNCHANGED <<deliv, wire, acc, nfl, nsent>>
  \/ \E res \in NextRes(st) : \E W \in WireChoices(st, st.pend) :
        LET d == Delivered(Msgs(st.conn)[st.ndel + 1])
            obs == IF res = "msg" THEN CanonObs(d) ELSE CanonObs([kind |-> "", len |-> 0, first |-> -1])
        IN \E t \in AfterNext(st, res, obs, W) :
              /\ Book(t, W, NoMsg, IF res = "msg" THEN Append(deliv, d) ELSE deliv, FALSE)
              /\ UNCHANGED nsent
  \/ \E o \in SendOps :
        LET p == [kind |-> o.what, k |-> 128 + nsent, len |-> o.len] IN
        \E ready \in ReadyRes(st) : \E res \in SendRes(st) : \E W \in WireChoices(st, Append(st.pend, p)) :
          \E t \in AfterSend(st, p, ready, res, W) :
              /\ Book(t, W, p, deliv, FALSE)
              /\ nsent' = nsent + 1
  \/ \E res \in {"ok", "err"} : \E W \in WireChoices(st, st.pend) :
        \E t \in AfterFlush(st, res, W) :
              /\ Book(t, W, NoMsg, deliv, res = "ok")
              /\ UNCHANGED nsent
  \/ \E res \in {"ok", "err"} :
        LET c == [kind |-> "close", k |-> 0, len |-> 0] IN
        \E W \in WireChoices(st, st.pend) \cup WireChoices(st, Append(st.pend, c)) :
        \E t \in AfterClose(st, res, W) :
              /\ Book(t, W, c, deliv, res = "ok")
              /\ UNCHANGED nsent

InitLaws == /\ st \in {Start("server"), Start("client")}
            /\ script = <<>> /\ deliv = <<>> /\ wire = <<>> /\ acc = <<>> /\ nfl = 0 /\ nsent = 0
\* `script` only counts the steps here
NextLaws == /\ Len(script) < Depth
            /\ script' = Append(script, 0)
            /\ Canon
SpecLaws == InitLaws /\ [][NextLaws]_vars

(* ---------------- the laws -------------------------------------------------------------------------- *)
UserWire == SelectSeq(wire, LAMBDA x : x.tag = "user")
AutoWire == SelectSeq(wire, LAMBDA x : x.tag = "auto")

DelivLaw ==
  LET M == Msgs(st.conn) IN
  /\ Len(deliv) = st.ndel /\ st.ndel <= Len(M)
  /\ \A i \in 1 .. Len(deliv) : M[i].kind # "bad" /\ deliv[i] = Delivered(M[i])
  \* text arrives as Binary with the octets of the text; control messages keep their kind
  /\ \A i \in 1 .. Len(deliv) : deliv[i].kind = (IF M[i].kind = "text" THEN "binary" ELSE M[i].kind)

WireLaw ==
  LET U == UserWire
      A == AutoWire
      M == Msgs(st.conn)
  IN
  /\ Len(U) + Len(st.pend) = Len(acc)
  /\ \A i \in 1 .. Len(U) : MatchesSend(U[i].w, acc[i])
  /\ \A i \in 1 .. Len(st.pend) : st.pend[i] = acc[Len(U) + i]
  /\ \A i \in 1 .. Len(A) : \/ \E j \in 1 .. Len(M) : M[j].kind = "ping" /\ EchoOf(A[i].w, M[j])
                            \/ A[i].w.kind = "close" /\ HasClose(M)
  /\ Cardinality({i \in 1 .. Len(A) : A[i].w.kind = "pong"}) <= Cardinality({j \in 1 .. Len(M) : M[j].kind = "ping"})
  \* one close frame at most; behind it nothing but automatic pongs
  /\ \A i \in 1 .. Len(wire) : wire[i].w.kind = "close" =>
        \A j \in (i + 1) .. Len(wire) : wire[j].tag = "auto" /\ wire[j].w.kind = "pong"
  /\ st.cw = (\E i \in 1 .. Len(wire) : wire[i].w.kind = "close")
  /\ \A i \in 1 .. Len(wire) : wire[i].w.masked = (IF st.role = "client" THEN wire[i].w.frags ELSE 0)

FlushLaw == nfl <= Len(UserWire)

NoHang ==
  /\ NextRes(st) # {}
  /\ "pending" \in NextRes(st) => st.rdEnd = "open" /\ (~Avail(st) \/ st.rst = "closed")
  /\ (st.rst = "live" /\ Avail(st)) => NextRes(st) \cap {"pending", "none"} = {}
  /\ st.rdEnd # "open" => "pending" \notin NextRes(st)

TypeOK ==
  /\ st.role \in {"server", "client"} /\ st.rst \in {"live", "closed", "ended"}
  /\ st.rdEnd \in {"open", "eof", "ioerr"}
  /\ st.pp \in 0 .. Len(Msgs(st.conn))
  /\ st.ndel \in 0 .. Len(Msgs(st.conn))

\* no step from a terminal state changes what the user or the peer has seen
Terminal ==
  [][ /\ st.rst = "ended" => (deliv' = deliv /\ st'.rst = "ended")
      /\ st.cw => (UserWire' = UserWire /\ st'.cw /\ \A i \in (Len(wire) + 1) .. Len(wire') : wire'[i].w.kind = "pong") ]_vars

(* ---------------- enumeration of the scripts ------------------------------------------------------- *)
ReadEnded == \E i \in 1 .. Len(script) : script[i].op = "feed" /\ script[i].what \in Ends
WfailDone == \E i \in 1 .. Len(script) : script[i].op = "wfail"
Steps ==
       AdapterOps
  \cup (IF ReadEnded THEN {} ELSE FeedOps \cup EndOps)       \* the peer says nothing after the end of its side
  \cup (IF Wfail /\ ~WfailDone THEN {WfailOp} ELSE {})

InitEnum == /\ st = Start("server")
            /\ script = <<>> /\ deliv = <<>> /\ wire = <<>> /\ acc = <<>> /\ nfl = 0 /\ nsent = 0
NextEnum == /\ Len(script) < Depth
            /\ \E o \in Steps : script' = Append(script, o)
            /\ UNCHANGED <<st, deliv, wire, acc, nfl, nsent>>
SpecEnum == InitEnum /\ [][NextEnum]_vars

\* a script that ends in a step of the peer or of the transport observes nothing its prefix does not
Emit == (Len(script) > 0 /\ script[Len(script)].op \in {"next", "send", "flush", "close"})
          => PrintT(<<"CASE", ToJson(script)>>)
=============================================================================
