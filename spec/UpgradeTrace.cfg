\* C14 trace validation, strict: the walk stops at the first unmatched line
SPECIFICATION Spec
CONSTANTS
  Collect = FALSE
CONSTRAINT Track
POSTCONDITION Accepted
CHECK_DEADLOCK FALSE
