#!/usr/bin/env python3
"""Generate the model-checking configurations of spec/MC_Mux.tla (one source of truth for the
constants of every quick / thorough configuration).  Run from anywhere; writes spec/MC_*.cfg."""
import os

SPEC = os.path.join(os.path.dirname(os.path.dirname(os.path.abspath(__file__))), "spec")

DEFAULT = dict(
    AckMode='"shaped"', ThrMode='"fixed"', EmptyMode='"fixed"', RstMode='"fixed"',
    CfgSet="OneCfg", SameCfg="TRUE", Openers='{"A"}', MaxOpens=1, Ids="{1}", Hosts='{"h0"}',
    MaxWrites=0, Writers='{"A", "B"}', Lens="{1}", ReadMax="{4}", Closers="{}", MuxDroppers="{}", Cancellers="{}", DgSenders="{}", MaxDgrams=0,
    Binders="{}", MaxBinds=0, Faults="{}", AdvMsgs="{}", MaxAdv=0, Bridgers="{}", SplitFlush="FALSE", MaxNow=0, MaxHandles=2, MaxCtr=3,
)
INV = "NoViolation TypeOK AckSound QueueBound InitialCredit ExactlyOne TargetCarried BoundedRetry Released DoneResolved NoOrphanWriter"

CONFIGS = {
    # C02 / C03: data path, every (rwnd, thr) pair per side independently
    "MC_Core_q": dict(CfgSet="CoreCfgsQ", SameCfg="FALSE", MaxWrites=3, Lens="{1, 2}", ReadMax="{1, 4}", MaxCtr=1),
    "MC_Core": dict(CfgSet="CoreCfgs", SameCfg="FALSE", MaxWrites=3, Lens="{1, 2}", ReadMax="{1, 4}", MaxCtr=1),
    # the same with every acknowledgement policy PROTOCOL.md allows
    "MC_CoreAny_q": dict(AckMode='"any"', CfgSet="CoreCfgsQ", SameCfg="TRUE", MaxWrites=3, Lens="{1}", ReadMax="{4}", MaxCtr=1),
    # C07: opening from both sides with colliding ids, retries
    "MC_Open_q": dict(CfgSet="OpenCfgs", SameCfg="FALSE", Openers='{"A", "B"}', MaxOpens=1, Ids="{1, 2}", MaxHandles=3, MaxCtr=4),
    "MC_Open": dict(CfgSet="OpenCfgs", SameCfg="FALSE", Openers='{"A", "B"}', MaxOpens=2, Ids="{1, 2}", MaxHandles=3, MaxCtr=5, MaxWrites=1),
    # C05 / C06: every order of write / shutdown / drop / read on both ends of one stream
    "MC_Close_q": dict(CfgSet="TinyCfg", MaxWrites=1, Closers='{"A", "B"}', MaxHandles=1, MaxCtr=1),
    "MC_Close": dict(CfgSet="CloseCfgs", MaxWrites=2, Lens="{1, 0}", Closers='{"A", "B"}', MaxHandles=1, MaxCtr=1),
    # F19 (repaired): the pinned code sent no Reset for a stream dropped after its own Finish while the peer was still
    # sending.  Self-test: with the pinned rule TLC reaches the orphaned writer.
    "MC_Close_orphan": dict(RstMode='"pinned"', CfgSet="TinyCfg", MaxWrites=1, Closers='{"A", "B"}', MaxHandles=1, MaxCtr=1),
    # C06: re-opening the same flow id after the first stream was closed in every way
    "MC_Reuse_q": dict(CfgSet="TinyCfg", MaxOpens=2, Closers='{"A", "B"}', MaxHandles=2, MaxCtr=2),
    "MC_Reuse": dict(CfgSet="TinyCfg", MaxOpens=2, MaxWrites=1, Writers='{"A"}', Closers='{"A", "B"}', MaxHandles=2, MaxCtr=2),
    # C08: every end-of-connection cause at every reachable state
    "MC_Teardown_q": dict(CfgSet="TinyCfg", MaxWrites=1, Faults='{"cutsrc", "endsrc", "cutsink", "softcut"}', MuxDroppers='{"A", "B"}', MaxHandles=1, MaxCtr=1),
    "MC_Teardown": dict(CfgSet="TinyCfg", MaxWrites=1, Closers='{"A"}', Faults='{"cutsrc", "endsrc", "cutsink", "softcut"}', MuxDroppers='{"A", "B"}', MaxHandles=1, MaxCtr=1),
    # C07 / C15 / C08: a pending stream or bind request is given up (timeout, select!) at every point
    "MC_Cancel_q": dict(CfgSet="CancelCfgs", Openers='{"A"}', MaxOpens=1, Binders='{"A"}', MaxBinds=1, Cancellers='{"A"}', MaxWrites=0, MaxHandles=1, MaxCtr=2, Ids="{1, 2}"),
    "MC_Cancel": dict(CfgSet="BindCfgs", Openers='{"A", "B"}', MaxOpens=1, Binders='{"A"}', MaxBinds=1, Cancellers='{"A"}', MaxWrites=0, MaxHandles=2, MaxCtr=3, Ids="{1, 2}"),
    # C11: datagram bursts against small buffers, interleaved with a stream
    "MC_Dgram_q": dict(CfgSet="DgCfgs", DgSenders='{"A", "B"}', MaxDgrams=2, MaxWrites=1, MaxCtr=5, MaxOpens=1, MaxHandles=1),
    "MC_Dgram": dict(CfgSet="DgCfgs", DgSenders='{"A", "B"}', MaxDgrams=3, MaxWrites=1, MaxCtr=7, MaxOpens=1, MaxHandles=1),
    # C15: bind requests, every answer
    "MC_Bind_q": dict(CfgSet="BindCfgs", Binders='{"A"}', MaxBinds=2, MaxCtr=3, MaxOpens=1, MaxWrites=0, MaxHandles=1, Ids="{1, 2}"),
    "MC_Bind": dict(CfgSet="BindCfgs", Binders='{"A", "B"}', MaxBinds=2, MaxCtr=3, MaxOpens=0, Ids="{1, 2}"),
    # C13: the acceptor bridges its stream to a scripted local side; every environment at every poll
    "MC_Bridge_q": dict(CfgSet="TinyCfg", MaxWrites=1, Bridgers='{"B"}', Closers='{"A"}', MaxHandles=1, MaxCtr=1),
    "MC_Bridge": dict(CfgSet="CloseCfgs", MaxWrites=2, Bridgers='{"B"}', Closers='{"A"}', MaxHandles=1, MaxCtr=1),
    # the sink takes its time to flush: message and flush are separate steps (data path, teardown)
    "MC_Flush_q": dict(CfgSet="TinyCfg", SplitFlush="TRUE", MaxWrites=1, Closers='{"A"}', MuxDroppers='{"A"}', Faults='{"cutsink", "softcut"}', MaxHandles=1, MaxCtr=1),
    "MC_Flush": dict(CfgSet="CloseCfgs", SplitFlush="TRUE", MaxWrites=2, Closers='{"A", "B"}', MuxDroppers='{"A", "B"}', Faults='{"cutsrc", "cutsink", "softcut"}', MaxHandles=1, MaxCtr=1),
    # C16 / C08: keepalive next to a stream: time advances, a peer that is not polled is a dead peer, every teardown cause
    "MC_Ka_q": dict(CfgSet="KaCfgsQ", SameCfg="TRUE", MaxWrites=0, MaxNow=2, MaxHandles=1, MaxCtr=1),
    "MC_Ka": dict(CfgSet="KaCfgsQ", SameCfg="TRUE", MaxWrites=0, MaxNow=2, MuxDroppers='{"A"}', MaxHandles=1, MaxCtr=1),
    # C10: adversary frames towards A while a well-behaved stream runs
    "MC_Adv_q": dict(CfgSet="TinyCfg", MaxWrites=1, AdvMsgs="AdvSet", MaxAdv=2, MaxHandles=2, MaxCtr=1),
    "MC_Adv": dict(CfgSet="TinyCfg", MaxWrites=1, AdvMsgs="AdvSet", MaxAdv=3, MaxHandles=2, MaxCtr=1),
}


def render(name, over, extra_inv=""):
    c = dict(DEFAULT)
    c.update(over)
    lines = ["SPECIFICATION Spec", "CONSTANTS"]
    for k, v in c.items():
        if k in ("CfgSet", "AdvMsgs") and v != "{}":
            lines.append(f"  {k} <- {v}")
        else:
            lines.append(f"  {k} = {v}")
    if name.startswith("MC_Ka"):
        extra_inv = (extra_inv + " KaExitSound KaSilentWhenOff").strip()
    lines += ["VIEW View", "CONSTRAINT Bound", f"INVARIANTS {INV} {extra_inv}".rstrip(), "CHECK_DEADLOCK FALSE", ""]
    with open(os.path.join(SPEC, name + ".cfg"), "w") as f:
        f.write("\n".join(lines))


LIVE = {
    # C04: liveness under weak fairness, every (rwnd, thr) pair per side, bursts beyond the window
    "MC_Live_q": dict(ThrMode='"fixed"', CfgSet="LiveCfgsQ", Extra=2, BothWays="TRUE", Stalled="FALSE", Dgrams=0),
    "MC_Live": dict(ThrMode='"fixed"', CfgSet="LiveCfgs", Extra=2, BothWays="TRUE", Stalled="FALSE", Dgrams=0),
    # a stream whose reader is absent delays only itself: the other stream and datagrams still complete
    "MC_Live_stall_q": dict(ThrMode='"fixed"', CfgSet="LiveCfgsT", Extra=1, BothWays="FALSE", Stalled="TRUE", Dgrams=1),
    "MC_Live_stall": dict(ThrMode='"fixed"', CfgSet="LiveCfgsQ", Extra=1, BothWays="FALSE", Stalled="TRUE", Dgrams=2),
    # self-test of the specification: with the pinned threshold rule (F1) TLC must find the stall
    "MC_Live_pinned": dict(ThrMode='"pinned"', CfgSet="LiveCfgsQ", Extra=2, BothWays="FALSE", Stalled="FALSE", Dgrams=0),
}


def render_live(name, c):
    lines = ["SPECIFICATION Spec", "CONSTANTS", '  AckMode = "shaped"', f"  ThrMode = {c['ThrMode']}", '  EmptyMode = "fixed"', '  RstMode = "fixed"',
             f"  CfgSet <- {c['CfgSet']}", f"  Extra = {c['Extra']}", f"  BothWays = {c['BothWays']}",
             f"  Stalled = {c['Stalled']}", f"  Dgrams = {c['Dgrams']}", "INVARIANT NoViolation", "PROPERTY Progress", ""]
    with open(os.path.join(SPEC, name + ".cfg"), "w") as f:
        f.write("\n".join(lines))


if __name__ == "__main__":
    for n, o in LIVE.items():
        render_live(n, o)
    for n, o in CONFIGS.items():
        render(n, o)
    # reachability witnesses: configurations in which the named "invariant" must be VIOLATED
    render("MC_Reuse_kf", dict(CONFIGS["MC_Reuse_q"]), extra_inv="NoKF")
    # C08, liveness at design level (MC_Mux.tla: FairSpec / WdTerminates): the teardown configuration without VIEW, with
    # weak fairness of the connection tasks and of accepting; without the fairness the property must fail (self-test)
    base = open(os.path.join(SPEC, "MC_Teardown_q.cfg")).read().split("\n")
    for name, spec in (("MC_TeardownLive_q", "FairSpec"), ("MC_TeardownLive_nofair", "Spec")):
        out = []
        for line in base:
            if line.startswith("SPECIFICATION"):
                out.append("SPECIFICATION " + spec)
            elif line.startswith("VIEW"):
                continue
            elif line.startswith("INVARIANTS"):
                out += ["INVARIANT NoViolation", "PROPERTY WdTerminates"]
            else:
                out.append(line)
        with open(os.path.join(SPEC, name + ".cfg"), "w") as f:
            f.write("\n".join(out))
    print("wrote", len(CONFIGS) + 1, "configs")
