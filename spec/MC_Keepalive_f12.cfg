SPECIFICATION Spec
CONSTANTS
  Is = {2}
  Ts = {3}
  MaxD = 3
  Horizon = 10
INVARIANTS InvNoFalse
CHECK_DEADLOCK FALSE
