---------------------------- MODULE BackoffTrace ----------------------------
(***************************************************************************)
(* C19, part A: validates an ndjson log written by                         *)
(* harness/src/bin/backoff_vec.rs (the real penguin_mux::timing::Backoff)  *)
(* against Backoff.tla.  Every line is one generator and one operation     *)
(* sequence:                                                               *)
(*                                                                         *)
(*  {"ev":"backoff","unit":u,"initial":a,"max":b,"mult":m,"max_count":c,   *)
(*   "ops":["a","r",..],"rets":[..],"exact":bool,"res":"ok"|"panic",       *)
(*   "panic_at":p}                                                         *)
(*                                                                         *)
(*  Durations are multiples of the unit u ("ns", "ms", "s", or "s34" =     *)
(*  2^34 seconds, so that values next to Duration::MAX fit TLC's 32-bit    *)
(*  integers); rets[i] is the value returned by the i-th operation in      *)
(*  units (-1 = None, -2 = reset), `exact` says no returned duration had a *)
(*  remainder.  Numbers of 2^31 and more (mult, max_count near u32::MAX)   *)
(*  are logged as 2^31 - 1: every duration in the log is below 2^30 units, *)
(*  every operation sequence is short, so no comparison changes.           *)
(*                                                                         *)
(*  The line is accepted when the logged return values are exactly those   *)
(*  of Replay (Backoff.tla).  A panic is never a return value the property *)
(*  allows.  The property quantifies over SMALL tuples only; for tuples    *)
(*  where  min(initial x mult^k, max) x mult  is not representable as a    *)
(*  Duration (possible only with unit "s34") the implementation's eager    *)
(*  computation of the next delay overflows: with OverflowMode = "allow"   *)
(*  a panic at exactly such an operation is accepted (outside the          *)
(*  quantifier, counted by the check), with "strict" it is rejected with   *)
(*  the signature backoff_overflow_panic.                                  *)
(*                                                                         *)
(*  Acceptance by POSTCONDITION, collecting idiom of SocksTrace.tla.       *)
(***************************************************************************)
EXTENDS Integers, Sequences, FiniteSets, TLC, Json, IOUtils

(* the operators of Backoff.tla; its state machine (variables g, ops, rets) is not stepped here: a logged
   line is a whole behaviour, judged by Replay, which MC_Backoff proves equal to the machine's history *)
B == INSTANCE Backoff WITH Initials <- {}, Maxes <- {}, Mults <- {}, MaxCounts <- {}, MaxOps <- 0,
                           g <- 0, ops <- <<>>, rets <- <<>>
None == B!None
New(a, b, c, d) == B!New(a, b, c, d)
Exhausted(x) == B!Exhausted(x)
AdvanceNext(x) == B!AdvanceNext(x)
ResetNext(x) == B!ResetNext(x)
DelaySat(a, b, c, d) == B!DelaySat(a, b, c, d)
Replay(x, o, s) == B!Replay(x, o, s)

CONSTANTS Collect, OverflowMode

Rec == ndJsonDeserialize(IOEnv.TRACE)

VARIABLE l

Units == {"ns", "ms", "s", "s34"}
(* largest multiple of the unit a Duration can hold; -1: not reachable with logged values (< 2^30 units
   times a u32 multiplier stays far below 2^64 seconds) *)
Lim(u) == IF u = "s34" THEN 1073741823 ELSE -1

IsNat(x) == x \in Nat
WellFormed(r) ==
  /\ r.ev = "backoff"
  /\ r.unit \in Units
  /\ IsNat(r.initial) /\ IsNat(r.max) /\ IsNat(r.mult) /\ IsNat(r.max_count)
  /\ r.initial < 1073741824 /\ r.max < 1073741824
  /\ \A i \in 1 .. Len(r.ops) : r.ops[i] \in {"a", "r"}
  /\ Len(r.ops) <= 64
  /\ r.res \in {"ok", "panic"}
  /\ r.res = "panic" => r.panic_at \in 1 .. Len(r.ops) /\ Len(r.rets) = r.panic_at - 1
  /\ r.res = "ok" => Len(r.rets) = Len(r.ops)

G0(r) == New(r.initial, r.max, r.mult, r.max_count)

RECURSIVE StateAfter(_, _, _)
StateAfter(g, o, n) ==
  IF n = 0 THEN g
  ELSE StateAfter(IF Head(o) = "a" THEN AdvanceNext(g) ELSE ResetNext(g), Tail(o), n - 1)

(* the implementation computes (delay it returns) x mult eagerly: not representable *)
OverflowAt(r, p) ==
  LET g1 == StateAfter(G0(r), r.ops, p - 1) IN
  /\ r.ops[p] = "a"
  /\ ~Exhausted(g1)
  /\ Lim(r.unit) >= 0
  /\ g1.mult > 0
  /\ DelaySat(g1.initial, g1.max, g1.mult, g1.k) > Lim(r.unit) \div g1.mult

Expect(r) == Replay(G0(r), r.ops, TRUE)

Match(r) ==
  /\ WellFormed(r)
  /\ IF r.res = "ok"
     THEN r.rets = Expect(r) /\ r.exact
     ELSE /\ OverflowMode = "allow"
          /\ OverflowAt(r, r.panic_at)
          /\ r.rets = SubSeq(Expect(r), 1, r.panic_at - 1)
          /\ r.exact

(* ---------------- stable signature of a disagreement ---------------- *)
NonePattern(s) == { i \in 1 .. Len(s) : s[i] = None }
Sig(r) ==
  IF ~WellFormed(r) THEN "other:malformed_line"
  ELSE IF r.res = "panic"
       THEN IF OverflowAt(r, r.panic_at) THEN "backoff_overflow_panic" ELSE "backoff_panic"
  ELSE LET e == Expect(r) IN
       IF NonePattern(r.rets) # NonePattern(e) THEN "backoff_retry_limit"
       ELSE IF \E i \in 1 .. Len(e) : r.ops[i] = "a" /\ e[i] # None /\ r.rets[i] # e[i]
                                      /\ StateAfter(G0(r), r.ops, i - 1).k = 0
            THEN "backoff_first_delay"
       ELSE IF r.rets # e THEN "backoff_delay"
       ELSE "backoff_inexact"

ExpectView(r) == IF WellFormed(r) THEN [rets |-> Expect(r)] ELSE [error |-> "malformed line"]

(* ---------------- the walk over the log ---------------- *)
Init == /\ l = 1
        /\ TLCSet(1, 1) /\ TLCSet(3, <<>>) /\ TLCSet(4, 0)

Step ==
  /\ l <= Len(Rec)
  /\ IF Match(Rec[l])
     THEN IF Rec[l].res = "panic" THEN TLCSet(4, TLCGet(4) + 1) ELSE TRUE
     ELSE Collect /\ TLCSet(3, Append(TLCGet(3), l))
  /\ l' = l + 1

Next == Step
Spec == Init /\ [][Next]_l

Track == IF TLCGet(1) < l THEN TLCSet(1, l) ELSE TRUE

Bad == TLCGet(3)
FirstBad == IF Len(Bad) > 0 THEN Bad[1] ELSE TLCGet(1)

Accepted ==
  \/ /\ TLCGet(1) = Len(Rec) + 1
     /\ Len(Bad) = 0
     /\ PrintT(<<"ACCEPTED lines", Len(Rec)>>)
     /\ PrintT(<<"OVERFLOW_PANICS_ALLOWED", TLCGet(4)>>)
  \/ /\ PrintT(<<"REJECTED at line", FirstBad, "of", Len(Rec)>>)
     /\ FirstBad <= Len(Rec) => /\ PrintT(<<"UNMATCHED", ToJson(Rec[FirstBad])>>)
                                /\ PrintT(<<"EXPECTED", ToJson(ExpectView(Rec[FirstBad]))>>)
     /\ \A k \in 1 .. Len(Bad) :
          PrintT(<<"BAD", Bad[k], Sig(Rec[Bad[k]]), ToJson(ExpectView(Rec[Bad[k]]))>>)
     /\ PrintT(<<"BADCOUNT", Len(Bad)>>)
     /\ PrintT(<<"OVERFLOW_PANICS_ALLOWED", TLCGet(4)>>)
     /\ FALSE
=============================================================================
