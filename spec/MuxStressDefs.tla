--------------------------- MODULE MuxStressDefs ---------------------------
(***************************************************************************)
(* Contracts over one observed iteration of the threaded stress driver     *)
(* (harness/src/bin/mux_stress.rs): two real multiplexors on a multi-      *)
(* thread runtime, the application's calls racing with the connection      *)
(* tasks for real.  Each contract is the clause of a property of the mux   *)
(* family (C02..C06) specialised to the scenario; the driver reports only  *)
(* what it observed.  An iteration on a connection that ended, or whose     *)
(* stream could not be opened, violates C04/C08-style progress and is       *)
(* reported under "Stress.Progress".                                        *)
(***************************************************************************)
EXTENDS Naturals, Sequences, TLC

Fld(r, name, d) == IF name \in DOMAIN r THEN r[name] ELSE d

(* abort (C06): the peer's reads return what had been delivered -- a prefix of what was written, unmodified -- and then
   end-of-stream; the peer's later writes fail with BrokenPipe *)
AbortClauses(r) ==
  (IF r.timeout \/ ~r.eof THEN {"C06.PeerNotTold"} ELSE {})
  \cup (IF r.got > r.wrote \/ ~r.data_ok THEN {"C02.Prefix"} ELSE {})
  \cup (IF r.eof /\ r.wafter # "broken" THEN {"C06.WriteAfterAbort"} ELSE {})

(* half-close (C05, C02): both directions deliver everything, then end-of-stream; shutting down one direction leaves
   the other usable *)
HalfCloseClauses(r) ==
  (IF r.timeout \/ ~r.a_eof \/ ~r.b_eof THEN {"C05.NoEof"} ELSE {})
  \cup (IF ~r.a_write_ok \/ ~r.b_write_ok THEN {"C05.HalfCloseBroken"} ELSE {})
  \cup (IF r.a_eof /\ r.a_got # r.b_wrote THEN {"C05.EofBeforeData"} ELSE {})
  \cup (IF r.b_eof /\ r.b_got # r.a_wrote THEN {"C05.EofBeforeData"} ELSE {})
  \cup (IF ~r.a_data_ok \/ ~r.b_data_ok THEN {"C02.Prefix"} ELSE {})

(* flow (C03, C04, C02): a burst far beyond the window completes while the reader keeps reading, nothing is reset *)
FlowClauses(r) ==
  (IF r.wres # "ok" \/ r.timeout THEN {"C04.Stall", "C03.Overrun"} ELSE {})
  \cup (IF r.eof /\ r.got # r.wrote THEN {"C02.Complete", "C03.Overrun"} ELSE {})
  \cup (IF ~r.eof /\ ~r.timeout /\ r.wres = "ok" THEN {"C03.Overrun", "C05.NoEof"} ELSE {})
  \cup (IF ~r.data_ok THEN {"C02.Prefix"} ELSE {})

Clauses(r) ==
  IF Fld(r, "hang", FALSE) \/ ~r.opened \/ r.conn_ended THEN {"Stress.Progress"}
  ELSE CASE r.sc \in {"abort", "abort_buf"} -> AbortClauses(r)
         [] r.sc = "halfclose" -> HalfCloseClauses(r)
         [] r.sc = "flow" -> FlowClauses(r)
         [] OTHER -> {"Stress.UnknownScenario"}
=============================================================================
