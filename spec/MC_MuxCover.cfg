SPECIFICATION Spec
CONSTANTS
  AckMode = "shaped"
  ThrMode = "fixed"
  EmptyMode = "fixed"
  RstMode = "fixed"
  CfgSet <- OneCfgC
  Ids = {1}
  Hosts = {"h0"}
  Lens = {1}
  ReadMax = {8}
  MaxOpens = 1
  MaxBytes = 1
  MaxDgrams = 0
  Depth = 10
  EmitEvery = 1
  Faults = {}
  WithBind = FALSE
  AdvMsgs = {}
  MaxAdv = 0
  MaxNow = 0
  WithBridge = FALSE
VIEW CoverView
INVARIANTS EmitNode NoViolation
CHECK_DEADLOCK FALSE
