#!/usr/bin/env python3
"""Generate schedules for mux_sim from TLC simulation of spec/MC_MuxSched.tla (spec -> implementation replay).
usage (module): schedules(n_behaviours, depth, seed) -> list of schedule dicts for `mux_sim script`."""
import json, os, re, subprocess, sys, tempfile, shutil
sys.path.insert(0, os.path.dirname(os.path.abspath(__file__)))
import vlib


def convert(rec):
    """TLC history -> mux_sim schedule: specification handle numbers become harness handle names (the harness
    numbers a stream when the application obtains it, i.e. at every accept / open_poll the specification
    predicts to succeed)."""
    names = {"A": {}, "B": {}}
    nxt = {"A": 1, "B": 1}
    cmds = []
    for c in rec["cmds"]:
        e = c["e"]
        op = c["op"]
        d = {"op": op, "e": e}
        if op in ("accept", "open_poll") and c.get("res") == "ok":
            names[e][c["sh"]] = nxt[e]
            nxt[e] += 1
        if op in ("write", "read", "shutdown", "drop", "bridge_start"):
            if c["h"] not in names[e]:
                return None
            d["h"] = names[e][c["h"]]
        for k in ("c", "host", "port", "draws", "len", "max", "gr", "gs", "gf", "id", "data", "kind", "bt", "r", "accept", "b", "env", "d", "m"):
            if k in c:
                d[k] = c[k]
        cmds.append(d)
    cmds.append({"op": "quiesce", "lazy": not any(c["op"].startswith(("bind", "next_bind", "bridge")) for c in rec["cmds"])})
    return {"cfg": rec["cfg"], "real": 1 if any(c["op"] in ("inject", "take") for c in rec["cmds"]) else 2, "cmds": cmds}


def schedules(num, depth, seed, timeout=900, cfg="MC_MuxSched.cfg"):
    meta = tempfile.mkdtemp(prefix="sch_", dir=vlib.WORK)
    cmd = ["timeout", str(timeout)] + vlib.tlc_cmd("MC_MuxSched.tla", cfg, 1, meta,
          extra=["-simulate", f"num={num}", "-depth", str(depth), "-seed", str(seed)])
    rc, out = vlib.run(cmd, timeout=timeout + 30, cwd=vlib.SPEC)
    shutil.rmtree(meta, ignore_errors=True)
    if "Invariant NoViolation is violated" in out:
        raise vlib.ToolError("MC_MuxSched: a specification monitor fired during simulation (triage the specification)")
    seen, res = set(), []
    for m in re.finditer(r'<<"SCHED", "(.*)">>', out):
        txt = m.group(1)
        if txt in seen:
            continue
        seen.add(txt)
        rec = json.loads(txt.encode().decode("unicode_escape"))
        s = convert(rec)
        if s:
            res.append(s)
    ms = re.search(r"The number of states generated: (\d+)", out)
    return res, int(ms.group(1)) if ms else 0


def cover_schedules(cfg, timeout=3000, workers=8):
    """Breadth-first model checking of MC_MuxSched.tla in cover mode (VIEW CoverView, invariant EmitNode): TLC prints, for
    every node (command, resulting abstract state) of the bounded state graph, a shortest schedule reaching it.  A
    schedule that is a prefix of another one is covered by it: only the maximal ones (the leaves of the breadth-first
    spanning tree) are returned.  Returns (schedules, nodes, distinct states reported by TLC)."""
    meta = tempfile.mkdtemp(prefix="cov_", dir=vlib.WORK)
    cmd = ["timeout", str(timeout)] + vlib.tlc_cmd("MC_MuxSched.tla", cfg, workers, meta)
    rc, out = vlib.run(cmd, timeout=timeout + 30, cwd=vlib.SPEC)
    shutil.rmtree(meta, ignore_errors=True)
    if "Invariant NoViolation is violated" in out:
        raise vlib.ToolError("MC_MuxSched (cover): a specification monitor fired (triage the specification)")
    if "Model checking completed. No error has been found." not in out:
        raise vlib.ToolError("MC_MuxSched (cover) did not complete: " + out[-600:])
    recs = []
    for m in re.finditer(r'<<"SCHED", "(.*)">>', out):
        rec = json.loads(m.group(1).encode().decode("unicode_escape"))
        key = tuple(json.dumps(c, sort_keys=True) for c in rec["cmds"])
        recs.append((key, rec))
    nodes = len(recs)
    recs.sort(key=lambda x: x[0])
    leaves = []
    for i, (key, rec) in enumerate(recs):
        nxt = recs[i + 1][0] if i + 1 < len(recs) else ()
        if len(nxt) > len(key) and nxt[:len(key)] == key:
            continue
        leaves.append(rec)
    res = [s for s in (convert(r) for r in leaves) if s]
    ms = re.search(r"(\d+) distinct states found", out)
    return res, nodes, int(ms.group(1)) if ms else 0


def fault_enumeration(bases, step=3):
    """C08: from fault-free schedules, inject every end-of-connection cause at every `step`-th prefix on
    each endpoint; the run to quiescence that follows must resolve everything."""
    out = []
    kinds = [("fault", "cutsrc"), ("fault", "cutsrcs"), ("fault", "endsrc"), ("fault", "cutsink"), ("fault", "softcut"),
             ("drop_mux", None), ("close", None), ("junk", None)]
    for b in bases:
        cmds = [c for c in b["cmds"] if c["op"] not in ("quiesce", "drop_mux")]
        for p in range(0, len(cmds) + 1, step):
            for e in ("A", "B"):
                for op, kind in kinds:
                    if op == "fault":
                        f = {"op": "fault", "e": e, "kind": kind}
                    elif op == "drop_mux":
                        f = {"op": "drop_mux", "e": e}
                    else:
                        f = {"op": "inject", "e": e, "m": {"op": op}}
                    out.append({"cfg": b["cfg"], "real": 2, "cmds": cmds[:p] + [f, {"op": "quiesce", "lazy": False}]})
    return out


if __name__ == "__main__":
    vlib.ensure_dirs()
    sch, n = schedules(int(sys.argv[1]), 70, int(sys.argv[2]) if len(sys.argv) > 2 else 1)
    json.dump(sch, open(sys.argv[3] if len(sys.argv) > 3 else "/dev/stdout", "w"))
    print(len(sch), "schedules,", n, "states", file=sys.stderr)
