---------------------------- MODULE TunnelTrace ----------------------------
(***************************************************************************)
(* Trace specification of property C01: validates what the endpoints of    *)
(* the REAL tunnel observed (harness_app/src/bin/tunnel.rs: a real penguin *)
(* client and server on loopback, real sockets on both ends) against the   *)
(* oracle DirectConn.tla.                                                   *)
(*                                                                         *)
(* Input: one line per connection / exchange (tools/fam_tunnel.py only     *)
(* regroups the harness's per-event lines, keeping each endpoint's order): *)
(*   kind "tcp"  [s, c, entry, refuse, rhold_c, rhold_t, C, T]   C / T =   *)
(*               the event sequences of the local client and of the target; *)
(*               rhold_x: endpoint x starts with its reader held            *)
(*   kind "udp"  [s, mode, tgts, CL, T, T2]   CL[k] = events of local      *)
(*               client k, T / T2 = events of the first / second target    *)
(*   kind "sys"  [s, ev, ..]   the tunnel died, panicked or hung           *)
(*                                                                         *)
(* TCP: the harness never merges the two endpoint logs by wall clock.  The *)
(* order of events ACROSS endpoints is inferred: TLC interleaves the two   *)
(* sequences nondeterministically (each in its own order) and feeds the    *)
(* events to the monitors of DirectConn.tla; an event may only be taken    *)
(* where no monitor fires.  A connection is accepted iff SOME interleaving *)
(* consumes both logs and satisfies the end-of-connection obligation.      *)
(* Every connection is an initial state of its own; register 10 + i keeps  *)
(* the verdict of line i, the deepest point any interleaving reached and   *)
(* the monitors that block there (for the diagnosis).                      *)
(* Two kinds of events are statements of the harness about BOTH endpoints  *)
(* (it owns both and has one clock): timeout "eof" (the peer finished the  *)
(* deadline ago) and timeout "delivery" (the reading peer had not received *)
(* what this endpoint sent when the deadline ran out: signature            *)
(* direction_blocked).  They hold wherever the search places them.         *)
(* UDP: the relation UdpFailing of DirectConn.tla is evaluated on the      *)
(* history of the exchange (SOCKS5: ParseUdp of Socks.tla on what each     *)
(* client received; every datagram at the target it was addressed to:      *)
(* signature udp_datagram_wrong_target).                                    *)
(*                                                                         *)
(* Acceptance: POSTCONDITION Accepted (as in SocksTrace.tla): every        *)
(* rejected line is reported with a stable signature.                      *)
(***************************************************************************)
EXTENDS DirectConn, Json, IOUtils

CONSTANTS HdrAddr,      \* "any": the property's words; "target": the SOCKS5 reply header must name the target
          Stall         \* "note": a write that blocks for good after the peer closed is reported, not rejected
                        \* ("closed" = the read side saw eof / reset, nothing more); "violation": it is rejected

\* monitors whose firing does not stop the search
Tolerated == IF Stall = "note" THEN {"StalledAfterClose"} ELSE {}

Rec == ndJsonDeserialize(IOEnv.TRACE)
N == Len(Rec)

VARIABLES k, ic, it, st
vars == <<k, ic, it, st>>

Reg(i) == 10 + i

(* ------------------------------ UDP: the history of an exchange ------------------------------ *)
RECURSIVE Gather(_, _, _)
\* the events named `ev` of all clients, each tagged with its client
Gather(r, n, ev) ==
  IF n = 0 THEN <<>>
  ELSE LET q == SelectSeq(r.CL[n], LAMBDA e : e.ev = ev)
       IN Gather(r, n - 1, ev) \o [i \in 1 .. Len(q) |-> [k |-> n, e |-> q[i]]]

HistOf(r) ==
  LET us == Gather(r, Len(r.CL), "usend")
      ur == Gather(r, Len(r.CL), "urecv")
      to == Gather(r, Len(r.CL), "utimeout") \o Gather(r, Len(r.CL), "usend_err")
      \* the two targets are two endpoints with a log each; their events carry the number of the target
      Of(q, ev) == SelectSeq(q, LAMBDA e : e.ev = ev)
      tr == Of(r.T, "trecv") \o Of(r.T2, "trecv")
      tp == Of(r.T, "treply") \o Of(r.T2, "treply")
  IN [mode |-> r.mode, tgts |-> r.tgts,
      sent     |-> [i \in 1 .. Len(us) |-> [k |-> us[i].k, j |-> us[i].e.j, n |-> us[i].e.n, dg |-> us[i].e.dg, to |-> us[i].e.to,
                                            tgt |-> us[i].e.tgt]],
      crecv    |-> [i \in 1 .. Len(ur) |-> [k |-> ur[i].k, from |-> ur[i].e.from, n |-> ur[i].e.n, head |-> ur[i].e.head, sfx |-> ur[i].e.sfx]],
      timeouts |-> to,
      trecv    |-> [i \in 1 .. Len(tr) |-> [r |-> tr[i].r, src |-> tr[i].src, n |-> tr[i].n, dg |-> tr[i].dg, tgt |-> tr[i].tgt]],
      treply   |-> [i \in 1 .. Len(tp) |-> [r |-> tp[i].r, to |-> tp[i].to, n |-> tp[i].n, dg |-> tp[i].dg, tgt |-> tp[i].tgt]]]

AssocFailed(r) == \E n \in 1 .. Len(r.CL) : \E i \in 1 .. Len(r.CL[n]) : r.CL[n][i].ev = "assoc" /\ ~r.CL[n][i].ok

\* every datagram that did not reach the target was sent after the client had been silent for `idle_ms` >= 10 s
\* (the idle timeout of the relay): the stable name of that case
LostAfterIdle(r) ==
  LET h == HistOf(r)
      us == Gather(r, Len(r.CL), "usend")
      lost == {i \in Idx(us) : ~\E m \in Idx(h.trecv) : <<h.trecv[m].n, h.trecv[m].dg, h.trecv[m].tgt>> = <<us[i].e.n, us[i].e.dg, us[i].e.tgt>>}
  IN lost # {} /\ \A i \in lost : us[i].e.idle_ms >= 10000

UdpWhy(r) ==
  LET w == UdpFailing(HistOf(r), HdrAddr = "target") \cup (IF AssocFailed(r) THEN {"socks5_associate_failed"} ELSE {})
  IN IF "udp_datagram_lost" \in w /\ LostAfterIdle(r) THEN (w \ {"udp_datagram_lost"}) \cup {"udp_datagram_lost_after_idle"} ELSE w

UdpOrder == <<"socks5_associate_failed", "udp_datagram_wrong_target", "udp_datagram_modified", "udp_datagram_duplicated", "udp_datagram_lost",
              "udp_datagram_lost_after_idle",
              "socks5_udp_header", "udp_reply_wrong_client", "udp_reply_wrong_source", "udp_reply_modified",
              "udp_reply_duplicated", "udp_reply_lost", "socks5_udp_header_addr", "udp_timeout">>
First(order, S) == LET I == {i \in 1 .. Len(order) : order[i] \in S}
                   IN IF I = {} THEN "other:unclassified" ELSE order[CHOOSE i \in I : \A j \in I : i <= j]

\* informational: a SOCKS5 reply whose (well-formed) header does not name the target
HeaderNote(r) ==
  /\ r.mode = "socks5"
  /\ LET h == HistOf(r) IN \E i \in Idx(h.crecv) : HeaderOK(h, h.crecv[i]) /\ ~HeaderNamesTarget(h, h.crecv[i])

(* ------------------------------ TCP: the search over interleavings ------------------------------ *)
EvC == Rec[k].C
EvT == Rec[k].T
AtEnd == ic = Len(EvC) /\ it = Len(EvT)
NextOf(x) == IF x = "c" THEN (IF ic < Len(EvC) THEN <<EvC[ic + 1]>> ELSE <<>>)
                        ELSE (IF it < Len(EvT) THEN <<EvT[it + 1]>> ELSE <<>>)
\* what keeps the search from going on from here
Blockers ==
  LET B(x) == IF NextOf(x) = <<>> THEN {} ELSE Failing(st, x, NextOf(x)[1]) \ Tolerated
  IN B("c") \cup B("t") \cup (IF AtEnd THEN EndFailing(st) ELSE {})

Init ==
  /\ k \in 1 .. N
  /\ ic = 0 /\ it = 0
  /\ st = IF Rec[k].kind = "tcp"
          THEN TcpInitHeld((IF Rec[k].rhold_c THEN {"c"} ELSE {}) \cup (IF Rec[k].rhold_t THEN {"t"} ELSE {}))
          ELSE TcpInit
  /\ TLCSet(Reg(k),
       IF Rec[k].kind = "tcp" THEN [acc |-> FALSE, depth |-> -1, why |-> {}]
       ELSE IF Rec[k].kind = "udp" THEN LET w == UdpWhy(Rec[k]) IN [acc |-> w = {}, depth |-> 0, why |-> w]
       ELSE [acc |-> FALSE, depth |-> 0, why |-> {Rec[k].ev}])

TakeEv(x) ==
  /\ NextOf(x) # <<>>
  /\ Failing(st, x, NextOf(x)[1]) \subseteq Tolerated
  /\ st' = Step(st, x, NextOf(x)[1])
  /\ IF x = "c" THEN ic' = ic + 1 /\ it' = it ELSE it' = it + 1 /\ ic' = ic
  /\ k' = k

Next == Rec[k].kind = "tcp" /\ (TakeEv("c") \/ TakeEv("t"))
Spec == Init /\ [][Next]_vars

\* evaluated on every state: book-keeping of the verdict; the states of an accepted connection are not expanded
Track ==
  IF Rec[k].kind # "tcp" THEN TRUE
  ELSE LET reg == TLCGet(Reg(k))
           d == ic + it
       IN IF reg.acc THEN FALSE
          ELSE IF AtEnd /\ EndFailing(st) = {} THEN TLCSet(Reg(k), [reg EXCEPT !.acc = TRUE])
          ELSE IF d > reg.depth THEN TLCSet(Reg(k), [acc |-> FALSE, depth |-> d, why |-> Blockers])
          ELSE IF d = reg.depth THEN TLCSet(Reg(k), [reg EXCEPT !.why = @ \cup Blockers])
          ELSE TRUE

(* ------------------------------ diagnosis: a stable signature per rejected line ------------------------------ *)
Has(q, P(_)) == \E i \in Idx(q) : P(q[i])
RECURSIVE SumSent(_, _)
SumSent(q, i) == IF i = 0 THEN 0 ELSE SumSent(q, i - 1) + (IF q[i].ev = "send" THEN q[i].n ELSE 0)
Recvs(q) == SelectSeq(q, LAMBDA e : e.ev = "recv")
Contiguous(q) == LET rq == Recvs(q) IN \A i \in Idx(rq) : rq[i].a = (IF i = 1 THEN 0 ELSE rq[i - 1].b)
GotUpTo(q) == LET rq == Recvs(q) IN IF rq = <<>> THEN 0 ELSE rq[Len(rq)].b
EofTimeout(e) == e.ev = "timeout" /\ e.what = "eof"
Closes(q) == Has(q, LAMBDA e : e.ev \in {"close", "refused"})

TcpSig(r, why) ==
  LET C == r.C  T == r.T IN
  IF Has(C \o T, LAMBDA e : EofTimeout(e) /\ ~e.peer_fin) \/ "Script" \in why THEN "other:malformed_script"
  ELSE IF Has(C, LAMBDA e : e.ev = "hs" /\ ~e.ok) /\ ~r.refuse THEN "connect_failed"
  ELSE IF Has(T, LAMBDA e : e.ev = "timeout" /\ e.what = "accept") THEN "connect_not_forwarded"
  ELSE IF Has(C \o T, LAMBDA e : e.ev = "bad") THEN "tcp_bytes_corrupt"
  ELSE IF ~Contiguous(C) \/ ~Contiguous(T) THEN "tcp_bytes_misordered"
  ELSE IF GotUpTo(C) > SumSent(T, Len(T)) \/ GotUpTo(T) > SumSent(C, Len(C)) THEN "tcp_bytes_invented"
       \* what one endpoint sent did not reach the reading peer while the opposite direction was blocked
  ELSE IF Has(C \o T, LAMBDA e : e.ev = "timeout" /\ e.what = "delivery") /\ "Independent" \in why THEN "direction_blocked"
  ELSE IF Has(C \o T, LAMBDA e : e.ev = "timeout" /\ e.what = "write")
       THEN (IF "StalledAfterClose" \in why THEN "write_stalled_after_peer_closed" ELSE "tcp_stalled")
       \* an endpoint gave up waiting for the end of the stream: after the peer CLOSED (or refused) it is the local
       \* connection left hanging (or the target's), after a mere half-close it is the half-close that did not arrive;
       \* which of the two it was is what the search found at its deepest point
  ELSE IF Has(C \o T, EofTimeout)
       THEN IF "ClosedNotHanging" \in why \/ ("HalfClose" \notin why /\ (Closes(T) \/ Closes(C)))
            THEN (IF Has(C, EofTimeout) /\ Closes(T) THEN "left_hanging" ELSE "close_not_propagated")
            ELSE "halfclose_not_propagated"
  ELSE IF "Complete" \in why THEN "tcp_bytes_lost"
  ELSE IF "HalfClose" \in why THEN (IF Has(C \o T, LAMBDA e : e.ev = "reset") THEN "unexpected_reset" ELSE "unexpected_eof")
  ELSE IF "Prefix" \in why THEN "tcp_bytes_invented"
  ELSE "other:no_consistent_interleaving"

Sig(i) ==
  LET r == Rec[i] reg == TLCGet(Reg(i)) IN
  IF r.kind = "tcp" THEN TcpSig(r, reg.why)
  ELSE IF r.kind = "udp" THEN First(UdpOrder, reg.why)
  ELSE "tunnel_" \o r.ev

Detail(i) ==
  LET r == Rec[i] reg == TLCGet(Reg(i)) IN
  IF r.kind = "tcp" THEN [s |-> r.s, c |-> r.c, entry |-> r.entry, blocked_after |-> reg.depth,
                          of |-> Len(r.C) + Len(r.T), monitors |-> reg.why]
  ELSE IF r.kind = "udp" THEN [s |-> r.s, c |-> 0, entry |-> r.mode, failing |-> reg.why]
  ELSE [s |-> r.s, c |-> 0, entry |-> "sys", ev |-> r.ev]

Bad == {i \in 1 .. N : ~TLCGet(Reg(i)).acc}
Min(S) == CHOOSE i \in S : \A j \in S : i <= j

Accepted ==
  /\ \A i \in 1 .. N : (Rec[i].kind = "udp" /\ HeaderNote(Rec[i])) => PrintT(<<"NOTE", i, "socks5_udp_header_addr_not_target">>)
  /\ \A i \in 1 .. N : (Rec[i].kind = "tcp" /\ TLCGet(Reg(i)).acc /\ Has(Rec[i].C \o Rec[i].T, LAMBDA e : e.ev = "timeout" /\ e.what = "write"))
                          => PrintT(<<"NOTE", i, "write_stalled_after_peer_closed">>)
  /\ \/ /\ Bad = {}
        /\ PrintT(<<"ACCEPTED lines", N>>)
     \/ /\ Bad # {}
        /\ PrintT(<<"REJECTED at line", Min(Bad), "of", N>>)
        /\ \A i \in Bad : PrintT(<<"BAD", i, Sig(i), ToJson(Detail(i))>>)
        /\ PrintT(<<"BADCOUNT", Cardinality(Bad)>>)
        /\ FALSE
=============================================================================
