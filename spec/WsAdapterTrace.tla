--------------------------- MODULE WsAdapterTrace ---------------------------
(***************************************************************************)
(* Trace specification of the WsAdapter family: validates an ndjson log    *)
(* written by harness/src/bin/ws_vec.rs (the adapter `impl                 *)
(* penguin_mux::ws::WebSocket for tokio_tungstenite::WebSocketStream` of   *)
(* penguin-mux/src/ws.rs, driven step by step over an in-memory transport) *)
(* against the contract of WsAdapter.tla.                                  *)
(*                                                                         *)
(* A log is a sequence of scripts; each starts with a line                 *)
(*   {"ev":"reset","role":"server"|"client",...}                           *)
(* followed by one line per step:                                          *)
(*   feed   the peer put frames on the connection (what, len, fin, var,    *)
(*          cut, plen, why, k = number of the first payload) or ended its  *)
(*          side (what = "eof" | "ioerr")                                  *)
(*   wfail  the transport refuses writes from now on                       *)
(*   next   poll_next_unpin: res = msg | none | err | pending | panic,     *)
(*          msg = [kind, len, first, r251, r95]                            *)
(*   send   poll_ready_unpin (ready) then start_send_unpin (res) of        *)
(*          [kind, k, len]                                                 *)
(*   flush, close   poll_flush_unpin / poll_close_unpin: res               *)
(* every line with `wire`: the WebSocket messages decoded from the octets  *)
(* the adapter wrote during the step, [kind, len, first, r251, r95, frags, *)
(* masked, minenc, code], and `residue`: octets written that do not yet    *)
(* form a complete message.                                                *)
(*                                                                         *)
(* The state is the state record `s` of WsAdapter.tla; a line is matched   *)
(* when the contract allows the logged observation in some state reached   *)
(* so far (the contract leaves choices to the transport: TLC follows all   *)
(* of them).  A script is ACCEPTED when some behaviour reaches its end.    *)
(* A state in which the line cannot be matched records, for its script,    *)
(* a signature (Sig) and what the contract expected (ExpectView) -- it     *)
(* counts only if no other behaviour of the script gets further -- and,    *)
(* with Collect = TRUE, skips to the next `reset`, so that one run reports *)
(* every rejected script.  Acceptance: POSTCONDITION Accepted (idiom of    *)
(* MuxTrace.tla / SocksTrace.tla).                                         *)
(*                                                                         *)
(* TLC registers: 1 = furthest line reached, 2 = number of scripts,        *)
(* 10 + k = [line, sig, exp, done] of script k (k = 0: lines before the    *)
(* first reset).                                                           *)
(***************************************************************************)
EXTENDS WsAdapter, Json, IOUtils, TLC

CONSTANT Collect

Rec == ndJsonDeserialize(IOEnv.TRACE)

VARIABLES l, s, mode, sid
tvars == <<l, s, mode, sid>>

(* ---------------- a logged line as an operation of the contract ------------------------------------- *)
FeedKinds == {"binary", "text", "cont", "ping", "pong", "close", "frag", "bad"}
FramesOfLine(r) ==
  CASE r.what \in {"binary", "text", "cont"} -> << Frame(r.what, r.fin, r.k, r.len) >>
    [] r.what \in {"ping", "pong"} -> << Frame(r.what, TRUE, r.k, r.len) >>
    [] r.what = "close" -> << Frame("close", TRUE, 0, CloseLen(r.var)) >>
    [] r.what = "frag" -> << Frame("binary", FALSE, r.k, r.cut), Frame("ping", TRUE, r.k + 1, r.plen),
                             Frame("cont", TRUE, r.k, r.len - r.cut) >>
    [] r.what = "bad" -> << BadFrame >>

SendKindsAll == {"binary", "ping", "pong", "close"}
SendMsg(r) == [kind |-> r.kind, k |-> r.k, len |-> r.len]

Succ0(t, r) ==
  CASE r.ev = "feed" ->
         IF r.wire # <<>> THEN {}
         ELSE IF r.what = "eof" THEN {AfterEnd(t, "eof")}
         ELSE IF r.what = "ioerr" THEN {AfterEnd(t, "ioerr")}
         ELSE IF r.what \in FeedKinds /\ (r.what = "frag" => r.cut <= r.len) THEN {AfterFeed(t, FramesOfLine(r))}
         ELSE {}
    [] r.ev = "wfail" -> IF r.wire # <<>> THEN {} ELSE {AfterWfail(t)}
    [] r.ev = "next" -> AfterNext(t, r.res, r.msg, r.wire)
    [] r.ev = "send" -> IF r.kind \in SendKindsAll THEN AfterSend(t, SendMsg(r), r.ready, r.res, r.wire) ELSE {}
    [] r.ev = "flush" -> { x \in AfterFlush(t, r.res, r.wire) : r.res = "ok" => r.residue = 0 }
    [] r.ev = "close" -> { x \in AfterClose(t, r.res, r.wire) : r.res = "ok" => r.residue = 0 }
    [] OTHER -> {}
Succ(t, r) == { [x EXCEPT !.tags = <<>>] : x \in Succ0(t, r) }

(* ---------------- diagnosis of an unmatched line: a stable signature -------------------------------- *)
\* the first wire message of W that has no explanation from state t, classified
WireSig(t, W) ==
  LET n == CHOOSE i \in 0 .. Len(W) : /\ Explained(t, Take(W, i)) # {}
                                      /\ \A j \in (i + 1) .. Len(W) : Explained(t, Take(W, j)) = {}
  IN IF n = Len(W) THEN "other:wire"
     ELSE LET w == W[n + 1]
              e == CHOOSE x \in Explained(t, Take(W, n)) : TRUE
          IN IF w.kind \notin {"binary", "ping", "pong", "close"} THEN "send:wrong_kind"
             ELSE IF w.masked # (IF t.role = "client" THEN w.frags ELSE 0) THEN "send:mask"
             ELSE IF ~WireWF(t.role, w) THEN "send:frame_format"
             ELSE IF e.cw THEN "send:after_close"
             ELSE IF \E i \in 2 .. Len(e.pend) : MatchesSend(w, e.pend[i]) THEN "send:order"
             ELSE IF e.pend # <<>> /\ w.kind # Head(e.pend).kind THEN "send:wrong_kind"
             ELSE IF e.pend # <<>> /\ w.kind = "binary" THEN "send:payload"
             ELSE "send:invented"

NextSig(t, r) ==
  LET A == NextRes(t)
      M == Msgs(t.conn)
      i == t.ndel + 1
      Is(j) == j >= 1 /\ j <= Len(M) /\ M[j].kind # "bad" /\ MatchDeliv(r.msg, Delivered(M[j]))
  IN
  IF r.res \notin A THEN
     CASE r.res = "pending" -> "recv:hang"
       [] r.res = "none" -> IF "err" \in A THEN "recv:err_as_none"
                            ELSE IF "msg" \in A THEN "recv:lost" ELSE "recv:early_end"
       [] r.res = "err" -> "recv:false_err"
       [] r.res = "msg" -> IF t.rst # "live" THEN "recv:after_end"
                           ELSE IF Avail(t) THEN "recv:bad_frame_accepted"
                           ELSE IF Is(t.ndel) THEN "recv:dup" ELSE "recv:invented"
       [] OTHER -> "other:malformed_line"
  ELSE IF r.res = "msg" /\ ~Is(i) THEN
       IF Is(i + 1) THEN "recv:lost"
       ELSE IF Is(i - 1) THEN "recv:dup"
       ELSE IF r.msg.kind # Delivered(M[i]).kind THEN "recv:wrong_kind"
       ELSE "recv:payload"
  ELSE WireSig(t, r.wire)

SendSig(t, r) ==
  IF r.kind \notin SendKindsAll THEN "other:malformed_line"
  ELSE IF r.ready = "pending" \/ r.res = "pending" THEN "send:hang"
  ELSE IF r.ready \notin ReadyRes(t) \/ r.res \notin SendRes(t) THEN
       (IF r.ready \in {"ok", "err"} /\ r.res \in {"ok", "err"} THEN "send:false_err" ELSE "other:malformed_line")
  ELSE IF r.ready # "ok" /\ r.res # r.ready THEN "other:malformed_line"
  ELSE WireSig(IF r.res = "ok" THEN [t EXCEPT !.pend = Append(@, SendMsg(r))] ELSE t, r.wire)

FlushSig(t, r) ==
  IF r.res = "pending" THEN "flush:hang"
  ELSE IF r.res \notin {"ok", "err"} THEN "other:malformed_line"
  ELSE IF r.res = "err" THEN "flush:false_err"
  ELSE IF Explained(t, r.wire) = {} THEN WireSig(t, r.wire)
  ELSE IF r.residue # 0 THEN "send:partial_frame"
  ELSE "send:missing"

CloseSig(t, r) ==
  IF r.res = "pending" THEN "close:hang"
  ELSE IF r.res \notin {"ok", "err"} THEN "other:malformed_line"
  ELSE IF r.res = "err" THEN "close:false_err"
  ELSE LET q == IF t.cw \/ HasClose(t.pend) THEN t
                ELSE [t EXCEPT !.pend = Append(@, [kind |-> "close", k |-> 0, len |-> 0])]
           E == Explained(q, r.wire)
       IN IF E = {} THEN (IF Explained(t, r.wire) # {} THEN "close:no_close_frame" ELSE WireSig(q, r.wire))
          ELSE IF r.residue # 0 THEN "send:partial_frame"
          ELSE IF \E x \in E : x.pend = <<>> THEN "close:no_close_frame"
          ELSE IF \E x \in E : x.pend = <<[kind |-> "close", k |-> 0, len |-> 0]>> THEN "close:no_close_frame"
          ELSE "send:missing"

Sig(t, r) ==
  IF r.ev \in {"next", "send", "flush", "close"} /\ r.res = "panic" THEN "panic"
  ELSE CASE r.ev = "next" -> NextSig(t, r)
         [] r.ev = "send" -> SendSig(t, r)
         [] r.ev = "flush" -> FlushSig(t, r)
         [] r.ev = "close" -> CloseSig(t, r)
         [] r.ev \in {"feed", "wfail"} -> IF r.wire # <<>> THEN "wire:spontaneous" ELSE "other:malformed_line"
         [] OTHER -> "other:malformed_line"

\* what the contract expected in state t (for the reader of a report)
ExpectView(t, r) ==
  LET M == Msgs(t.conn) IN
  [role |-> t.role, rst |-> t.rst, rdEnd |-> t.rdEnd, delivered |-> t.ndel, complete |-> Len(M),
   next_allowed |-> NextRes(t),
   next_msg |-> IF Avail(t) THEN <<Delivered(M[t.ndel + 1])>> ELSE <<>>,
   send_allowed |-> SendRes(t),
   queued |-> t.pend, close_on_wire |-> t.cw, closing |-> t.closing, write_broken |-> t.wbroken,
   pings_unanswered |-> {j \in (t.pp + 1) .. Len(M) : M[j].kind = "ping"}]

(* ---------------- the walk over the log ------------------------------------------------------------- *)
NScripts == Cardinality({i \in 1 .. Len(Rec) : Rec[i].ev = "reset"})
Reg(k) == 10 + k
Fresh == [line |-> 0, sig |-> "", exp |-> "", done |-> FALSE]

Reach(k, line) ==
  LET g == TLCGet(Reg(k)) IN
  IF g.line < line THEN TLCSet(Reg(k), [g EXCEPT !.line = line, !.sig = "", !.exp = ""]) ELSE TRUE
Stuck(k, line, r) ==
  LET g == TLCGet(Reg(k)) IN
  IF g.line <= line /\ g.sig = ""
  THEN TLCSet(Reg(k), [g EXCEPT !.line = line, !.sig = Sig(s, r), !.exp = ToJson(ExpectView(s, r))])
  ELSE TRUE
Done(k) == TLCSet(Reg(k), [TLCGet(Reg(k)) EXCEPT !.done = TRUE])
EndsScript(i) == i >= Len(Rec) \/ Rec[i + 1].ev = "reset"

Init ==
  /\ l = 1 /\ s = Start("server") /\ mode = "run" /\ sid = 0
  /\ TLCSet(1, 1)
  /\ LET n == NScripts IN
     /\ TLCSet(2, n)
     /\ TLCSet(Reg(n) + 1, 0)          \* sizes the register file once
     /\ \A k \in 0 .. n : TLCSet(Reg(k), Fresh)

Step ==
  /\ l <= Len(Rec)
  /\ l' = l + 1
  /\ LET r == Rec[l] IN
     IF r.ev = "reset" THEN
        /\ r.role \in {"server", "client"}
        /\ sid' = sid + 1 /\ s' = Start(r.role) /\ mode' = "run"
        /\ Reach(sid + 1, l + 1)
        /\ IF EndsScript(l) THEN Done(sid + 1) ELSE TRUE
     ELSE IF mode = "skip" THEN UNCHANGED <<s, mode, sid>>
     ELSE LET S == Succ(s, r) IN
          IF S # {}
          THEN /\ s' \in S /\ UNCHANGED <<mode, sid>>
               /\ Reach(sid, l + 1)
               /\ IF EndsScript(l) THEN Done(sid) ELSE TRUE
          ELSE /\ Stuck(sid, l, r)
               /\ Collect
               /\ mode' = "skip" /\ UNCHANGED <<s, sid>>

Next == Step
Spec == Init /\ [][Next]_tvars

Track == IF TLCGet(1) < l THEN TLCSet(1, l) ELSE TRUE

\* scripts that were entered and whose end no behaviour reached (with Collect = FALSE the scripts behind the first
\* rejected one are never entered: they are neither accepted nor rejected, and Accepted is false)
BadScripts == { k \in 0 .. TLCGet(2) : IF k = 0 THEN TLCGet(Reg(0)).sig # ""
                                        ELSE TLCGet(Reg(k)).line > 0 /\ ~TLCGet(Reg(k)).done }

Accepted ==
  LET B == BadScripts IN
  \/ /\ B = {}
     /\ TLCGet(1) = Len(Rec) + 1
     /\ PrintT(<<"ACCEPTED lines", Len(Rec), "scripts", TLCGet(2)>>)
  \/ /\ PrintT(<<"REJECTED scripts", Cardinality(B), "of", TLCGet(2), "lines", Len(Rec)>>)
     /\ \A k \in B :
          LET g == TLCGet(Reg(k)) IN
          PrintT(<<"BAD", g.line, IF g.sig = "" THEN "other:no_verdict" ELSE g.sig, g.exp, k>>)
     /\ PrintT(<<"BADCOUNT", Cardinality(B)>>)
     /\ FALSE
=============================================================================
