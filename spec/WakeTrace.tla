------------------------------ MODULE WakeTrace ------------------------------
(* Validates the executions loom enumerated of the real poll_obtain_write_permission /
   acknowledge / disallow_write (hook penguin-mux/src/verif_wake.rs) against the Contract of
   WriterWake.tla.  One line = one complete execution; a rejected line is recorded and validation
   continues.                                                                                   *)
EXTENDS WriterWakeDefs, Json, IOUtils

Rec == ndJsonDeserialize(IOEnv.TRACE)
VARIABLES l, bad
Init0 == TLCSet(7, <<>>) /\ l = 1 /\ bad = <<>>
OpsOf(str) == CASE str = "a" -> <<"a">> [] str = "c" -> <<"c">> [] str = "ac" -> <<"a", "c">>
                [] str = "aa" -> <<"a", "a">> [] str = "ca" -> <<"c", "a">> [] OTHER -> <<>>
Step ==
  /\ l <= Len(Rec) /\ l' = l + 1
  /\ LET r == Rec[l] IN
     IF Contract(r.credit, OpsOf(r.ops), r.polls, r.woken, r.after, r.credit_final, r.closed)
        /\ (r.ops = "" \/ OpsOf(r.ops) # <<>>)
     THEN UNCHANGED bad
     ELSE bad' = Append(bad, <<l, r>>)
TSpec == Init0 /\ [][Step]_<<l, bad>>
Track == (l = Len(Rec) + 1) => TLCSet(7, bad)
Accepted ==
  /\ PrintT(<<"LINES", Len(Rec)>>)
  /\ \A i \in 1 .. Len(TLCGet(7)) : PrintT(<<"BAD", ToJson(TLCGet(7)[i])>>)
  /\ Len(TLCGet(7)) = 0
=============================================================================
