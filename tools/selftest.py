#!/usr/bin/env python3
"""Self-test of the framework's binding (not a registered check): every trace recorded on the PINNED tree for a
repaired defect must be rejected by the trace specification, a hand-corrupted field must be rejected, and the
negative-control models must fail.  usage: python3 tools/selftest.py"""
import glob, json, os, re, sys, tempfile
sys.path.insert(0, os.path.dirname(os.path.abspath(__file__)))
import vlib

vlib.ensure_dirs()
ok = True

def report(name, good, extra=""):
    global ok
    print(("PASS " if good else "FAIL ") + name + (" " + extra if extra else ""))
    ok = ok and good

# 1. pinned traces of repaired mux-family defects are rejected
for f in sorted(glob.glob(os.path.join(vlib.VERIF, "findings", "F*", "trace_pinned.ndjson"))):
    fid = f.split("/")[-2]
    if fid in ("F13",):
        continue
    r = vlib.validate_batch("MuxTrace", "MuxTrace", f)
    report(f"pinned trace of {fid} is rejected", len(r["failures"]) >= 1)

# 2. a corrupted field in an accepted trace is rejected at that line
sched = os.path.join(vlib.VERIF, "findings", "F1", "schedule.json")
d = vlib.build_harness(["mux_sim"])
tmp = tempfile.mkdtemp(dir=vlib.WORK)
good = os.path.join(tmp, "good.ndjson")
vlib.run([os.path.join(d, "mux_sim"), "script", sched, good])
r = vlib.validate_batch("MuxTrace", "MuxTrace", good)
report("trace of findings/F1/schedule.json on the current tree is accepted", not r["failures"])
lines = open(good).readlines()
for i, l in enumerate(lines):
    if '"ev":"read"' in l and '"res":"data"' in l:
        rec = json.loads(l); rec["off"] = (rec["off"] + 1) % 32
        lines[i] = json.dumps(rec) + "\n"
        break
bad = os.path.join(tmp, "bad.ndjson")
open(bad, "w").writelines(lines)
r = vlib.validate_batch("MuxTrace", "MuxTrace", bad)
report("the same trace with one read offset changed is rejected", len(r["failures"]) == 1 and r["failures"][0]["line_in_trace"] == i + 1)

# 3. negative-control models must fail
for mod, cfg in (("MC_Live", "MC_Live_pinned"), ("WriterWake", "MC_Wake_pinned"), ("Keepalive", "MC_Keepalive_f12"), ("MC_Mux", "MC_Reuse_kf"), ("MC_Mux", "MC_Close_orphan"), ("MC_Mux", "MC_TeardownLive_nofair")):
    r = vlib.model_check(mod, cfg, workers=4, timeout=600, coverage=False)
    report(f"negative control {cfg} is violated", not r["ok"], str(r["violated"]))
print("SELFTEST", "OK" if ok else "FAILED")
sys.exit(0 if ok else 1)
