#!/usr/bin/env python3
"""C17: TLS peers are authenticated exactly as configured.

A thin use of TLA+ (a decision table + a small state machine as the reference decision procedure):

spec/TlsAuth.tla       the decision table Expected(cell) and the reload machine Connect / Reload / Use(c) with the
                       invariants Undisturbed and Fresh, written from the text of the property
spec/MC_TlsAuth.tla    TLC enumerates the 72 cells of the matrix (one state = one `CASE` line each) and every
                       interleaving of connections, reloads and uses (`SCRIPT` lines), checking the invariants;
                       negative-control configurations (wrong reload implementations) must violate them
harness_app tls_matrix real handshakes over an in-memory duplex: the application's make_server_config /
                       make_tls_identity / reload_tls_identity + tokio_rustls::TlsAcceptor (the server's serve path)
                       against the application's tls_connect, rcgen-generated chains, application-data round trip;
                       AND the real server entry point (`RSCRIPT` lines): server_main in the harness process on a
                       loopback TCP port with --tls-cert/--tls-key[/--tls-ca], connections with tls_connect presenting
                       the trusted client certificate / none / one of another CA, an HTTP round trip, reloads by
                       rewriting the files and raising SIGUSR1 (the path check_start_tls -> register_signal_handler);
                       the reload machine carries the server's client CA, which a reload keeps (ConfigKept,
                       Authenticated; negative control "dropca")
                       ROTATION OF CA MATERIAL IN PLACE: the machine also carries the GENERATION of the client CA bundle
                       at the configured path (wantGen as configured, liveGen as served, dueGen as of the last reload;
                       Rotate = the operator overwrites the bundle in place; CAFollows, JudgedAsConfigured,
                       Authenticated; negative controls "staleca", "eagerca"); rotation scripts (duplex and real
                       server) let clients of the retired and of the new generation connect before the rotation,
                       between rotation and reload, and after the reload. Client side: one client process whose roots
                       file is replaced in place (`CSCRIPT` lines, ClientFollowsRoots, negative control "staleroots")
                       RETURNING CLIENTS THAT RESUME: the machine carries the tickets clients hold (issued under an identity
                       and a client-CA generation); a connect may offer them (ConnectWith / Honours / Usable); a ticket is
                       worth something only under the configuration that issued it (Fresh, Authenticated,
                       JudgedAsConfigured over every offer, TicketsOfThisConfiguration; negative control "sharedcache": one
                       session cache for the life of the process). Scripts of returning clients (kinds res / rres: connects
                       with "keep": a raw rustls client of the harness whose ClientConfig - its resumption store - is kept
                       for the whole script, TLS 1.3 and TLS 1.2) run on the duplex and through server_main + SIGUSR1
                       UNUSABLE CLIENT CA: a reload request (or a start-up) may find the client-CA bundle at the configured
                       path unusable - empty, a private key, a certificate cut short, random bytes (BotchedReloadCA /
                       BotchedStart: nothing changes, the client CA in force stays; negative control "openonbadca": such a
                       bundle turns client authentication off). Scripts of kinds fca (duplex: reload_tls_identity /
                       make_tls_identity called on the junk file, the result of the call logged) and rfca (server_main: the
                       --tls-ca file overwritten in place + SIGUSR1), followed by connects without a certificate, with one
                       of a foreign CA and with the trusted one, then restore + reload + connects
spec/TlsTrace.tla      TLC validates every logged line; unmatched lines come back with a signature

A rejected line whose signature is an `open` entry of KNOWN_FINDINGS.json (`"property":"C17","sig":...`) is printed
as KNOWN-FINDING and does not fail the check; any other signature is a VIOLATION.
"""
import collections, concurrent.futures, json, os, re, shutil, sys, tempfile, time

import vlib
from vlib import log, ToolError

TIERS = {
    # cfg: enumeration; npki: independently generated PKI sets for the matrix; script_sets: PKI sets for the scripts
    # real_procs: the real-server scripts are dealt out to that many harness processes running side by side (SIGUSR1
    # is process-wide, so within a process the servers run one after the other); each process has its own PKI set
    # script_procs: the same for the duplex and client-side scripts (each process runs its share with script_sets PKI sets)
    "quick": dict(cfg="MC_TlsAuth_q", npki=3, script_sets=1, algs="p256,p384,ed25519", real_procs=4, script_procs=2,
                  bounds="<= 2 connections x <= 2 reloads x <= 2 uses, with and without mutual TLS",
                  real_bounds="real server (server_main + SIGUSR1): <= 2 connections, each presenting the trusted client "
                              "certificate / none / one of another CA, x <= 2 reloads x <= 1 use, with and without mutual TLS",
                  rot_bounds="rotation of the client CA in place (mutual TLS), duplex and real server alike: <= 2 connections, each "
                             "presenting no certificate or one of any generation of the CA, x 1 rotation x 1 reload x <= 1 use",
                  fail_bounds="failed reloads (real server, without mutual TLS): 2 connections x 1 failed reload (key file unusable "
                              "when SIGUSR1 arrives) x 1 reload x <= 1 use",
                  cli_bounds="client side: 3 connections (server certificate issued by any generation of the roots CA or by "
                             "another CA) x 1 replacement of the roots file in place",
                  badca_bounds="unusable client-CA bundle (mutual TLS), duplex (reload_tls_identity / make_tls_identity called directly) "
                               "and real server (SIGUSR1) alike: 2 connections, each presenting no certificate / one of a foreign CA / the "
                               "trusted one, x 1 reload request that finds the bundle at the configured path unusable (empty / a PEM private "
                               "key / a certificate cut short / random bytes, alternating) x 1 reload after the bundle was restored; duplex "
                               "also x <= 1 use and optionally a START-UP on such a bundle as the first operation",
                  res_tls=("1.3", "1.2"),
                  res_bounds="returning clients that resume (a raw rustls client per client certificate whose ClientConfig is kept "
                             "for the whole script; every script once with TLS 1.3 and once with TLS 1.2 clients), duplex and real "
                             "server alike: 2 connections x 1 reload x <= 1 use without mutual TLS; with mutual TLS also 1 rotation "
                             "of the client CA, each connection presenting the certificate of any generation of the CA"),
    "thorough": dict(cfg="MC_TlsAuth", npki=8, script_sets=2, algs="p256,p384,ed25519,rsa2048", real_procs=8, script_procs=4,
                     bounds="<= 3 connections x <= 3 reloads x <= 3 uses, with and without mutual TLS",
                     real_bounds="real server (server_main + SIGUSR1): <= 3 connections, each presenting the trusted client "
                                 "certificate / none / one of another CA, x <= 2 reloads x <= 2 uses, with and without mutual TLS",
                     rot_bounds="rotation of the client CA in place (mutual TLS): duplex <= 2 connections, each presenting no "
                                "certificate or one of any generation of the CA, x 2 rotations x 2 reloads x <= 1 use; real server "
                                "<= 3 connections x 1 rotation x 2 reloads x <= 1 use",
                     fail_bounds="failed reloads (real server, with and without mutual TLS): 2 connections x 2 failed reloads (key file "
                                 "unusable when SIGUSR1 arrives) x 2 reloads x <= 1 use",
                     cli_bounds="client side: 4 connections (server certificate issued by any generation of the roots CA or by "
                                "another CA) x 2 replacements of the roots file in place",
                     badca_bounds="unusable client-CA bundle (mutual TLS), duplex (reload_tls_identity / make_tls_identity called directly) "
                                  "and real server (SIGUSR1) alike: 2 connections, each presenting no certificate / one of a foreign CA / the "
                                  "trusted one, x 2 reload requests that find the bundle at the configured path unusable (empty / a PEM private "
                                  "key / a certificate cut short / random bytes, alternating) x 2 reloads (each restores the bundle first); duplex "
                                  "also x <= 1 use and optionally a START-UP on such a bundle as the first operation",
                     res_tls=("1.3", "1.2"),
                     res_bounds="returning clients that resume (a raw rustls client per client certificate whose ClientConfig is "
                                "kept for the whole script; every script once with TLS 1.3 and once with TLS 1.2 clients): duplex 3 "
                                "connections x 2 reloads x <= 1 use, real server 3 connections x 1 reload x <= 1 use, without mutual "
                                "TLS; with mutual TLS also 1 rotation of the client CA, each connection presenting the certificate of "
                                "any generation of the CA"),
}
NAMEKINDS = "localhost,dns,ip4,ip6"
NEG_CONTROLS = {"MC_TlsAuth_neg_stale": "Fresh", "MC_TlsAuth_neg_inplace": "Undisturbed",
                "MC_TlsAuth_neg_disconnect": "Undisturbed",
                # a reload that forgets the client CA: seen by the real-server scripts (a client without the right
                # certificate gets in), invisible to scripts whose client always presents the right one (state only)
                "MC_TlsAuth_neg_dropca": "Authenticated", "MC_TlsAuth_neg_dropca_cfg": "ConfigKept",
                # a reload that keeps the client CA it read first although the bundle was replaced in place: a client of
                # the retired CA gets in (real-server rotation scripts), the CA in force is not the one at the path at
                # the reload (state), a client of the new CA would be refused (observable without a connection)
                "MC_TlsAuth_neg_staleca": "Authenticated", "MC_TlsAuth_neg_staleca_cfg": "CAFollows",
                "MC_TlsAuth_neg_staleca_obs": "JudgedAsConfigured",
                # a rotation that is in force before any reload
                "MC_TlsAuth_neg_eagerca": "CAFollows",
                # a server that does not react to reload requests any more once one of them failed
                "MC_TlsAuth_neg_deaf": "Fresh",
                # a client that keeps the roots it read first although its roots file was replaced in place
                "MC_TlsAuth_neg_staleroots": "ClientFollowsRoots",
                # a server that honours the tickets of any earlier configuration (one session cache for the life of the
                # process): a returning client of the retired CA is admitted by resumption after rotation + reload
                # (real-server scripts), a returning client keeps seeing the replaced certificate, the same observable
                # before any connection is made (whatever is offered), and as a statement about the tickets
                "MC_TlsAuth_neg_sharedcache": "Authenticated", "MC_TlsAuth_neg_sharedcache_id": "Fresh",
                "MC_TlsAuth_neg_sharedcache_obs": "JudgedAsConfigured",
                "MC_TlsAuth_neg_sharedcache_cfg": "TicketsOfThisConfiguration",
                # a server that takes a client-CA bundle without a usable certificate for "no client CA": after such a
                # failed reload a client without the certificate gets in (real-server scripts), the CA in force is not the
                # configured one (state), and the same at start-up (duplex scripts that begin with "badstart": whoever
                # connects would be admitted)
                "MC_TlsAuth_neg_openonbadca": "Authenticated", "MC_TlsAuth_neg_openonbadca_cfg": "ConfigKept",
                "MC_TlsAuth_neg_openonbadca_start": "JudgedAsConfigured"}
OUT_RE = re.compile(r'^<<"(CASE|SCRIPT|RSCRIPT|CSCRIPT)", "(.*)">>$')
HEADERS = {"script": "step", "rscript": "rstep", "cscript": "cstep"}
BAD_RE = re.compile(r'^<<"BAD", (\d+), "([^"]*)", "(.*)">>$')
CELL = ("serverCert", "nameMatches", "skipVerify", "clientCert", "serverClientCA")
MAX_REPLAY_ITEMS = 24


def _unq(s):
    return json.loads(s.encode().decode("unicode_escape"))


def enumerate_cases(cfg):
    """The model-checking run: the 72 cells, the reload scripts and the real-server scripts.
    Returns (cells, scripts, rscripts, cscripts, stats)."""
    r = vlib.model_check("MC_TlsAuth", cfg, workers=1, timeout=1500, coverage=False)
    if not r["ok"]:
        log(r["out"][-3000:])
        raise ToolError(f"the reload machine violates {r['violated']} in {cfg} (triage spec/TlsAuth.tla)")
    cells, scripts, rscripts, cscripts = [], [], [], []
    for line in r["out"].split("\n"):
        m = OUT_RE.match(line.strip())
        if m:
            dict(CASE=cells, SCRIPT=scripts, RSCRIPT=rscripts, CSCRIPT=cscripts)[m.group(1)].append(_unq(m.group(2)))
    # vacuity / integrity of the enumeration
    keys = {tuple(c["case"][f] for f in CELL) for c in cells}
    if len(cells) != 72 or len(keys) != 72:
        raise ToolError(f"{len(cells)} CASE lines ({len(keys)} distinct cells) instead of the 72 of the matrix")
    by = collections.Counter("/".join(sorted(c["exp"])) for c in cells)
    want = {"ok": 28, "clientRejects": 20, "serverRejects": 14, "clientRejects/serverRejects": 10}
    if dict(by) != want:
        raise ToolError(f"the decision table changed: {dict(by)} (triage spec/TlsAuth.tla)")
    if not scripts or len({json.dumps(s, sort_keys=True) for s in scripts}) != len(scripts):
        raise ToolError("vacuous or duplicated script enumeration")

    def after_reload(s, op):
        seen = False
        for o in s["ops"]:
            if o["op"] == "reload":
                seen = True
            elif o["op"] == op and seen:
                return True
        return False
    def rotates(s):
        return any(o["op"] == "rotate" for o in s["ops"])
    # (the guards written for the scripts without rotation keep looking at those only, the ones written for the rotation
    # scripts at the scripts without returning clients)
    plain = [s for s in scripts if not rotates(s) and not keeps(s) and not badca(s)]
    rplain = [s for s in rscripts if not rotates(s) and not keeps(s) and not any(o["op"] == "botch" for o in s["ops"])]
    n_car = sum(1 for s in plain if after_reload(s, "connect"))
    n_uar = sum(1 for s in plain if after_reload(s, "use"))
    if n_car == 0 or n_uar == 0:
        raise ToolError("vacuous scripts: no handshake / no use after a reload")
    # the real-server scripts: what they must contain to say anything about client authentication across a reload
    if not rscripts or len({json.dumps(s, sort_keys=True) for s in rscripts}) != len(rscripts):
        raise ToolError("vacuous or duplicated real-server script enumeration")

    def probes_after_reload(s, certs, outcome):
        seen = False
        for o, e in zip(s["ops"], s["exp"]):
            if o["op"] == "reload":
                seen = True
            elif o["op"] == "connect" and seen and o["cc"] in certs and e["outcome"] == [outcome]:
                return True
        return False
    rstats = dict(
        mtls_refused_after_reload=sum(1 for s in rplain if s["mtls"] and probes_after_reload(s, ("none", "otherCA"), "serverRejects")),
        mtls_admitted_after_reload=sum(1 for s in rplain if s["mtls"] and probes_after_reload(s, ("trustedCA",), "ok")),
        plain_admitted_after_reload=sum(1 for s in rplain if not s["mtls"] and probes_after_reload(s, ("none", "otherCA", "trustedCA"), "ok")),
        use_after_reload=sum(1 for s in rplain if after_reload(s, "use")),
        refused_before_reload=sum(1 for s in rplain if s["mtls"] and any(
            o["op"] == "connect" and o["conn"] == 0 for o in s["ops"][:[x["op"] for x in s["ops"]].index("reload")])),
    )
    if not all(rstats.values()):
        raise ToolError(f"vacuous real-server scripts: {rstats}")
    for s in rscripts + [x for x in scripts if rotates(x) or keeps(x) or badca(x)]:
        for o, e in zip(s["ops"], s["exp"]):
            if o["op"] == "connect" and (o["conn"] > 0) != (e["outcome"] == ["ok"]):
                raise ToolError(f"script: slot and expectation disagree in {s}")
    # rotation of the client CA in place: what the scripts must contain to say anything about it
    rot = dict(duplex=rotation_stats([x for x in scripts if not keeps(x)]), real=rotation_stats([x for x in rscripts if not keeps(x)]))
    for k, v in rot.items():
        if not all(v.values()):
            raise ToolError(f"vacuous rotation scripts ({k}): {v}")
    # returning clients that resume
    res = dict(duplex=resume_stats(scripts), real=resume_stats(rscripts))
    for k, v in res.items():
        if not all(v.values()):
            raise ToolError(f"vacuous scripts of returning clients ({k}): {v}")
    # failed reloads
    fstats = failed_reload_stats([x for x in rscripts if not badca(x)])
    if not all(fstats.values()):
        raise ToolError(f"vacuous failed-reload scripts: {fstats}")
    # the client-CA bundle unusable at a reload request / at start-up
    bad = dict(duplex=badca_stats(scripts), real=badca_stats(rscripts))
    for k, v in bad.items():
        if not all(n for name, n in v.items() if k == "duplex" or "badstart" not in name):
            raise ToolError(f"vacuous scripts with an unusable client-CA bundle ({k}): {v}")
    # client side: the roots file replaced in place
    if not cscripts or len({json.dumps(s, sort_keys=True) for s in cscripts}) != len(cscripts):
        raise ToolError("vacuous or duplicated client-side script enumeration")
    cstats = client_stats(cscripts)
    if not all(cstats.values()):
        raise ToolError(f"vacuous client-side scripts: {cstats}")
    return cells, scripts, rscripts, cscripts, dict(distinct=r["distinct"], generated=r["states"], wall=r["wall"], by=by,
                                                    connect_after_reload=n_car, use_after_reload=n_uar, real=rstats,
                                                    rotation=rot, client=cstats, failed_reload=fstats, resume=res, badca=bad)


def keeps(s):
    """a script of returning clients (connects with keep = true)"""
    return any(o.get("keep") for o in s["ops"])


def badca(s):
    """a script in which the client-CA bundle is unusable at a reload request or at start-up"""
    return any(o.get("cause") == "ca" for o in s["ops"])


def badca_stats(scripts):
    """Number of scripts that contain each of the situations the unusable-client-CA part of the property speaks about."""
    st = collections.Counter(scripts_with_unusable_client_ca=0, no_certificate_refused_while_unusable=0,
                             foreign_certificate_refused_while_unusable=0, trusted_certificate_admitted_while_unusable=0,
                             unauthenticated_refused_after_restore_and_reload=0, trusted_admitted_after_restore_and_reload=0,
                             scripts_beginning_with_badstart=0, unauthenticated_refused_after_badstart=0)
    for s in scripts:
        if not badca(s):
            continue
        st["scripts_with_unusable_client_ca"] += 1
        seen, broken, restored, started_bad = set(), False, False, False
        for o, e in zip(s["ops"], s["exp"]):
            if o["op"] in ("botch", "badstart"):
                broken, restored = True, False
                if o["op"] == "badstart":
                    started_bad = True
                    seen.add("scripts_beginning_with_badstart")
            elif o["op"] == "reload" and broken:
                broken, restored, started_bad = False, True, False
            elif o["op"] == "connect":
                ok = e["outcome"] == ["ok"]
                if broken and not ok and o["cc"] == "none":
                    seen.add("no_certificate_refused_while_unusable")
                if broken and not ok and o["cc"] == "otherCA":
                    seen.add("foreign_certificate_refused_while_unusable")
                if broken and ok and o["cc"] == "trustedCA":
                    seen.add("trusted_certificate_admitted_while_unusable")
                if started_bad and not ok:
                    seen.add("unauthenticated_refused_after_badstart")
                if restored and not ok:
                    seen.add("unauthenticated_refused_after_restore_and_reload")
                if restored and ok:
                    seen.add("trusted_admitted_after_restore_and_reload")
                if ok != (o["cc"] == "trustedCA"):
                    raise ToolError(f"script: a botched client CA changes who is admitted in {s}")
        for k in seen:
            st[k] += 1
    return dict(st)


def badca_situations(kind, rec):
    """What a logged line shows of the unusable-client-CA scripts (as executed, nothing is judged here)."""
    if rec.get("op") in ("botch", "badstart") and rec.get("cause") == "ca":
        return [f"{kind}:{rec['op']}_client_ca_{rec.get('junk')}", f"{kind}:{rec['op']}_client_ca_{rec.get('junk')}:res={rec.get('res')}"]
    if rec.get("op") == "connect" and rec.get("ca_broken"):
        return [f"{kind}:connect_{rec.get('cc')}_while_client_ca_unusable"]
    return []


def resume_stats(scripts):
    """Number of scripts of returning clients that contain each of the situations the ticket invariants speak about."""
    st = collections.Counter(scripts_with_returning_clients=0, may_resume_within_generation=0, may_resume_after_reload_with_new_ticket=0,
                             ticket_from_before_reload_must_be_full_handshake=0, retired_client_with_ticket_refused_after_reload=0,
                             same_without_mutual_tls=0, use_after_reload_of_returning_clients_connection=0)
    for s in scripts:
        if not keeps(s):
            continue
        st["scripts_with_returning_clients"] += 1
        seen, reloaded, made_before = set(), False, set()
        made = set()
        for o, e in zip(s["ops"], s["exp"]):
            if o["op"] == "reload":
                reloaded = True
                made_before = set(made)
            elif o["op"] == "connect":
                made.add(o["conn"])
                ok = e["outcome"] == ["ok"]
                if e["mayResume"]:
                    seen.add("may_resume_after_reload_with_new_ticket" if reloaded else "may_resume_within_generation")
                if e["holds"] and not e["mayResume"] and ok:
                    seen.add("ticket_from_before_reload_must_be_full_handshake")
                    if not s["mtls"]:
                        seen.add("same_without_mutual_tls")
                if e["holds"] and not e["mayResume"] and not ok:
                    seen.add("retired_client_with_ticket_refused_after_reload")
                if e["mayResume"] and not e["holds"]:
                    raise ToolError(f"script: resumption allowed without a ticket in {s}")
            elif o["op"] == "use" and reloaded and o["conn"] in made_before:
                seen.add("use_after_reload_of_returning_clients_connection")
        for k in seen:
            st[k] += 1
    return dict(st)


def failed_reload_stats(rscripts):
    st = collections.Counter(scripts_with_failed_reload=0, connect_between_failed_reload_and_reload=0, reload_after_failed_reload=0,
                             connect_after_failed_reload_and_reload=0, use_after_failed_reload_of_earlier_connection=0)
    for s in rscripts:
        if not any(o["op"] == "botch" for o in s["ops"]):
            continue
        st["scripts_with_failed_reload"] += 1
        seen, botched, reloaded_since, made = set(), 0, False, set()
        for o in s["ops"]:
            if o["op"] == "botch":
                botched += 1
                reloaded_since = False
                made_before = set(made)
            elif o["op"] == "reload" and botched:
                reloaded_since = True
                seen.add("reload_after_failed_reload")
            elif o["op"] == "connect":
                made.add(o["conn"])
                if botched:
                    seen.add("connect_after_failed_reload_and_reload" if reloaded_since else "connect_between_failed_reload_and_reload")
            elif o["op"] == "use" and botched and o["conn"] in made_before:
                seen.add("use_after_failed_reload_of_earlier_connection")
        for k in seen:
            st[k] += 1
    return dict(st)


def gen_of(name):
    """generation of the CA a certificate named "trustedCA" / "gen<g>" was issued under (None: no such certificate)"""
    if name == "trustedCA":
        return 0
    m = re.fullmatch(r"gen(\d+)", name or "")
    return int(m.group(1)) if m else None


def gen_name(g):
    return "trustedCA" if g == 0 else f"gen{g}"


def walk_rotation(s):
    """(op, expectation, generation at the path, generation at the path at the last reload, connections made
    when the last reload happened) for every operation of a script"""
    at_path = loaded = 0
    for o, e in zip(s["ops"], s["exp"]):
        yield o, e, at_path, loaded
        if o["op"] == "rotate":
            at_path += 1
        elif o["op"] == "reload":
            loaded = at_path


def rotation_stats(scripts):
    """Number of scripts that contain each of the situations the rotation invariants speak about."""
    st = collections.Counter(scripts_with_rotation=0, retired_client_refused_after_reload=0, new_client_admitted_after_reload=0,
                             new_client_refused_before_reload=0, old_client_admitted_before_reload=0,
                             no_certificate_refused_after_reload=0, use_after_rotation_and_reload_of_earlier_connection=0)
    for s in scripts:
        if not any(o["op"] == "rotate" for o in s["ops"]):
            continue
        st["scripts_with_rotation"] += 1
        seen = set()
        born = {}   # slot -> generation loaded when the connection was made
        for o, e, at_path, loaded in walk_rotation(s):
            if o["op"] == "connect":
                g = gen_of(o.get("cc"))
                ok = e["outcome"] == ["ok"]
                if o["conn"]:
                    born[o["conn"]] = loaded
                if loaded > 0 and g is not None and g < loaded and not ok:
                    seen.add("retired_client_refused_after_reload")
                if loaded > 0 and g == loaded and ok:
                    seen.add("new_client_admitted_after_reload")
                if loaded > 0 and o.get("cc") == "none" and not ok:
                    seen.add("no_certificate_refused_after_reload")
                if at_path > loaded and g == at_path and not ok:
                    seen.add("new_client_refused_before_reload")
                if at_path > loaded and g == loaded and ok:
                    seen.add("old_client_admitted_before_reload")
            elif o["op"] == "use" and born.get(o["conn"], loaded) < loaded:
                seen.add("use_after_rotation_and_reload_of_earlier_connection")
        for k in seen:
            st[k] += 1
    return dict(st)


def rotation_situations(kind, rec, served):
    """Which of the situations the rotation invariants speak about a logged connect line is (whatever was observed,
    except that the client-side ones are classified by the outcome too)."""
    if rec.get("op") != "connect":
        return []
    g, at_path, loaded = gen_of(rec.get("cc")), rec.get("ca_gen", 0), rec.get("ca_loaded", 0)
    out = []
    if g is not None and loaded > 0 and g < loaded:
        out.append(f"{kind}:retired_client_after_reload")
    if g is not None and loaded > 0 and g == loaded:
        out.append(f"{kind}:new_client_after_reload")
    if g is not None and at_path > loaded and g == at_path:
        out.append(f"{kind}:new_client_before_reload")
    if g is not None and at_path > loaded and g == loaded:
        out.append(f"{kind}:old_client_before_reload")
    return out


def resume_situations(kind, rec, served):
    """What a logged connect line of a returning client shows of resumption (as observed, nothing is judged here)."""
    if rec.get("op") != "connect" or not rec.get("keep"):
        return []
    v = f"{kind}:tls{rec.get('tls')}:"
    out = [v + "connect_of_returning_client"]
    if rec.get("stored"):
        out.append(v + "tickets_stored")
    if rec.get("resumed"):
        out.append(v + "resumed")
    if rec.get("offered") and not rec.get("resumed"):
        out.append(v + ("offered_but_full_handshake_admitted" if served else "offered_but_refused"))
    return out


def client_stats(cscripts):
    st = collections.Counter(retired_roots_server_refused=0, new_roots_server_accepted=0, server_accepted_before_rotation=0,
                             other_ca_server_refused_after_rotation=0)
    for s in cscripts:
        roots, seen = 0, set()
        for o, e in zip(s["ops"], s["exp"]):
            if o["op"] == "rotate":
                roots += 1
                continue
            g, ok = gen_of(o["srv"]), e["outcome"] == ["ok"]
            if roots > 0 and g is not None and g < roots and not ok:
                seen.add("retired_roots_server_refused")
            if roots > 0 and g == roots and ok:
                seen.add("new_roots_server_accepted")
            if roots == 0 and g == 0 and ok:
                seen.add("server_accepted_before_rotation")
            if roots > 0 and o["srv"] == "otherCA" and not ok:
                seen.add("other_ca_server_refused_after_rotation")
        for k in seen:
            st[k] += 1
    return dict(st)


def negative_controls():
    """Wrong reload implementations must be caught by the invariants (so the invariants are not vacuous)."""
    res = {}
    with concurrent.futures.ThreadPoolExecutor(max_workers=4) as ex:
        runs = {cfg: ex.submit(vlib.model_check, "MC_TlsAuth", cfg, workers=1, timeout=600, coverage=False, xmx="1g")
                for cfg in NEG_CONTROLS}
        for cfg, inv in NEG_CONTROLS.items():
            r = runs[cfg].result()
            if r["violated"] != inv:
                raise ToolError(f"negative control {cfg}: expected {inv} violated, TLC reports {r['violated']}")
            res[cfg] = dict(violated=inv, states=r["states"])
    return res


def run_harness(bin_path, cases, out, seed, npki, algs, scratch, quiet=False):
    env = {k: v for k, v in os.environ.items() if k != "SSLKEYLOGFILE"}
    t = time.time()
    rc, o = vlib.run([bin_path, cases, out, str(seed), str(npki), algs, NAMEKINDS, scratch], timeout=3000, env=env)
    if rc != 0:
        log(o[-3000:])
        raise ToolError("tls_matrix failed on " + cases)
    shutil.rmtree(scratch, ignore_errors=True)
    if not quiet:
        log(f"[run] tls_matrix {os.path.basename(cases)} x {npki} PKI set(s): {sum(1 for _ in open(out))} lines ({time.time() - t:.1f}s)")


def run_split(bin_path, items, work, out, seed, nsets, procs, algs):
    """Duplex and client-side scripts, dealt out round robin to `procs` harness processes running side by side (the
    first with the seed given, the others with seeds of their own: other PKI parameters); logs concatenated in a
    fixed order."""
    t = time.time()
    procs = max(1, min(procs, len(items)))
    parts = []
    for k in range(procs):
        cpath = os.path.join(work, f"scripts_{k}.ndjson")
        with open(cpath, "w") as f:
            for i, it in enumerate(items):
                if i % procs == k:
                    f.write(json.dumps(it, separators=(",", ":")) + "\n")
        parts.append((cpath, os.path.join(work, f"scripts_log_{k}.ndjson"), int(seed) + 15485863 * k, os.path.join(work, f"pki_s{k}")))
    with concurrent.futures.ThreadPoolExecutor(max_workers=procs) as ex:
        futs = [ex.submit(run_harness, bin_path, c, o, sd, nsets, algs, sc, True) for c, o, sd, sc in parts]
        for f in futs:
            f.result()  # a ToolError of any process is the check's
    with open(out, "w") as f:
        for _, o, _, _ in parts:
            f.write(open(o).read())
    log(f"[run] tls_matrix duplex and client-side scripts: {len(items)} scripts x {nsets} PKI set(s) in {procs} process(es): "
        f"{sum(1 for _ in open(out))} lines ({time.time() - t:.1f}s)")


def with_tls(scripts, versions):
    """The scripts as executed: one of returning clients once per TLS version (the protocol version its clients speak is a
    parameter of the execution, like the PKI set), any other once."""
    out = []
    for s in scripts:
        if keeps(s):
            out += [dict(s, tls=v) for v in versions]
        else:
            out.append(s)
    return out


def script_item(ev, i, s):
    it = dict(ev=ev, id=i, mtls=s["mtls"], ops=s["ops"])
    if s.get("tls"):
        it["tls"] = s["tls"]
    return it


def run_real(bin_path, rscripts, work, out, seed, procs, algs):
    """The real-server scripts, dealt out round robin to `procs` harness processes running side by side (each with
    its own PKI set, chosen by its own seed); the logs are concatenated in a fixed order."""
    t = time.time()
    procs = max(1, min(procs, len(rscripts)))
    parts = []
    for k in range(procs):
        cpath = os.path.join(work, f"rscripts_{k}.ndjson")
        with open(cpath, "w") as f:
            for i, s in enumerate(rscripts, 1):
                if (i - 1) % procs == k:
                    f.write(json.dumps(script_item("rscript", i, s), separators=(",", ":")) + "\n")
        parts.append((cpath, os.path.join(work, f"real_log_{k}.ndjson"), int(seed) + 104729 * (k + 1), os.path.join(work, f"pki_r{k}")))
    with concurrent.futures.ThreadPoolExecutor(max_workers=procs) as ex:
        futs = [ex.submit(run_harness, bin_path, c, o, sd, 1, algs, sc, True) for c, o, sd, sc in parts]
        for f in futs:
            f.result()  # a ToolError of any process is the check's
    with open(out, "w") as f:
        for _, o, _, _ in parts:
            f.write(open(o).read())
    want = sum(1 + len(s["ops"]) for s in rscripts)
    got = sum(1 for _ in open(out))
    if got != want:
        raise ToolError(f"tls_matrix logged {got} lines for {want} real-server script lines")
    log(f"[run] tls_matrix real server (server_main + SIGUSR1): {len(rscripts)} scripts in {procs} processes: {got} lines ({time.time() - t:.1f}s)")


def validate(path):
    """One TLC run over a log. Returns (n_lines, bad) with bad = [(line_no, sig, expected)]."""
    r = vlib.validate_once("TlsTrace", "TlsTrace_collect", path, timeout=1500, xmx="8g")
    if r["accepted"]:
        m = re.search(r'<<"ACCEPTED lines", (\d+)>>', r["out"])
        return (int(m.group(1)) if m else 0), [], r
    bad = []
    for line in r["out"].split("\n"):
        m = BAD_RE.match(line.strip())
        if m:
            try:
                exp = _unq(m.group(3))
            except Exception:
                exp = None
            bad.append((int(m.group(1)), m.group(2), exp))
    m = re.search(r'<<"REJECTED at line", (\d+), "of", (\d+)>>', r["out"])
    total = int(m.group(2)) if m else 0
    mc = re.search(r'<<"BADCOUNT", (\d+)>>', r["out"])
    if not bad or not mc or int(mc.group(1)) != len(bad):
        log(r["out"][-3000:])
        raise ToolError("trace validation ended without a verdict for " + path)
    return total, bad, r


def cell_of(rec):
    return "/".join(str(rec[f]) for f in CELL)


def resumption_text(rec):
    if not rec.get("keep"):
        return ""
    return (f" [returning TLS {rec.get('tls')} client (ClientConfig kept since its first connect of the script): "
            f"{'offered a ticket' if rec.get('offered') else 'had no ticket to offer'}, handshake kind={rec.get('hs_kind') or 'none'}, "
            f"{rec.get('stored')} ticket(s) stored]")


def describe(rec, exp):
    if rec.get("ev") == "case":
        return (f"[{rec['client']} {rec['alg']} {rec['namekind']}] serverCert={rec['serverCert']} nameMatches={rec['nameMatches']} "
                f"skipVerify={rec['skipVerify']} clientCert={rec['clientCert']} serverClientCA={rec['serverClientCA']} -> "
                f"client hs={rec['client_hs']} rt={rec['client_rt']} got={rec['cli_data']!r} ({rec['client_err'][:120]}); "
                f"server hs={rec['server_hs']} rt={rec['server_rt']} got={rec['srv_data']!r} ({rec['server_err'][:120]}); "
                f"client saw cn={rec['seen_cn']!r}, server saw client cert={rec['srv_saw_client_cert']}"
                f"   property: {json.dumps(exp, sort_keys=True)}")
    if rec.get("ev") == "step":
        ca = f" [client CA bundle: generation {rec.get('ca_gen')} at the path, {rec.get('ca_loaded')} at the last reload]" if rec.get("ca_gen") else ""
        if rec.get("ca_broken") and rec["op"] == "connect":
            ca += " [the client CA bundle at the configured path was UNUSABLE when the server was last asked to read it]"
        if rec["op"] in ("reload", "rotate"):
            got = f"res={rec.get('res')} to={rec.get('to')} {rec.get('err', '')[:160]}"
        elif rec["op"] in ("botch", "badstart"):
            got = (f"{'reload_tls_identity' if rec['op'] == 'botch' else 'make_tls_identity'} called while the client CA bundle {rec.get('path')} "
                   f"held {rec.get('junk')} content: res={rec.get('res')} {rec.get('err', '')[:160]}")
        elif rec["op"] == "connect":
            got = (f"presenting clientCert={rec.get('cc')}{resumption_text(rec)}{ca}: client hs={rec.get('client_hs')} rt={rec.get('client_rt')} server hs={rec.get('server_hs')} rt={rec.get('server_rt')} "
                   f"client saw cn={rec.get('seen_cn')!r} serial={rec.get('seen_serial')} mtls={rec.get('mtls')} server saw client cert={rec.get('srv_saw_client_cert')} "
                   f"{rec.get('srv_saw_client_cn')!r} ({str(rec.get('client_err'))[:100]} / {str(rec.get('server_err'))[:100]})")
        else:
            got = (f"client hs={rec.get('client_hs')} rt={rec.get('client_rt')} server hs={rec.get('server_hs')} rt={rec.get('server_rt')} "
                   f"client saw cn={rec.get('seen_cn')!r} serial={rec.get('seen_serial')} mtls={rec.get('mtls')} server saw client cert={rec.get('srv_saw_client_cert')} ({str(rec.get('client_err'))[:100]} / {str(rec.get('server_err'))[:100]})")
        return f"script {rec['id']} step {rec['i']} {rec['op']}({rec['conn']}) -> {got}   property: {json.dumps(exp, sort_keys=True)}"
    if rec.get("ev") == "rstep":
        seen = f"client saw cn={rec.get('seen_cn')!r} serial={rec.get('seen_serial')}"
        ca = f" [client CA bundle: generation {rec.get('ca_gen')} at the path, {rec.get('ca_loaded')} at the last reload]" if rec.get("ca_gen") else ""
        if rec.get("ca_broken") and rec["op"] == "connect":
            ca += " [the client CA bundle at the configured path was UNUSABLE when SIGUSR1 was last raised]"
        if rec["op"] == "reload":
            what = f"reload (SIGUSR1) to identity {rec.get('to')}{ca}"
            got = (f"res={rec.get('res')} ({rec.get('botched', 0)} failed reload(s) before) after {rec.get('polls')} probe handshakes presenting clientCert={rec.get('cc')}, last probe: "
                   f"hs={rec.get('client_hs')} rt={rec.get('client_rt')} http={rec.get('http_status')} {seen} ({str(rec.get('client_err'))[:100]})")
        elif rec["op"] == "rotate":
            what = f"rotate: client CA bundle {rec.get('path')} overwritten in place with generation {rec.get('to')}"
            got = f"res={rec.get('res')}"
        elif rec["op"] == "botch":
            what = (f"failed reload no. {rec.get('n')}: " + (f"client CA bundle (--tls-ca) overwritten in place with {rec.get('junk')} content"
                                                               if rec.get("cause") == "ca" else "key file made unusable") + ", SIGUSR1")
            got = f"res={rec.get('res')} server_main running={rec.get('server_running')}"
        else:
            what = (f"connect presenting clientCert={rec.get('cc')}{resumption_text(rec)} (slot {rec['conn']}){ca}" if rec["op"] == "connect" else f"use({rec['conn']})")
            got = (f"client hs={rec.get('client_hs')} rt={rec.get('client_rt')} http={rec.get('http_status')} {seen} "
                   f"({str(rec.get('client_err'))[:100]})")
        return (f"real-server script {rec['id']} (mtls={rec.get('mtls')}, {rec.get('reloads')} reload(s) so far) step {rec['i']} {what} -> {got}"
                f"   property: {json.dumps(exp, sort_keys=True)}")
    if rec.get("ev") == "cstep":
        if rec["op"] == "rotate":
            got = f"roots file {rec.get('path')} overwritten in place with generation {rec.get('to')}: res={rec.get('res')}"
        else:
            got = (f"connect (roots file {rec.get('path')} holds generation {rec.get('roots')}) to a server with a certificate issued by {rec.get('srv')}: "
                   f"client hs={rec.get('client_hs')} rt={rec.get('client_rt')} got={rec.get('cli_data')!r} server hs={rec.get('server_hs')} "
                   f"client saw cn={rec.get('seen_cn')!r} issuer={rec.get('seen_issuer')!r} ({str(rec.get('client_err'))[:100]} / {str(rec.get('server_err'))[:100]})")
        return f"client-side script {rec['id']} step {rec['i']} {got}   property: {json.dumps(exp, sort_keys=True)}"
    return json.dumps(rec, sort_keys=True)[:300]


def item_lines(lines, ln):
    """The input item (replayable) a logged line belongs to: the case line itself, or the whole script."""
    rec = json.loads(lines[ln - 1])
    if rec["ev"] == "case":
        return [lines[ln - 1]]
    i = ln - 1
    while i > 0 and json.loads(lines[i])["ev"] not in HEADERS:
        i -= 1
    step = HEADERS.get(json.loads(lines[i])["ev"])
    j = i + 1
    while j < len(lines) and json.loads(lines[j])["ev"] == step:
        j += 1
    return lines[i:j]


def self_test(work, logs, strict=True):
    """The binding of the script lines is real: hand-made corruptions of scripts ACCEPTED in this very run must be
    rejected by TLC, each at the corrupted line and with the signature of the clause it breaks.
    logs: [(path, set of rejected line numbers)] (the real-server log, the log of the duplex and client-side scripts).
    Returns {corruption: signature}."""
    scripts = []      # accepted scripts as lists of records (header first)
    for path, badset in logs:
        cur = None
        for i, text in enumerate(open(path), 1):
            rec = json.loads(text)
            if rec["ev"] in HEADERS:
                cur = [rec]
                scripts.append(cur)
            elif cur is not None:
                cur.append(rec)
            if i in badset and cur is not None:
                cur.append(None)
    scripts = [sc for sc in scripts if None not in sc]

    def proto(r):
        return "Some(TLSv1_3)" if r.get("tls", "1.3") == "1.3" else "Some(TLSv1_2)"

    def reached(r):
        return dict(r, http_status=404, client_hs="ok", client_rt="ok", cli_data="verif-c17-not-found", client_err="", proto=proto(r))

    def refused(r):
        return dict(r, http_status=0, client_rt="alert", cli_data="", client_err="AlertReceived(CertificateRequired)")

    def real(h, r, op="connect"):
        return h["ev"] == "rscript" and r["op"] == op

    def norot(r):
        return r.get("ca_gen", 0) == 0

    def gen(r):
        return gen_of(r.get("cc"))

    # duplex / client-side lines: both ends are logged
    def both_ok(r, **kw):
        return dict(r, client_hs="ok", server_hs="ok", client_rt="ok", server_rt="ok", cli_data="ping", srv_data="ping",
                    client_err="", server_err="", proto=proto(r), **kw)

    def client_refuses(r):
        return dict(r, client_hs="bad_cert", client_rt="skipped", server_hs="alert", server_rt="skipped", cli_data="", srv_data="",
                    client_err="InvalidCertificate(UnknownIssuer)", seen_cn="", seen_serial=-1, seen_issuer="")
    def stale_ticket_full(r):
        """a returning client offered a ticket and went through a full handshake that was served (on an accepted line: the
        ticket was one from before a reload)"""
        return r["op"] == "connect" and r.get("keep") and r.get("offered") and not r.get("resumed") and r["seen_serial"] > 100

    def unused(h, r):
        """the script does not use the connection again (a corrupted identity would make TLC reject the later use as well)"""
        return not any(o["op"] == "use" and o["conn"] == r["conn"] for o in h["ops"])

    def older(r, **kw):
        return dict(r, seen_cn=f"srv-v{r['seen_serial'] - 101}", seen_serial=r["seen_serial"] - 1, **kw)
    # name -> (signature TLC must give, corruption(header, record) -> corrupted record | falsy)
    wanted = {
        # ---- returning clients that resume, real server
        # a returning client of the RETIRED CA that holds a ticket from before the reload gets in by resumption
        "real:resumption_admits_retired_client": ("resumption_bypasses_reloaded_client_ca", lambda h, r: real(h, r) and r.get("keep") and r.get("offered")
                                                  and r["ca_loaded"] > 0 and gen(r) is not None and gen(r) < r["ca_loaded"] and not r["http_status"]
                                                  and dict(reached(r), resumed=True, hs_kind="resumed", stored=1,
                                                           seen_cn=f"srv-v{r['reloads'] - 1}", seen_serial=100 + r["reloads"] - 1, seen_issuer="trusted-ca")),
        # a returning client resumes across a reload and keeps seeing the replaced certificate
        "real:resumption_shows_retired_identity": ("resumption_shows_retired_identity", lambda h, r: real(h, r) and stale_ticket_full(r) and r["http_status"]
                                                   and unused(h, r) and older(r, resumed=True, hs_kind="resumed")),
        # the ticket of a replaced configuration is honoured (whatever else the client reports)
        "real:ticket_of_retired_configuration_honoured": ("ticket_of_retired_configuration_honoured", lambda h, r: real(h, r) and stale_ticket_full(r)
                                                          and r["http_status"] and dict(r, resumed=True, hs_kind="resumed")),
        # the harness's bookkeeping is bound: a client that keeps nothing cannot have resumed
        "real:resumed_without_offer": ("other:malformed_line", lambda h, r: real(h, r) and not r.get("keep") and r["http_status"]
                                       and dict(r, resumed=True, hs_kind="resumed")),
        # ---- the same on the duplex (both ends logged)
        "duplex:resumption_admits_retired_client": ("resumption_bypasses_reloaded_client_ca", lambda h, r: h["ev"] == "script" and r["op"] == "connect"
                                                    and r.get("keep") and r.get("offered") and r["ca_loaded"] > 0 and gen(r) is not None
                                                    and gen(r) < r["ca_loaded"] and r["cli_data"] == "" and r["seen_serial"] > 100
                                                    and older(both_ok(r, srv_saw_client_cert=True, srv_saw_client_cn="cli-" + r["cc"]),
                                                              resumed=True, srv_resumed=True, hs_kind="resumed", srv_hs_kind="resumed", stored=1)),
        "duplex:resumption_shows_retired_identity": ("resumption_shows_retired_identity", lambda h, r: h["ev"] == "script" and stale_ticket_full(r)
                                                     and r["cli_data"] == "ping" and unused(h, r) and older(r, resumed=True, srv_resumed=True, hs_kind="resumed", srv_hs_kind="resumed")),
        "duplex:ends_disagree_on_resumption": ("ends_disagree_on_resumption", lambda h, r: h["ev"] == "script" and r["op"] == "connect" and r.get("resumed")
                                               and r["cli_data"] == "ping" and dict(r, srv_resumed=False, srv_hs_kind="full")),
        # ---- scripts without rotation, real server
        # after a reload the mutual-TLS server serves a client without a certificate under the configured CA
        "reload_drops_client_auth": ("reload_drops_client_auth", lambda h, r: real(h, r) and h["mtls"] and norot(r) and r["reloads"] > 0
                                     and not r.get("ca_broken") and r["cc"] in ("none", "otherCA") and reached(r)),
        "server_accepts_unauthenticated_client": ("server_accepts_unauthenticated_client", lambda h, r: real(h, r) and h["mtls"] and norot(r)
                                                  and r["reloads"] == 0 and not r.get("ca_broken") and r["cc"] in ("none", "otherCA") and reached(r)),
        "handshake_fails_after_reload": ("handshake_fails_after_reload", lambda h, r: real(h, r) and norot(r) and r["reloads"] > 0
                                         and not r.get("ca_broken") and r["http_status"] and refused(r)),
        # ---- the client-CA bundle unusable at a reload request / at start-up
        # after a reload request that found the bundle unusable, a client without the certificate is served
        "real:unusable_ca_admits_unauthenticated": ("unusable_client_ca_disables_client_auth", lambda h, r: real(h, r) and r.get("ca_broken")
                                                    and r["cc"] in ("none", "otherCA") and not r["http_status"] and reached(r)),
        # ... the client with the right certificate is locked out
        "real:unusable_ca_locks_out_trusted": ("unusable_client_ca_locks_out_clients", lambda h, r: real(h, r) and r.get("ca_broken")
                                               and r["cc"] == "trustedCA" and r["http_status"] and refused(r)),
        "duplex:unusable_ca_admits_anonymous": ("unusable_client_ca_disables_client_auth", lambda h, r: h["ev"] == "script" and r["op"] == "connect"
                                                and r.get("ca_broken") and r.get("botched") and r["cc"] == "none" and r["cli_data"] == ""
                                                and both_ok(r, srv_saw_client_cert=False, srv_saw_client_cn="")),
        # a server started on an unusable bundle serves a client of a foreign CA
        "duplex:badstart_admits_foreign": ("unusable_client_ca_disables_client_auth", lambda h, r: h["ev"] == "script" and r["op"] == "connect"
                                           and r.get("i") == 2 and h["ops"][0]["op"] == "badstart" and r["cc"] == "otherCA" and r["cli_data"] == ""
                                           and both_ok(r, srv_saw_client_cert=False, srv_saw_client_cn="")),
        # the harness's bookkeeping is bound: the failed reloads are counted
        "duplex:botch_miscounted": ("other:malformed_line", lambda h, r: h["ev"] == "script" and r["op"] == "botch" and dict(r, n=r["n"] + 1)),
        "server_demands_client_cert_without_ca": ("server_demands_client_cert_without_ca", lambda h, r: real(h, r) and not h["mtls"]
                                                  and r["reloads"] == 0 and r["cc"] == "none" and refused(r)),
        "new_handshake_sees_stale_identity": ("new_handshake_sees_stale_identity", lambda h, r: real(h, r) and r["reloads"] > 0 and r["conn"] == 0
                                              and r["client_hs"] == "ok" and dict(r, seen_cn="srv-v0", seen_serial=100)),
        "reload_not_effective": ("reload_not_effective", lambda h, r: real(h, r, "reload") and not r.get("botched")
                                 and dict(r, res="stale", seen_cn=f"srv-v{r['to'] - 1}", seen_serial=100 + r["to"] - 1)),
        "reload_disturbs_established_connection": ("reload_disturbs_established_connection", lambda h, r: real(h, r, "use") and r["reloads"] > 0
                                                   and dict(r, http_status=0, client_rt="eof", cli_data="")),
        "established_connection_changes_identity": ("established_connection_changes_identity", lambda h, r: real(h, r, "use") and r["reloads"] > 0
                                                    and r["seen_serial"] == 100 and dict(r, seen_cn="srv-v1", seen_serial=101)),
        # ---- rotation of the client CA in place, real server
        # after rotation + reload a client of the RETIRED generation is served
        "real:retired_client_admitted": ("reload_keeps_retired_client_ca", lambda h, r: real(h, r) and r["ca_loaded"] > 0 and gen(r) is not None
                                         and gen(r) < r["ca_loaded"] and not r["http_status"] and reached(r)),
        # after rotation + reload a client of the generation configured at the reload is refused
        "real:new_client_refused": ("reload_rejects_new_client_ca", lambda h, r: real(h, r) and r["ca_loaded"] > 0 and gen(r) == r["ca_loaded"]
                                    and r["http_status"] and refused(r)),
        # the probe handshake of the reload itself (it presents the certificate of the generation at the path) is refused
        "real:reload_probe_refused": ("reload_rejects_new_client_ca", lambda h, r: real(h, r, "reload") and r["ca_gen"] > 0 and r["http_status"]
                                      and refused(r)),
        # between rotation and reload the new generation is in force already (a client of it is served; one of the old
        # generation is refused)
        "real:new_client_admitted_before_reload": ("ca_rotation_effective_before_reload", lambda h, r: real(h, r) and r["ca_gen"] > r["ca_loaded"]
                                                   and gen(r) == r["ca_gen"] and not r["http_status"] and reached(r)),
        "real:old_client_refused_before_reload": ("ca_rotation_effective_before_reload", lambda h, r: real(h, r) and r["ca_gen"] > r["ca_loaded"] == 0
                                                  and gen(r) == 0 and r["http_status"] and refused(r)),
        # an established connection dies with the rotation + reload
        "real:rotation_disturbs_established_connection": ("reload_disturbs_established_connection", lambda h, r: real(h, r, "use") and r["ca_loaded"] > 0
                                                          and dict(r, http_status=0, client_rt="eof", cli_data="")),
        # ---- failed reloads: the reload after a failed one has no effect; a connection made after the failed reload fails
        "real:reload_dead_after_failed_reload": ("reload_dead_after_failed_reload", lambda h, r: real(h, r, "reload") and r.get("botched")
                                                 and dict(r, res="stale", seen_cn=f"srv-v{r['to'] - 1}", seen_serial=100 + r["to"] - 1)),
        "real:failed_reload_disturbs_service": ("server_demands_client_cert_without_ca", lambda h, r: real(h, r) and not h["mtls"] and r.get("botched")
                                                and r["reloads"] == 0 and r["http_status"] and refused(r)),
        # ---- the same on the duplex (both ends logged)
        "duplex:retired_client_admitted": ("reload_keeps_retired_client_ca", lambda h, r: h["ev"] == "script" and r["op"] == "connect"
                                           and r["ca_loaded"] > 0 and gen(r) is not None and gen(r) < r["ca_loaded"] and r["cli_data"] == ""
                                           and both_ok(r, srv_saw_client_cert=True, srv_saw_client_cn="cli-" + r["cc"])),
        "duplex:new_client_refused": ("reload_rejects_new_client_ca", lambda h, r: h["ev"] == "script" and r["op"] == "connect"
                                      and r["ca_loaded"] > 0 and gen(r) == r["ca_loaded"] and r["cli_data"] == "ping"
                                      and dict(r, server_hs="bad_cert", server_rt="skipped", client_rt="alert", cli_data="", srv_data="",
                                               srv_saw_client_cert=False, srv_saw_client_cn="")),
        "duplex:new_client_admitted_before_reload": ("ca_rotation_effective_before_reload", lambda h, r: h["ev"] == "script" and r["op"] == "connect"
                                                     and r["ca_gen"] > r["ca_loaded"] and gen(r) == r["ca_gen"] and r["cli_data"] == ""
                                                     and both_ok(r, srv_saw_client_cert=True, srv_saw_client_cn="cli-" + r["cc"])),
        # the server authenticated ANOTHER certificate than the one presented
        "duplex:another_client_cert": ("server_saw_another_client_cert", lambda h, r: h["ev"] == "script" and r["op"] == "connect" and h["mtls"]
                                       and r["cli_data"] == "ping" and dict(r, srv_saw_client_cn="cli-otherCA")),
        # ---- client side: the roots file replaced in place
        # a server under the RETIRED roots is still accepted
        "client:stale_roots": ("client_uses_stale_roots", lambda h, r: h["ev"] == "cscript" and r["op"] == "connect" and r["roots"] > 0
                               and gen_of(r["srv"]) is not None and gen_of(r["srv"]) < r["roots"] and r["cli_data"] == ""
                               and both_ok(r, seen_cn=f"srv-{r['srv']}-match", seen_serial=11,
                                           seen_issuer="trusted-ca" if r["srv"] == "trustedCA" else "trusted-ca-" + r["srv"])),
        # a server under the NEW roots is refused
        "client:new_roots_ignored": ("client_ignores_replaced_roots", lambda h, r: h["ev"] == "cscript" and r["op"] == "connect" and r["roots"] > 0
                                     and gen_of(r["srv"]) == r["roots"] and r["cli_data"] == "ping" and client_refuses(r)),
        # the harness's bookkeeping of the generation at the path is bound too
        "client:wrong_generation_logged": ("other:malformed_line", lambda h, r: h["ev"] == "cscript" and r["op"] == "connect" and r["roots"] > 0
                                           and dict(r, roots=r["roots"] - 1)),
    }
    out, expect = [], {}
    for name, (sig, f) in wanted.items():
        for sc in scripts:
            hit = next(((k, m) for k, r in enumerate(sc[1:], 1) for m in [f(sc[0], r)] if m), None)
            if hit:
                expect[len(out) + hit[0] + 1] = (name, sig)
                out += [hit[1] if k == hit[0] else r for k, r in enumerate(sc)]
                break
    missing = set(wanted) - {n for n, _ in expect.values()}
    # (when lines of this run were rejected, the material for a corruption may be missing: that is the finding's business)
    if missing and strict:
        raise ToolError(f"self-test: corruptions {sorted(missing)} could not be derived from the accepted scripts of this run")
    if not expect:
        return {}
    spath = os.path.join(work, "selftest.ndjson")
    with open(spath, "w") as fh:
        for r in out:
            fh.write(json.dumps(r, separators=(",", ":")) + "\n")
    _, bad, _ = validate(spath)
    got = {ln: sig for ln, sig, _ in bad}
    for ln, (name, sig) in expect.items():
        if got.get(ln) != sig:
            raise ToolError(f"self-test: the corruption `{name}` of an accepted line (line {ln} of {spath}) was "
                            f"{'accepted' if ln not in got else 'rejected as ' + got[ln]} by TLC instead of being rejected as {sig}")
    extra = sorted(set(got) - set(expect))
    if extra and strict:
        raise ToolError(f"self-test: lines {extra[:5]} of {spath} were rejected although only the corrupted lines differ from accepted ones")
    return {name: got[ln] for ln, (name, sig) in expect.items()}


def check(prop, tier, seed, replay):
    if tier not in TIERS:
        raise ToolError(f"unknown tier {tier}")
    T = TIERS[tier]
    t0 = time.time()
    bin_path = os.path.join(vlib.build_harness(["tls_matrix"], crate=vlib.HARNESS_APP), "tls_matrix")
    work = tempfile.mkdtemp(prefix=f"{prop}_", dir=vlib.WORK)
    try:
        logs = []  # (name, path)
        mc = neg = None
        n_cases = n_scripts = n_rscripts = n_cscripts = 0
        st = real_run = None
        badsets = {}
        if replay:
            out = os.path.join(work, "replay_log.ndjson")
            run_harness(bin_path, os.path.abspath(replay), out, seed, 1, T["algs"], os.path.join(work, "pki_r"))
            logs.append(("replay", out))
        else:
            # 1. model checking: invariants of the reload machine, enumeration of cells and scripts
            cells, scripts, rscripts, cscripts, mc = enumerate_cases(T["cfg"])
            log(f"[mc] {T['cfg']}: {mc['distinct']} distinct states, {mc['generated']} generated, {mc['wall']:.1f}s: "
                f"72 cells ({dict(mc['by'])}), {len(scripts)} complete scripts ({T['bounds']}), {len(rscripts)} complete "
                f"real-server scripts ({T['real_bounds']}), of which {mc['rotation']['duplex']['scripts_with_rotation']} / "
                f"{mc['rotation']['real']['scripts_with_rotation']} with {T['rot_bounds']}, {mc['failed_reload']['scripts_with_failed_reload']} "
                f"with {T['fail_bounds']}, {mc['resume']['duplex']['scripts_with_returning_clients']} / "
                f"{mc['resume']['real']['scripts_with_returning_clients']} with {T['res_bounds']}, {mc['badca']['duplex']['scripts_with_unusable_client_ca']} / "
                f"{mc['badca']['real']['scripts_with_unusable_client_ca']} with {T['badca_bounds']}; {len(cscripts)} client-side scripts "
                f"({T['cli_bounds']}); Undisturbed, Fresh, ConfigKept, CAFollows, JudgedAsConfigured, TicketsOfThisConfiguration, Authenticated, "
                f"ClientFollowsRoots hold")
            neg = negative_controls()
            log("[mc] negative controls (wrong reload implementations) caught: " +
                ", ".join(f"{k.split('_neg_')[1]}->{v['violated']}" for k, v in neg.items()))
            # 2. the real code: the matrix with the application's client (TLS 1.3) and, for the cells without
            #    skip-verify, with a reference TLS 1.2 client against the application's server configuration
            # (the real-server scripts run in processes of their own, side by side with the matrix and the duplex scripts)
            # (a script of returning clients is executed once per TLS version of its clients)
            rscripts_x = with_tls(rscripts, T["res_tls"])
            scripts_x = with_tls(scripts, T["res_tls"])
            n_rscripts = len(rscripts_x)
            real_out = os.path.join(work, "real_log.ndjson")
            pool = concurrent.futures.ThreadPoolExecutor(max_workers=1)
            real_run = pool.submit(run_real, bin_path, rscripts_x, work, real_out, seed, T["real_procs"], T["algs"])
            pool.shutdown(wait=False)
            cpath = os.path.join(work, "cases.ndjson")
            with open(cpath, "w") as f:
                for c in cells:
                    f.write(json.dumps(dict(ev="case", client="penguin", **c["case"]), separators=(",", ":")) + "\n")
                    n_cases += 1
                for c in cells:
                    if not c["case"]["skipVerify"]:
                        f.write(json.dumps(dict(ev="case", client="ref12", **c["case"]), separators=(",", ":")) + "\n")
                        n_cases += 1
            out = os.path.join(work, "matrix_log.ndjson")
            run_harness(bin_path, cpath, out, seed, T["npki"], T["algs"], os.path.join(work, "pki_m"))
            got = sum(1 for _ in open(out))
            if got != n_cases * T["npki"]:
                raise ToolError(f"tls_matrix logged {got} lines for {n_cases * T['npki']} executions")
            logs.append(("matrix", out))
            # the duplex scripts and, after them, the client-side scripts: dealt out round robin to script_procs harness
            # processes running side by side (each executes its share with script_sets PKI sets of its own)
            items = [script_item("script", i, s) for i, s in enumerate(scripts_x, 1)]
            items += [dict(ev="cscript", id=i, ops=s["ops"]) for i, s in enumerate(cscripts, 1)]
            n_scripts = len(scripts_x)
            n_cscripts = len(cscripts)
            out = os.path.join(work, "scripts_log.ndjson")
            run_split(bin_path, items, work, out, int(seed) + 7919, T["script_sets"], T["script_procs"], T["algs"])
            want = sum(1 + len(s["ops"]) for s in scripts_x + cscripts) * T["script_sets"]
            got = sum(1 for _ in open(out))
            if got != want:
                raise ToolError(f"tls_matrix logged {got} lines for {want} script lines")
            logs.append(("scripts", out))
            # the same machine through the real server entry point
            real_run.result()
            logs.append(("real", real_out))
        # 3. TLC validates every logged line
        total = accepted = 0
        rejected = collections.defaultdict(list)  # sig -> [(rec, expected, item lines)]
        nontrivial = set()
        executed = collections.Counter()
        outcome = collections.Counter()
        samples = []
        pki_sets = set()
        for name, path in logs:
            tv = time.time()
            n, bad, _ = validate(path)
            tv = time.time() - tv
            lines = open(path).readlines()
            if n != len(lines) or n == 0:
                raise ToolError(f"TLC saw {n} lines of {len(lines)} in {name}")
            total += n
            accepted += n - len(bad)
            badset = {b[0] for b in bad}
            badsets[name] = (path, badset)
            for ln, sig, exp in bad:
                if sig == "other:malformed_line":
                    raise ToolError(f"malformed log line {ln} in {name}: {lines[ln - 1][:300]}")
                rejected[sig].append((json.loads(lines[ln - 1]), exp, item_lines(lines, ln)))
            script_ok = None
            for i, text in enumerate(lines, 1):
                rec = json.loads(text)
                if rec["ev"] == "case":
                    pki_sets.add((rec["pki"], rec["alg"], rec["namekind"]))
                    cls = ("ok" if rec["cli_data"] == "ping" and rec["srv_data"] == "ping" else
                           "clientRejects" if rec["client_hs"] == "bad_cert" else
                           "serverRejects" if rec["server_hs"] in ("bad_cert", "no_cert") else "undetermined")
                    outcome[(rec["client"], cls, rec["proto"])] += 1
                    if i not in badset:
                        nontrivial.add(("case", rec["client"], cell_of(rec), rec["alg"], rec["namekind"]))
                        if len(samples) < 3 and cls not in [s.get("_cls") for s in samples]:
                            samples.append(dict(rec, _cls=cls))
                elif rec["ev"] == "rscript":
                    script_ok = [rec, True, False]
                elif rec["ev"] == "rstep":
                    cls = (rec.get("res") if rec["op"] == "reload" else
                           f"{rec.get('cc', '')}:" + ("reached" if rec.get("http_status") else "refused:" + str(rec.get("client_rt"))))
                    cls = "ok" if rec["op"] == "rotate" else "signalled" if rec["op"] == "botch" else cls
                    if rec.get("botched"):
                        executed[f"real:{rec['op']}_after_failed_reload"] += 1
                    outcome[("real", "mtls" if rec.get("mtls") else "plain", "after-reload" if rec.get("reloads") else "before-reload", rec["op"], cls)] += 1
                    executed.update(rotation_situations("real", rec, bool(rec.get("http_status"))))
                    executed.update(resume_situations("real", rec, bool(rec.get("http_status"))))
                    executed.update(badca_situations("real", rec))
                    if script_ok is not None:
                        if i in badset:
                            script_ok[1] = False
                        if rec["op"] == "reload":
                            script_ok[2] = True
                        elif script_ok[1] and script_ok[2]:
                            h = script_ok[0]
                            nontrivial.add(("rscript", json.dumps(h["ops"]), h["mtls"], h.get("tls"), h["alg"], h["namekind"], h["pki"]))
                            if (rec["op"] == "connect" and rec.get("mtls") and not rec.get("http_status")
                                    and not any(s.get("ev") == "rstep" for s in samples)):
                                samples.append(rec)
                elif rec["ev"] == "script":
                    script_ok = [rec, True, False]
                elif rec["ev"] == "step":
                    outcome[("script", rec["op"], rec.get("client_rt", rec.get("res")))] += 1
                    executed.update(rotation_situations("duplex", rec, rec.get("cli_data") == "ping" and rec.get("srv_data") == "ping"))
                    executed.update(resume_situations("duplex", rec, rec.get("cli_data") == "ping" and rec.get("srv_data") == "ping"))
                    executed.update(badca_situations("duplex", rec))
                    if script_ok is not None:
                        if i in badset:
                            script_ok[1] = False
                        if rec["op"] == "reload":
                            script_ok[2] = True
                        elif script_ok[1] and script_ok[2]:
                            h = script_ok[0]
                            nontrivial.add(("script", json.dumps(h["ops"]), h["mtls"], h.get("tls"), h["alg"], h["namekind"], h["pki"]))
                            if rec["op"] == "use" and not any(s.get("ev") == "step" for s in samples):
                                samples.append(rec)
                elif rec["ev"] == "cscript":
                    script_ok = [rec, True, False]
                elif rec["ev"] == "cstep":
                    ok = rec.get("cli_data") == "ping" and rec.get("srv_data") == "ping"
                    outcome[("client", rec["op"], f"roots-gen{rec.get('roots')}",
                             "ok" if rec["op"] == "rotate" else f"{rec.get('srv')}:" + ("accepted" if ok else "refused:" + str(rec.get("client_hs"))))] += 1
                    if rec["op"] == "connect" and rec.get("roots", 0) > 0:
                        g = gen_of(rec.get("srv"))
                        if g is not None and g < rec["roots"] and not ok:
                            executed["client:retired_roots_server_refused"] += 1
                        if g == rec["roots"] and ok:
                            executed["client:new_roots_server_accepted"] += 1
                    if script_ok is not None:
                        if i in badset:
                            script_ok[1] = False
                        if rec["op"] == "rotate":
                            script_ok[2] = True
                        elif script_ok[1] and script_ok[2]:
                            h = script_ok[0]
                            nontrivial.add(("cscript", json.dumps(h["ops"]), h["alg"], h["namekind"], h["pki"]))
                            if rec.get("roots", 0) > 0 and not ok and not any(s.get("ev") == "cstep" for s in samples):
                                samples.append(rec)
            log(f"[trace] {name}: {n} lines, {n - len(bad)} accepted by TLC, {len(bad)} rejected ({tv:.1f}s)")
        if not replay:
            # what the rotation scripts are there for was executed on the real code (whatever the code did)
            need = [f"{k}:{x}" for k in ("duplex", "real") for x in ("retired_client_after_reload", "new_client_after_reload",
                                                                    "new_client_before_reload", "old_client_before_reload")]
            need += ["client:retired_roots_server_refused", "client:new_roots_server_accepted",
                     "real:reload_after_failed_reload", "real:connect_after_failed_reload", "real:use_after_failed_reload"]
            # the returning clients really got tickets, really offered them, resumed within a generation and were pushed
            # through a full handshake (admitted / refused) after a reload - in every TLS version
            need += [f"{k}:tls{v}:{x}" for k in ("duplex", "real") for v in T["res_tls"]
                     for x in ("tickets_stored", "resumed", "offered_but_full_handshake_admitted", "offered_but_refused")]
            # the client-CA bundle was really made unusable in each of the four ways, the server was really started on such
            # a bundle, and clients without / with a foreign / with the trusted certificate connected while it was unusable
            need += [f"{k}:botch_client_ca_{j}" for k in ("duplex", "real") for j in ("empty", "key", "truncated", "random")]
            need += [f"duplex:badstart_client_ca_{j}" for j in ("empty", "key", "truncated", "random")]
            need += [f"{k}:connect_{cc}_while_client_ca_unusable" for k in ("duplex", "real") for cc in ("none", "otherCA", "trustedCA")]
            if not rejected and any(executed[k] == 0 for k in need):
                raise ToolError(f"vacuous run: rotation / resumption situations not executed: {[k for k in need if executed[k] == 0]}")
            st = self_test(work, [badsets["real"], badsets["scripts"]], strict=not rejected)
            log(f"[selftest] {len(st)} hand-corrupted copies of accepted script lines rejected by TLC: " + ", ".join(sorted(set(st.values()))))
        # 4. verdict
        known = {k.get("sig"): k for k in vlib.load_known()
                 if k.get("property") == prop and k.get("status") == "open" and k.get("sig")}
        violations = []
        known_met = []
        rej_summary = {}
        for sig in sorted(rejected):
            items = sorted(rejected[sig], key=lambda x: (x[0].get("client", "") != "penguin", x[0].get("pki", 0),
                                                         len(x[2]), json.dumps(x[0], sort_keys=True)))
            rej_summary[sig] = dict(lines=len(items), first=describe(items[0][0], items[0][1]))
            if sig in known:
                known_met.append(sig)
                print(f"KNOWN-FINDING: property={prop} {known[sig]['what']}", flush=True)
                log(f"   [{sig}] {len(items)} rejected lines, first: {describe(items[0][0], items[0][1])}")
                continue
            note = [f"property {prop}, signature {sig}: {len(items)} logged lines rejected by TLC (spec/TlsTrace.tla)",
                    "rejected lines (what the code did   property: what spec/TlsAuth.tla demands):"]
            note += ["  " + describe(r, e) for r, e, _ in items[:12]]
            text, seen = [], set()
            for _, _, il in items:
                key = "".join(il)
                if key not in seen and len(seen) < MAX_REPLAY_ITEMS:
                    seen.add(key)
                    text += il
            path = vlib.save_replay(prop, re.sub(r"[^A-Za-z0-9_]+", "_", sig), text, note="\n".join(note))
            violations.append((path, sig, len(items)))
            log("\n".join(note[:8]))
        wall = time.time() - t0
        if not replay:
            for s in samples:
                s.pop("_cls", None)
            coverage = dict(
                states=mc["distinct"], transitions=mc["generated"],
                traces_validated_against_impl=accepted, evaluations=total,
                distinct_nontrivial=len(nontrivial),
                rule="counted: (a) accepted matrix lines distinct by client kind, cell and PKI parameters - each is a real "
                     "handshake (and round trip) whose outcome class, delivered data, presented certificate and "
                     "client-certificate request were compared with the table; (b) accepted scripts, distinct by operations, "
                     "mTLS flag and PKI set, in which a handshake or a use of an established connection follows a reload; "
                     "(c) accepted real-server scripts (server_main + SIGUSR1 over loopback TCP), counted the same way; "
                     "(d) accepted client-side scripts, distinct by operations and PKI set, in which a connection follows a "
                     "replacement of the roots file; the scripts of returning clients that resume are among (b) and (c), distinct "
                     "also by the TLS version of their clients",
                samples=samples or [dict(note="no accepted line in this run")],
                model_checking_runs=[dict(config=T["cfg"], distinct_states=mc["distinct"], states_generated=mc["generated"],
                                          wall_s=round(mc["wall"], 1))],
                negative_controls=neg,
                self_test=st,
                matrix_cells=72, cells_by_expectation=dict(mc["by"]),
                matrix_executions=n_cases * T["npki"], pki_sets=sorted(list(x) for x in pki_sets),
                scripts=n_scripts, script_bounds=T["bounds"], script_pki_sets=T["script_sets"], script_processes=T["script_procs"],
                real_server_scripts=n_rscripts, real_server_script_bounds=T["real_bounds"],
                real_server_processes=T["real_procs"], real_server_scripts_by_content=mc["real"],
                rotation_script_bounds=T["rot_bounds"], rotation_scripts_by_content=mc["rotation"],
                failed_reload_script_bounds=T["fail_bounds"], failed_reload_scripts_by_content=mc["failed_reload"],
                client_side_scripts=n_cscripts, client_side_script_bounds=T["cli_bounds"], client_side_scripts_by_content=mc["client"],
                returning_client_script_bounds=T["res_bounds"], returning_client_scripts_by_content=mc["resume"],
                returning_client_tls_versions=list(T["res_tls"]),
                unusable_client_ca_script_bounds=T["badca_bounds"], unusable_client_ca_scripts_by_content=mc["badca"],
                rotation_situations_executed=dict(sorted(executed.items())),
                scripts_with_connect_after_reload=mc["connect_after_reload"],
                scripts_with_use_after_reload=mc["use_after_reload"],
                observed={"/".join(str(x) for x in k): n for k, n in sorted(outcome.items(), key=str)},
                rejected_by_signature=rej_summary,
                known_findings_met=known_met,
                exhaustive=True,
                explanation="thin use of TLA+: spec/TlsAuth.tla is a decision table (Expected: who may reject in each of the 72 "
                            "cells) and a three-action reload machine (invariants Undisturbed, Fresh; wrong implementations are "
                            "caught as negative controls). TLC enumerates all 72 cells and all interleavings of connections, "
                            "reloads and uses within the bounds (spec/MC_TlsAuth.tla); tls_matrix executes each on the real "
                            "code: rcgen chains (two CAs, a self-signed certificate, right and wrong names, client "
                            "certificates), make_server_config / make_tls_identity / reload_tls_identity + "
                            "tokio_rustls::TlsAcceptor on one end of a tokio duplex, tls_connect on the other, followed by an "
                            "application-data round trip; TLC validates every logged line (spec/TlsTrace.tla). The reload "
                            "machine also carries the server's client CA (wantCA as configured, liveCA as served; a reload "
                            "keeps it: ConfigKept, Authenticated; negative control 'dropca'), and its scripts are ALSO run "
                            "through the real entry point: rusty_penguin_lib::server::server_main in the harness process "
                            "with --tls-cert/--tls-key[/--tls-ca] on a loopback port, tls_connect over TCP presenting the "
                            "trusted client certificate / none / one of another CA, an HTTP request/response as the round "
                            "trip, a reload = rewrite the files + SIGUSR1 to the process (check_start_tls -> "
                            "register_signal_handler -> reload_tls_identity with the arguments the server kept); the harness "
                            "waits for its own SIGUSR1 listener and then for a probe handshake served with the new "
                            "certificate, and TLC judges every handshake by the decision table for the CONFIGURED client CA. "
                            "Rotation of CA material in place: the machine carries the generation of the client CA bundle at the "
                            "configured path (wantGen), in force (liveGen) and as of the last reload (dueGen); Rotate = the bundle "
                            "is overwritten in place (same path), the generation in force follows at the next reload and not before "
                            "(CAFollows, JudgedAsConfigured, Authenticated; negative controls 'staleca', 'eagerca'). The rotation "
                            "scripts (duplex and real server, --tls-ca = client_ca_live.pem of the PKI set for every script of the "
                            "process) connect clients of every generation before the rotation, between rotation and reload and "
                            "after the reload. Client side: one process, one roots file (roots_live.pem) replaced in place between "
                            "calls of tls_connect; every connection must be validated against what the file holds then "
                            "(ClientFollowsRoots; negative control 'staleroots'). Returning clients that resume: the machine "
                            "carries the tickets clients hold, each issued by an admitted handshake under one identity and one "
                            "client-CA generation; a connect may offer them (ConnectWith), and a ticket may be honoured only under "
                            "the configuration that issued it (Honours / Usable): a handshake after a reload is judged by the "
                            "configuration in force and sees the new certificate whether or not a ticket is offered, while "
                            "resumption within one generation is allowed (Fresh, Authenticated, JudgedAsConfigured over every "
                            "offer, TicketsOfThisConfiguration; negative control 'sharedcache': one session cache for the life of "
                            "the process, caught four ways). The scripts of returning clients (kinds res / rres) are executed on "
                            "the duplex and through server_main + SIGUSR1 with raw rustls clients of the harness whose ClientConfig "
                            "(resumption store) is kept for the whole script, one per client certificate, once speaking TLS 1.3 "
                            "and once TLS 1.2; every connect line logs whether the client's store handed out a ticket (offered), "
                            "how many it took in (stored), rustls's handshake_kind() of both ends (resumed), the certificate the "
                            "client reports (serial, subject, issuer, SHA-1 fingerprint); TLC accepts a resumption only with a "
                            "ticket of the configuration in force and judges outcome and identity of a resumed handshake like any "
                            "other (signatures resumption_bypasses_reloaded_client_ca, resumption_shows_retired_identity, "
                            "ticket_of_retired_configuration_honoured); the run is vacuous (tool error) unless tickets were "
                            "stored, offered, resumed within a generation and pushed through a full handshake after a reload in "
                            "each TLS version. Unusable client CA: 'a server configured with a client CA completes the handshake only "
                            "with clients presenting a certificate issued under that CA' also when the bundle at the configured path "
                            "yields no CA certificate at the moment it is read - that is a failed reload (BotchedReloadCA: identity and "
                            "client CA in force stay) or a failed / still closed start-up (BotchedStart), never 'no client CA' "
                            "(ConfigKept, Authenticated, JudgedAsConfigured; negative control 'openonbadca', caught three ways). The "
                            "scripts of kinds fca / rfca overwrite client_ca_live.pem IN PLACE with an empty file, a PEM private key, "
                            "the CA certificate cut in half or random bytes (alternating over the scripts and the botches of a script) "
                            "and then call reload_tls_identity (duplex; the result of the call is logged; a script may also begin with "
                            "make_tls_identity on such a file: if it yields a server, the script goes on with that server) or raise "
                            "SIGUSR1 (server_main; 40 ms are given to the reload task, nothing is polled); the connects that follow "
                            "present no certificate, one of a foreign CA, the trusted one; the next reload restores the bundle first. "
                            "TLC judges those connects by the configuration in force before the botch (signatures "
                            "unusable_client_ca_disables_client_auth, unusable_client_ca_locks_out_clients); the run is vacuous (tool "
                            "error) unless every kind of junk was written and each of the three clients connected while the bundle "
                            "was unusable, on the duplex and on the real server",
            )
            vlib.write_evidence(prop, tier, seed, coverage, wall, sum(v[2] for v in violations), assumptions=[
                "thin use of TLA+: a decision table and a small state machine serve as the reference decision procedure; "
                "the cryptography (signatures, path building, name matching, the handshake itself) is trusted to rustls / "
                "webpki / aws-lc-rs, and certificate generation to rcgen",
                "matrix and duplex scripts: the transport is tokio::io::duplex, not TCP, and the server end repeats the two "
                "lines of server/mod.rs (identity.load_full() when the connection is accepted, "
                "TlsAcceptor::from(config).accept(stream)); the real-server scripts run server_main / run_listener over "
                "loopback TCP. The WebSocket layer above TLS and the name selection in client/ws_connect.rs (--hostname / "
                "--tls-server-name) are not exercised: tls_connect is called with the name",
                "real-server scripts observe the client end only: 'the server refused' = no HTTP response and the "
                "connection ended by the server (alert / EOF / reset, in TLS 1.3 at the first round trip); whether the server "
                "asked for a certificate is not observable there (it is in the matrix and the duplex scripts)",
                "real-server scripts: one server_main (one SIGUSR1 reload task) per harness process at a time, each script in "
                "a tokio runtime of its own; a reload is awaited by (1) the harness's own SIGUSR1 listener (tool error if "
                "silent for 30 s) and (2) probe handshakes until one is served the new certificate; 'still the old "
                "certificate 30 s after the signal was delivered' is logged as an observation (reload_not_effective). The "
                "ACME renewal path (reload_tls_identity_from_pem) is not exercised",
                "the application's client is TLS 1.3 only (tls_connect always adds ECH GREASE), so the protocol version "
                "cannot be chosen through the API; TLS 1.2 is covered for the SERVER configuration only, with a reference "
                "rustls client of the harness (cells without skip-verify)",
                "'never asks for a certificate' is observed indirectly: a client holding a certificate presents it whenever "
                "asked, so a server that saw no client certificate did not ask (unobservable for a client without one)",
                "when both peers would reject, either may be observed to (TLS 1.2 and 1.3: the client checks first)",
                "key generation uses the system RNG and is not reproducible; the seed selects key algorithm, name kind "
                "(DNS / IP literal) and names of each PKI set; certificates are valid 1975-4096 (no clock dependence)",
                "reload: same file paths with new content, as the SIGUSR1 handler does; a failing reload is modelled in two "
                "forms (op 'botch'): the key file holds no key when SIGUSR1 arrives (real-server scripts), and the client-CA "
                "bundle yields no CA certificate - empty, a private key, a certificate cut short, random bytes - when "
                "SIGUSR1 arrives / reload_tls_identity is called (real-server and duplex scripts, mutual TLS); nothing may "
                "change and the next reload must take effect. A bundle holding a valid certificate NEXT to junk, a missing or "
                "unreadable file (permissions), an unusable certificate file and mismatching certificate and key are not "
                "exercised; on the real server a connect that follows a botched client CA may be served before the server's "
                "reload task has read the files (40 ms are allowed, nothing is observable): such a connect is judged correctly "
                "but says nothing; a server that comes up on an unusable bundle and refuses EVERY client (also the trusted "
                "one) would be reported as unusable_client_ca_locks_out_clients although the property text tolerates it "
                "(rustls cannot build such a verifier)",
                "rotation in place = open + truncate + write of the same path (same inode); replacement by rename (a new "
                "inode under the old name) is not exercised; all scripts of a harness process share the path of the client "
                "CA bundle / roots file and every script starts by writing generation 0 to it; the new generations are fresh "
                "CAs with other keys and subjects (no cross-signing, no bundles holding two generations)",
                "client side: the roots replaced in place are exercised with tls_connect over a duplex in one process; the "
                "reconnect loop of the client (client/mod.rs) calling it is not",
                "returning clients: the application's own client never resumes (tls_connect builds a ClientConfig per "
                "connection), so the clients that do are raw rustls clients of the harness (same roots and client certificate "
                "files, ALPN http/1.1, one protocol version each); a client is identified with the certificate it presents, its "
                "state lives for one script; the machine lets a client offer any ticket it holds while the rustls client offers "
                "the most recent one (TLS 1.3 tickets are single use, two are issued per handshake); stateless tickets (a "
                "ticketer), 0-RTT data, ticket lifetime / expiry, eviction from a full session cache, resumption across a FAILED "
                "reload (the configuration is unchanged, it would be allowed) and the ACME reload path are not exercised; on "
                "the real server only the client end of a resumption is observable",
            ])
        if violations:
            for path, sig, n in violations:
                print(f"VIOLATION property={prop} replay={path}", flush=True)
            return 1
        log(f"{prop} held on everything explored ({total} lines, {wall:.0f}s)")
        return 0
    finally:
        if real_run is not None:
            concurrent.futures.wait([real_run])
        shutil.rmtree(work, ignore_errors=True)


if __name__ == "__main__":
    import argparse
    ap = argparse.ArgumentParser()
    ap.add_argument("tier", nargs="?", default="quick")
    ap.add_argument("--replay")
    ap.add_argument("--seed", default=os.environ.get("VERIF_SEED", "1"))
    a = ap.parse_args()
    try:
        sys.exit(check("C17", a.tier, int(a.seed), a.replay))
    except ToolError as e:
        print("TOOL ERROR:", e)
        sys.exit(2)
