SPECIFICATION Spec
CONSTANTS
  MaxChunks = 0
  Sizes = {1}
  Segs <- SegsQuick
  Depth = 5
  Mode = "fixed"
  StopAtOOR = TRUE
  CowAlphabet = {}
  CowMaxLen = 0
INVARIANTS ApplyMeetsPost NoEmptyChunk LenIsSum PanicOnlyOutOfRange Emit
CHECK_DEADLOCK FALSE
