\* WsAdapter thorough: bounded-exhaustive enumeration of the scripts, depth 4, one length per kind of step
SPECIFICATION SpecEnum
CONSTANTS
  EofNoneOk = TRUE
  Depth = 4
  FeedData <- FeedDataD
  FeedCtl <- FeedCtlD
  CloseVars = {2}
  Frags <- FragsQ
  Bads = {"opcode"}
  Ends = {"eof", "ioerr"}
  SendLens = {126}
  SendKinds = {"ping", "pong", "close"}
  Wfail = TRUE
INVARIANTS Emit
CHECK_DEADLOCK FALSE
