\* C17 negative control: a reload that forgets the client CA ("dropca"), scripts whose client always presents the right
\* certificate (nothing observable goes wrong: Authenticated holds); TLC must find ConfigKept violated
SPECIFICATION Spec
CONSTANTS
  Mode = "dropca"
  MaxConn = 2
  MaxReload = 2
  MaxUse = 2
  Mtls = {TRUE}
  RMaxConn = 2
  RMaxReload = 1
  RMaxUse = 1
  RealMtls = {}
  RotConn = 0
  RotReload = 0
  RotRotate = 0
  RotUse = 0
  RRotConn = 0
  RRotReload = 0
  RRotRotate = 0
  RRotUse = 0
  CliConn = 0
  CliRotate = 0
  FConn = 2
  FReload = 1
  FBotch = 1
  FUse = 1
  FailMtls = {}
  ResConn = 0
  ResReload = 0
  ResRotate = 0
  ResUse = 0
  ResMtls = {}
  RResConn = 0
  RResReload = 0
  RResRotate = 0
  RResUse = 0
  RResMtls = {}
  Extra = {}
INVARIANTS TypeOK Undisturbed Fresh Authenticated ConfigKept
CHECK_DEADLOCK FALSE
