------------------------------- MODULE WsAdapter -------------------------------
(***************************************************************************)
(* The contract of a WebSocket connection seen through the trait           *)
(* `penguin_mux::ws::WebSocket` (poll_next / poll_ready + start_send /     *)
(* poll_flush / poll_close over the four-valued `Message`), written from   *)
(* RFC 6455 and the doc comments of penguin-mux/src/ws.rs, not from the    *)
(* code.  The multiplexor relies on it for                                 *)
(*   C02  octets intact and in order,                                      *)
(*   C08  every queued frame is transmitted in order before the close,     *)
(*   C10  a message that is no valid frame ends the connection with an     *)
(*        error, never a crash or a hang,                                  *)
(*   C16  only a Pong is reported as Pong.                                 *)
(*                                                                         *)
(* The state `s` of one connection end is a record; every operation is a   *)
(* function from a state, the operation's arguments and its OBSERVED       *)
(* outcome to the SET of states the contract allows afterwards (empty =    *)
(* the contract forbids the observation).  MC_WsAdapter.tla turns this     *)
(* into a state machine that generates the outcomes and checks the laws of *)
(* the contract; WsAdapterTrace.tla binds the outcomes to a log of the     *)
(* real adapter.                                                           *)
(*                                                                         *)
(* RECEIVE SIDE.  The raw peer puts frames on the connection (s.conn):     *)
(*   [op, fin, k, len]  op in binary, text, cont, ping, pong, close, bad   *)
(* `k` names the position-coded payload a frame carries (a continuation    *)
(* continues the payload of the message it belongs to), `len` the number   *)
(* of payload octets of this frame.  `bad` stands for a frame that         *)
(* violates RFC 6455 (reserved bits or opcode, a control frame that is     *)
(* fragmented or longer than 125 octets, wrong masking); a data frame      *)
(* inside a fragmented message and a continuation outside of one are       *)
(* violations as well (section 5.4).  Msgs(conn) is the sequence of        *)
(* complete messages in the order in which their last frame arrived:       *)
(* control frames may be injected in the middle of a fragmented message    *)
(* (section 5.4) and complete at once.  After the frames the read side     *)
(* stays open, ends (TCP FIN: "eof") or fails ("ioerr").                   *)
(*                                                                         *)
(* Every poll_next returns, in this order and without loss, duplication    *)
(* or invention, the image of the next complete message:                   *)
(*   binary -> Binary(the reassembled payload)                             *)
(*   text   -> Binary(the same octets)                                     *)
(*   ping   -> Ping,  pong -> Pong,  close -> Close   (payloads dropped)   *)
(* Pending exactly when no complete message is buffered and the read side  *)
(* has not ended; Some(Err) for a violation, for an I/O error and for the  *)
(* end of the read side without a Close; None after Close; None for ever   *)
(* after None or Err.                                                      *)
(*                                                                         *)
(* SEND SIDE.  poll_ready + start_send(m) accept one message; accepted     *)
(* messages (s.pend) reach the wire in call order, one WebSocket message   *)
(* each: Binary(d) -> a binary message with payload d (in one frame or     *)
(* fragmented), Ping -> a ping, Pong -> a pong, Close -> a close frame.    *)
(* WHEN they reach the wire is not specified, except that a successful     *)
(* poll_flush or poll_close leaves none behind; poll_close moreover puts a *)
(* close frame behind everything accepted before.  Nothing else appears    *)
(* on the wire but the transport's own answers: a pong echoing the payload *)
(* of a ping the peer has sent (pings may be passed over: section 5.5.3    *)
(* allows answering only the most recent one) and one close frame          *)
(* answering a close of the peer.  No message of the user and no second    *)
(* close frame follows a close frame (section 5.5.1); an automatic pong    *)
(* may.  Frames are masked if and only if this end is the client (section  *)
(* 5.1); lengths use the minimal encoding (section 5.2).                   *)
(***************************************************************************)
EXTENDS Integers, Sequences, FiniteSets

CONSTANT EofNoneOk   \* TRUE: the end of the read side without a Close may be reported as None instead of Some(Err)

Take(q, n) == SubSeq(q, 1, n)
Min(S) == CHOOSE x \in S : \A y \in S : x <= y

(* ---------------- frames and messages ------------------------------------------------------------- *)
Frame(op, fin, k, len) == [op |-> op, fin |-> fin, k |-> k, len |-> len]
BadFrame == Frame("bad", TRUE, 0, 0)
NoMsg == [kind |-> "none", k |-> 0, len |-> 0, at |-> 0]
BadAt(i) == [kind |-> "bad", k |-> 0, len |-> 0, at |-> i]

\* payload octets of a close frame: nothing | status code | code and "bye" | code and 123 octets of reason
CloseLen(var) == CASE var = 0 -> 0 [] var = 1 -> 2 [] var = 2 -> 5 [] OTHER -> 125

\* complete messages of the frame sequence fs from index i on; `open` is the fragmented data message under way.
\* `at` is the index of the frame that completed the message.  Nothing counts behind a violation.
RECURSIVE Asm(_, _, _)
Asm(fs, i, open) ==
  IF i > Len(fs) THEN <<>>
  ELSE LET f == fs[i] IN
    CASE f.op = "bad" -> <<BadAt(i)>>
      [] f.op \in {"ping", "pong", "close"} ->
           <<[kind |-> f.op, k |-> f.k, len |-> f.len, at |-> i]>> \o Asm(fs, i + 1, open)
      [] f.op = "cont" ->
           IF open = NoMsg THEN <<BadAt(i)>>
           ELSE LET m == [open EXCEPT !.len = @ + f.len, !.at = i]
                IN IF f.fin THEN <<m>> \o Asm(fs, i + 1, NoMsg) ELSE Asm(fs, i + 1, m)
      [] OTHER ->    \* binary, text
           IF open # NoMsg THEN <<BadAt(i)>>
           ELSE LET m == [kind |-> f.op, k |-> f.k, len |-> f.len, at |-> i]
                IN IF f.fin THEN <<m>> \o Asm(fs, i + 1, NoMsg) ELSE Asm(fs, i + 1, m)
Msgs(fs) == Asm(fs, 1, NoMsg)

\* the fragmented message under way at the end of fs (NoMsg if none or after a violation)
RECURSIVE OpenEnd(_, _, _)
OpenEnd(fs, i, open) ==
  IF i > Len(fs) THEN open
  ELSE LET f == fs[i] IN
    CASE f.op = "bad" -> NoMsg
      [] f.op \in {"ping", "pong", "close"} -> OpenEnd(fs, i + 1, open)
      [] f.op = "cont" -> IF open = NoMsg THEN NoMsg
                          ELSE OpenEnd(fs, i + 1, IF f.fin THEN NoMsg ELSE [open EXCEPT !.len = @ + f.len])
      [] OTHER -> IF open # NoMsg THEN NoMsg
                  ELSE OpenEnd(fs, i + 1, IF f.fin THEN NoMsg ELSE [kind |-> f.op, k |-> f.k, len |-> f.len, at |-> i])

(* ---------------- position-coded payloads ---------------------------------------------------------- *)
\* "m251": octet i of payload k = (37 k + i) mod 251;  "a95": 32 + ((37 k + i) mod 95)  (printable ASCII, for text)
First251(k, n) == IF n = 0 THEN -1 ELSE (37 * k) % 251
First95(k, n) == IF n = 0 THEN -1 ELSE 32 + ((37 * k) % 95)

\* what poll_next hands out for a complete message: the image under the mapping of the contract
Delivered(m) ==
  CASE m.kind = "binary" -> [kind |-> "binary", len |-> m.len, first |-> First251(m.k, m.len), code |-> "m251"]
    [] m.kind = "text"   -> [kind |-> "binary", len |-> m.len, first |-> First95(m.k, m.len), code |-> "a95"]
    [] OTHER             -> [kind |-> m.kind, len |-> 0, first |-> -1, code |-> "none"]

\* an observed message (kind, len, first octet, run flags) is that image
MatchDeliv(obs, d) ==
  /\ obs.kind = d.kind /\ obs.len = d.len /\ obs.first = d.first
  /\ d.code = "m251" => obs.r251
  /\ d.code = "a95" => obs.r95

(* ---------------- the state of one end ------------------------------------------------------------- *)
Start(role) ==
  [role |-> role,        \* "server" | "client"
   conn |-> <<>>,        \* frames the peer has put on the connection
   rdEnd |-> "open",     \* what follows the frames: "open" | "eof" | "ioerr"
   ndel |-> 0,           \* complete messages delivered so far
   rst |-> "live",       \* "live" | "closed" (Close delivered) | "ended" (None or Err returned)
   pend |-> <<>>,        \* accepted messages that have not reached the wire
   pp |-> 0,             \* index in Msgs(conn) of the last ping answered (earlier ones are passed over)
   cw |-> FALSE,         \* a close frame is on the wire
   closing |-> FALSE,    \* the user has asked for the close (Close accepted or poll_close called)
   wbroken |-> FALSE,    \* the transport refuses writes
   tags |-> <<>>]        \* origin ("user" | "auto") of the wire messages of the last step (for the laws)

Avail(s) == s.ndel < Len(Msgs(s.conn))
\* frames behind the message delivered last
Extra(s) == s.ndel > 0 /\ Len(s.conn) > Msgs(s.conn)[s.ndel].at
\* the connection is no longer in its normal phase: results of the send side are the transport's choice
Degraded(s) == s.wbroken \/ s.closing \/ s.cw \/ s.rst # "live"
\* ... and an accepted message may be discarded instead of being queued
CanDrop(s) == s.closing \/ s.cw \/ s.rst # "live"

(* ---------------- receive side ------------------------------------------------------------------- *)
\* the results poll_next may give: "msg" (the next message), "pending", "none", "err"
NextRes(s) ==
  LET M == Msgs(s.conn)
      wr == IF s.wbroken THEN {"err"} ELSE {}      \* an answer could not be written
  IN
  IF s.rst = "ended" THEN {"none"}
  ELSE IF s.rst = "closed" THEN
       \* the closing handshake: the server ends the stream; the client may wait for the server to close the
       \* connection (section 7.1.1), and anything but its end is an error
       IF s.role = "server" THEN {"none"} \cup wr
       ELSE {"none"} \cup wr
            \cup (IF s.rdEnd = "open" /\ ~Extra(s) THEN {"pending"} ELSE {})
            \cup (IF Extra(s) \/ s.rdEnd = "ioerr" THEN {"err"} ELSE {})
  ELSE IF Avail(s) THEN (IF M[s.ndel + 1].kind = "bad" THEN {"err"} ELSE {"msg"}) \cup wr
  ELSE CASE s.rdEnd = "open" -> {"pending"} \cup wr
         [] s.rdEnd = "eof" -> IF EofNoneOk THEN {"err", "none"} ELSE {"err"}
         [] OTHER -> {"err"}

(* ---------------- what the wire shows --------------------------------------------------------------- *)
\* an observed wire message: [kind, len, first, r251, r95, frags, masked, minenc, code]
WireWF(role, w) ==
  /\ w.kind \in {"binary", "ping", "pong", "close"}
  /\ w.frags >= 1
  /\ w.masked = (IF role = "client" THEN w.frags ELSE 0)
  /\ w.minenc
  /\ w.kind # "binary" => w.len <= 125 /\ w.frags = 1

\* w is the accepted message p: [kind, k, len]
MatchesSend(w, p) ==
  /\ w.kind = p.kind
  /\ p.kind = "binary" => w.len = p.len /\ w.first = First251(p.k, p.len) /\ w.r251
\* w is the pong echoing ping m
EchoOf(w, m) == w.kind = "pong" /\ w.len = m.len /\ w.first = First251(m.k, m.len) /\ w.r251

HasClose(q) == \E i \in 1 .. Len(q) : q[i].kind = "close"

\* all ways of explaining the wire messages W[i..] from e = [pend, pp, cw, tags].  Behind the close frame only
\* automatic pongs may follow (section 5.5.1 forbids further DATA frames; a transport that has a pong pending when
\* it is told to close may write it behind the close frame -- tungstenite does).
RECURSIVE Expl(_, _, _, _, _)
Expl(role, M, W, i, e) ==
  IF i > Len(W) THEN {e}
  ELSE LET w == W[i] IN
    IF ~WireWF(role, w) THEN {}
    ELSE LET user == IF ~e.cw /\ e.pend # <<>> /\ MatchesSend(w, Head(e.pend))
                     THEN Expl(role, M, W, i + 1, [e EXCEPT !.pend = Tail(@), !.cw = (w.kind = "close"),
                                                            !.tags = Append(@, "user")])
                     ELSE {}
             C == {j \in (e.pp + 1) .. Len(M) : M[j].kind = "ping" /\ EchoOf(w, M[j])}
             pong == IF C # {}
                     THEN Expl(role, M, W, i + 1, [e EXCEPT !.pp = Min(C), !.tags = Append(@, "auto")])
                     ELSE {}
             clos == IF ~e.cw /\ w.kind = "close" /\ HasClose(M)
                     THEN Expl(role, M, W, i + 1, [e EXCEPT !.cw = TRUE, !.tags = Append(@, "auto")])
                     ELSE {}
         IN user \cup pong \cup clos

Explained(s, W) ==
  { [s EXCEPT !.pend = e.pend, !.pp = e.pp, !.cw = e.cw, !.tags = e.tags] :
      e \in Expl(s.role, Msgs(s.conn), W, 1, [pend |-> s.pend, pp |-> s.pp, cw |-> s.cw, tags |-> <<>>]) }

(* ---------------- the operations ------------------------------------------------------------------- *)
\* the peer: more frames; the end of the read side; the transport: the write side breaks
AfterFeed(s, frames) == [s EXCEPT !.conn = @ \o frames, !.tags = <<>>]
AfterEnd(s, how) == [s EXCEPT !.rdEnd = how, !.tags = <<>>]
AfterWfail(s) == [s EXCEPT !.wbroken = TRUE, !.tags = <<>>]

\* poll_next gave `res` (and the message `obs` when res = "msg") while W appeared on the wire
AfterNext(s, res, obs, W) ==
  IF res \notin NextRes(s) THEN {}
  ELSE LET m == Msgs(s.conn)[s.ndel + 1]
           s1 == CASE res = "msg" -> [s EXCEPT !.ndel = @ + 1, !.rst = IF m.kind = "close" THEN "closed" ELSE @]
                   [] res = "pending" -> s
                   [] OTHER -> [s EXCEPT !.rst = "ended"]
       IN IF res = "msg" /\ ~MatchDeliv(obs, Delivered(m)) THEN {} ELSE Explained(s1, W)

ReadyRes(s) == IF Degraded(s) THEN {"ok", "err"} ELSE {"ok"}
SendRes(s) == IF Degraded(s) THEN {"ok", "err"} ELSE {"ok"}

\* poll_ready gave `ready`; if "ok", start_send(p) gave `res`; W appeared on the wire
AfterSend(s, p, ready, res, W) ==
  IF ready \notin ReadyRes(s) \/ res \notin SendRes(s) \/ (ready # "ok" /\ res # ready) THEN {}
  ELSE LET queued == [s EXCEPT !.pend = Append(@, p), !.closing = @ \/ p.kind = "close"]
           S1 == IF res # "ok" THEN {s}
                 ELSE IF CanDrop(s) THEN {queued, s} ELSE {queued}
       IN UNION { Explained(s1, W) : s1 \in S1 }

\* poll_flush gave `res`
AfterFlush(s, res, W) ==
  IF res \notin {"ok", "err"} \/ (res = "err" /\ ~Degraded(s)) THEN {}
  ELSE { t \in Explained(s, W) : res = "ok" => t.pend = <<>> }

\* poll_close gave `res`
AfterClose(s, res, W) ==
  IF res \notin {"ok", "err"} \/ (res = "err" /\ ~Degraded(s)) THEN {}
  ELSE LET asked == [s EXCEPT !.closing = TRUE]
           queued == [asked EXCEPT !.pend = Append(@, [kind |-> "close", k |-> 0, len |-> 0])]
           \* one close frame per connection: none is queued behind one that is queued or written already
           S1 == IF s.cw \/ HasClose(s.pend) THEN {asked}
                 ELSE IF s.rst = "ended" THEN {queued, asked}     \* nobody is left to close towards
                 ELSE {queued}
       IN { t \in UNION { Explained(s1, W) : s1 \in S1 } :
              res = "ok" => t.pend = <<>> /\ (t.cw \/ s.rst = "ended") }
=============================================================================
