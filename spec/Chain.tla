------------------------------- MODULE Chain -------------------------------
(***************************************************************************)
(* C20: cow_bytes::LongChain (and CowBytes) behave exactly like a plain    *)
(* byte sequence.                                                          *)
(*                                                                         *)
(* A chain is a sequence of NON-EMPTY chunks; a chunk is a sequence of     *)
(* bytes (naturals).  `Flatten(c)` is the plain byte sequence it stands    *)
(* for.  For every operation of the public API this module defines         *)
(*   (a) `Apply`  -- what a correct implementation does to the chunk list  *)
(*       (keeping chunk boundaries, updating a cached length counter the   *)
(*       way an implementation does: arithmetically, not by re-counting),  *)
(*   (b) `Post`   -- the RELATIONAL postcondition of the property, stated  *)
(*       on the flattened plain sequence and on what the accessors report  *)
(*       (`Obs` records: chunk list, len, remaining, chunk, is_empty,      *)
(*       has_remaining, chunks_vectored, the bytes read through Buf).      *)
(*       `Post` is what spec/ChainTrace.tla evaluates on values observed   *)
(*       on the real code.                                                 *)
(* The state machine below applies every operation with arguments at,      *)
(* inside and one past every boundary, from every initial chain of the     *)
(* configured shapes, up to `Depth` operations, records the operation      *)
(* sequence in the history variable `hist`, and prints every maximal       *)
(* operation sequence as one JSON line (`SEQ`) so that it can be replayed   *)
(* on the real code (harness/src/bin/chain_vec.rs).                        *)
(*                                                                         *)
(* Operations are records [op, i, x]: `i` is the numeric argument (chunk   *)
(* index for insert/remove, byte offset/length for split_to, split_off,    *)
(* truncate, advance, copy_to_bytes, copy_to_slice), `x` the segment for   *)
(* push/insert.                                                            *)
(*                                                                         *)
(* The CONSUMING methods every `bytes::Buf` gets from the trait (whether   *)
(* the implementation keeps the provided method or overrides it) are       *)
(* operations like the others: copy_to_bytes(n), copy_to_slice(n bytes),   *)
(* get_u8(), get_u16().  On the plain byte sequence each removes the first *)
(* n (1, 2) bytes and returns exactly those bytes (get_u16: big-endian);   *)
(* with fewer bytes remaining the Buf contract panics.  The OBSERVING      *)
(* methods remaining(), chunk(), has_remaining(), chunks_vectored() are    *)
(* part of every observation (`Obs`), i.e. they are evaluated before and   *)
(* after every operation and on every returned chain.                      *)
(***************************************************************************)
EXTENDS Integers, Sequences, FiniteSets, TLC, Json

CONSTANTS MaxChunks,   \* initial chains have 0 .. MaxChunks chunks
          Sizes,       \* set of chunk sizes of the initial chains
          Segs,        \* segments offered to push / insert (contains the empty segment)
          Depth,       \* number of operations per behaviour
          Mode,        \* "fixed": Apply is the correct behaviour; "pinned": Apply mimics pbuf.rs of the pinned tree
          StopAtOOR,   \* TRUE: a behaviour ends with its first out-of-range operation (see `More`)
          CowAlphabet, \* bytes of the strings of the CowBytes cases
          CowMaxLen    \* maximal length of those strings

(* values for Segs (a configuration file cannot contain tuples): `Segs <- SegsQuick` *)
SegsQuick == {<<>>, <<7>>}
SegsThorough == {<<>>, <<7>>, <<8, 9>>}

(* ---------------------------------------------------------------------- *)
(* plain sequences                                                        *)
(* ---------------------------------------------------------------------- *)
RECURSIVE Flatten(_)
Flatten(c) == IF c = <<>> THEN <<>> ELSE Head(c) \o Flatten(Tail(c))

RECURSIVE SumLen(_)
SumLen(c) == IF c = <<>> THEN 0 ELSE Len(Head(c)) + SumLen(Tail(c))

NoEmpty(c) == \A k \in 1 .. Len(c) : c[k] # <<>>

Prefix(s, n) == SubSeq(s, 1, n)
Suffix(s, n) == SubSeq(s, n + 1, Len(s))           \* s without its first n elements

(* lexicographic comparison of byte strings (what Ord on [u8] is) *)
RECURSIVE LexCmp(_, _)
LexCmp(x, y) ==
  IF x = <<>> /\ y = <<>> THEN "eq"
  ELSE IF x = <<>> THEN "lt"
  ELSE IF y = <<>> THEN "gt"
  ELSE IF Head(x) < Head(y) THEN "lt"
  ELSE IF Head(x) > Head(y) THEN "gt"
  ELSE LexCmp(Tail(x), Tail(y))

HexDigitsL == <<"0", "1", "2", "3", "4", "5", "6", "7", "8", "9", "a", "b", "c", "d", "e", "f">>
HexDigitsU == <<"0", "1", "2", "3", "4", "5", "6", "7", "8", "9", "A", "B", "C", "D", "E", "F">>
RECURSIVE Hex(_, _)
Hex(x, d) == IF x = <<>> THEN ""
             ELSE d[(Head(x) \div 16) + 1] \o d[(Head(x) % 16) + 1] \o Hex(Tail(x), d)

(* ---------------------------------------------------------------------- *)
(* chunk lists: canonical behaviour of a correct implementation           *)
(* ---------------------------------------------------------------------- *)
(* the first k bytes, chunk boundaries kept, the chunk containing offset k cut *)
RECURSIVE Take(_, _)
Take(c, k) ==
  IF k = 0 \/ c = <<>> THEN <<>>
  ELSE IF Len(Head(c)) <= k THEN <<Head(c)>> \o Take(Tail(c), k - Len(Head(c)))
  ELSE <<Prefix(Head(c), k)>>

(* all but the first k bytes *)
RECURSIVE Drop(_, _)
Drop(c, k) ==
  IF k = 0 \/ c = <<>> THEN c
  ELSE IF Len(Head(c)) <= k THEN Drop(Tail(c), k - Len(Head(c)))
  ELSE <<Suffix(Head(c), k)>> \o Tail(c)

InsertAt(c, i, x) == Prefix(c, i) \o <<x>> \o Suffix(c, i)       \* i = number of chunks before x
RemoveAt(c, i) == Prefix(c, i) \o Suffix(c, i + 1)               \* removes chunk number i+1 (0-based i)

Op(op, i, x) == [op |-> op, i |-> i, x |-> x]

OpNames == {"push", "insert", "pop", "remove", "split_to", "split_off", "truncate", "advance", "clear",
            "copy_to_bytes", "copy_to_slice", "get_u8", "get_u16"}

(* the consuming methods of bytes::Buf: they take bytes off the front and hand them out *)
CopyOps == {"copy_to_bytes", "copy_to_slice"}            \* the number of bytes is the argument `i`
GetOps == {"get_u8", "get_u16"}                          \* fixed width, no argument
GetWidth(op) == IF op = "get_u8" THEN 1 ELSE 2
(* number of bytes a consuming operation takes *)
Width(o) == IF o.op \in GetOps THEN GetWidth(o.op) ELSE o.i
(* big-endian value of a byte string (what get_u8 / get_u16 return) *)
RECURSIVE BE(_)
BE(b) == IF b = <<>> THEN 0 ELSE BE(Prefix(b, Len(b) - 1)) * 256 + b[Len(b)]

(* Buf::chunks_vectored is observed with a destination of IovCap entries (and with an empty one) *)
IovCap == 2

(* what the accessors of a chain value report *)
ObsOf(c, n) == [ch |-> c, len |-> n, rem |-> n,
                chunk |-> IF c = <<>> THEN <<>> ELSE c[1],
                empty |-> (n = 0), has |-> (n > 0),
                iov |-> Prefix(c, IF Len(c) < IovCap THEN Len(c) ELSE IovCap), iov0 |-> 0,
                drain |-> Flatten(c), accp |-> <<>>]

NoObs == ObsOf(<<>>, 0)
Unit == [k |-> "unit", b |-> <<>>]
RNone == [k |-> "none", b |-> <<>>]
RBytes(b) == [k |-> "bytes", b |-> b]
RInt(v) == [k |-> "int", b |-> <<>>, v |-> v]
RChain(c, n) == [k |-> "chain", b |-> <<>>, c |-> ObsOf(c, n)]

(* Is the argument of the operation in range for a value with chunk list c (n chunks, L bytes)? *)
InRangeFor(o, c) ==
  LET n == Len(c)
      L == SumLen(c)
  IN CASE o.op = "push"   -> o.x # <<>>
       [] o.op = "insert" -> o.x # <<>> /\ o.i <= n
       [] o.op = "pop"    -> n > 0
       [] o.op = "remove" -> o.i < n
       [] o.op \in {"split_to", "split_off", "truncate", "advance"} -> o.i <= L
       [] o.op = "clear"  -> TRUE
       [] o.op \in CopyOps \cup GetOps -> Width(o) <= L      \* Buf: panics when fewer bytes remain
       [] OTHER -> FALSE

(* Apply(o, c, n): c the chunk list, n the cached length.  Result [c, n, ret].
   Out-of-range arguments leave the value unchanged (a panic is the other allowed outcome; the
   model then simply has no successor worth exploring, so it is not a transition).           *)
ApplyFixed(o, c, n) ==
  IF ~InRangeFor(o, c)
  THEN [c |-> c, n |-> n,
        ret |-> CASE o.op = "pop" -> RNone
                  [] o.op = "remove" -> RBytes(<<>>)
                  [] o.op \in {"split_to", "split_off"} -> RChain(<<>>, 0)
                  [] o.op \in CopyOps -> RBytes(<<>>)
                  [] o.op \in GetOps -> RInt(0)
                  [] OTHER -> Unit]
  ELSE CASE o.op = "push"      -> [c |-> Append(c, o.x), n |-> n + Len(o.x), ret |-> Unit]
         [] o.op = "insert"    -> [c |-> InsertAt(c, o.i, o.x), n |-> n + Len(o.x), ret |-> Unit]
         [] o.op = "pop"       -> [c |-> Prefix(c, Len(c) - 1), n |-> n - Len(c[Len(c)]), ret |-> RBytes(c[Len(c)])]
         [] o.op = "remove"    -> [c |-> RemoveAt(c, o.i), n |-> n - Len(c[o.i + 1]), ret |-> RBytes(c[o.i + 1])]
         [] o.op = "split_to"  -> [c |-> Drop(c, o.i), n |-> n - o.i, ret |-> RChain(Take(c, o.i), o.i)]
         [] o.op = "split_off" -> [c |-> Take(c, o.i), n |-> o.i, ret |-> RChain(Drop(c, o.i), n - o.i)]
         [] o.op = "truncate"  -> [c |-> Take(c, o.i), n |-> o.i, ret |-> Unit]
         [] o.op = "advance"   -> [c |-> Drop(c, o.i), n |-> n - o.i, ret |-> Unit]
         [] o.op = "clear"     -> [c |-> <<>>, n |-> 0, ret |-> Unit]
         [] o.op \in CopyOps   -> [c |-> Drop(c, o.i), n |-> n - o.i, ret |-> RBytes(Flatten(Take(c, o.i)))]
         [] o.op \in GetOps    -> LET w == GetWidth(o.op)
                                  IN [c |-> Drop(c, w), n |-> n - w, ret |-> RInt(BE(Flatten(Take(c, w))))]

(* The pinned tree (cow-bytes/src/pbuf.rs before any repair), as read from the source:
   push/insert store an empty segment as a chunk; truncate stores its argument in the cached length
   whatever the real length is.  Only used to show that the invariants below catch these defects
   at the design level (Chain_pinned.cfg is EXPECTED to violate ApplyMeetsPost).                  *)
ApplyPinned(o, c, n) ==
  CASE o.op = "push" /\ o.x = <<>> -> [c |-> Append(c, o.x), n |-> n, ret |-> Unit]
    [] o.op = "insert" /\ o.x = <<>> /\ o.i <= Len(c) -> [c |-> InsertAt(c, o.i, o.x), n |-> n, ret |-> Unit]
    [] o.op = "truncate" /\ o.i > SumLen(c) -> [c |-> c, n |-> o.i, ret |-> Unit]
    [] OTHER -> ApplyFixed(o, c, n)

Apply(o, c, n) == IF Mode = "pinned" THEN ApplyPinned(o, c, n) ELSE ApplyFixed(o, c, n)

(* ---------------------------------------------------------------------- *)
(* the property: relational postcondition on OBSERVED values              *)
(* ---------------------------------------------------------------------- *)
(* An observation is a record [ch, len, rem, chunk, empty, has, iov, iov0, drain, accp]: the chunk list
   (AsRef<[CowBytes]>), len(), Buf::remaining(), Buf::chunk(), is_empty(), Buf::has_remaining(), the
   slices Buf::chunks_vectored() filled into a destination of IovCap entries, the number it reports for
   an empty destination, the bytes a consumer reads through Buf (chunk() / advance(chunk().len()) on a
   clone until has_remaining() is false), and the list of accessors that panicked ("drain_stuck": the
   reading loop made no progress; "chunks_vectored_count": it reported more slices than the destination has). *)

(* Buf::chunks_vectored on a value whose remaining bytes are F: at most `cap` slices are filled, together
   they are a prefix of the remaining bytes, the first one is not empty while bytes remain, and nothing
   is filled into an empty destination.  (How many of the remaining slices are filled is left open: the
   provided method of the trait fills one.)                                                        *)
IovOk(iov, iov0, cap, F) ==
  /\ Len(iov) <= cap
  /\ LET G == Flatten(iov) IN Len(G) <= Len(F) /\ G = Prefix(F, Len(G))
  /\ F # <<>> => (iov # <<>> /\ iov[1] # <<>>)
  /\ iov0 = 0

WF(o) ==
  /\ o.accp = <<>>                                   \* no accessor of a live value panics
  /\ NoEmpty(o.ch)                                   \* no chunk is empty
  /\ o.len = Len(Flatten(o.ch))                      \* the reported length is the length of the contents
  /\ o.rem = o.len                                   \* Buf::remaining
  /\ o.chunk = (IF o.ch = <<>> THEN <<>> ELSE o.ch[1])
  /\ (o.chunk = <<>>) <=> (o.len = 0)                \* Buf contract: chunk() is empty iff nothing remains
  /\ o.empty = (o.len = 0)
  /\ o.has = (o.len > 0)                             \* Buf::has_remaining
  /\ IovOk(o.iov, o.iov0, IovCap, Flatten(o.ch))     \* Buf::chunks_vectored
  /\ o.drain = Flatten(o.ch)                         \* the remaining bytes, as read through Buf

InRange(o, b) == InRangeFor(o, b.ch)

(* what the operation does to a plain byte sequence; chunk-level operations (insert, pop, remove) are
   located through the chunk boundaries of the observed value before the operation *)
PlainAfter(o, b) ==
  LET F == Flatten(b.ch)
      L == Len(F)
      n == Len(b.ch)
  IN CASE o.op = "push"      -> F \o o.x
       [] o.op = "insert"    -> LET p == SumLen(Prefix(b.ch, o.i)) IN Prefix(F, p) \o o.x \o Suffix(F, p)
       [] o.op = "pop"       -> Prefix(F, L - Len(b.ch[n]))
       [] o.op = "remove"    -> LET p == SumLen(Prefix(b.ch, o.i)) IN Prefix(F, p) \o Suffix(F, p + Len(b.ch[o.i + 1]))
       [] o.op = "split_to"  -> Suffix(F, o.i)
       [] o.op = "split_off" -> Prefix(F, o.i)
       [] o.op = "truncate"  -> Prefix(F, o.i)
       [] o.op = "advance"   -> Suffix(F, o.i)
       [] o.op = "clear"     -> <<>>
       [] o.op \in CopyOps \cup GetOps -> Suffix(F, Width(o))   \* the first bytes are taken off

RetOk(o, b, r) ==
  LET F == Flatten(b.ch) IN
  CASE o.op \in {"push", "insert", "truncate", "advance", "clear"} -> r.k = "unit"
    [] o.op = "pop"       -> r.k = "bytes" /\ r.b = b.ch[Len(b.ch)]
    [] o.op = "remove"    -> r.k = "bytes" /\ r.b = b.ch[o.i + 1]
    [] o.op = "split_to"  -> r.k = "chain" /\ WF(r.c) /\ Flatten(r.c.ch) = Prefix(F, o.i)
    [] o.op = "split_off" -> r.k = "chain" /\ WF(r.c) /\ Flatten(r.c.ch) = Suffix(F, o.i)
    [] o.op \in CopyOps   -> r.k = "bytes" /\ r.b = Prefix(F, o.i)         \* exactly the bytes taken off
    [] o.op \in GetOps    -> r.k = "int" /\ r.v = BE(Prefix(F, GetWidth(o.op)))

(* the value returned by a call with an out-of-range argument that did not panic: no malformed value *)
RetNeutral(o, r) ==
  CASE o.op \in {"push", "insert", "truncate", "advance", "clear"} -> r.k = "unit"
    [] o.op = "pop"       -> r.k = "none"
    [] o.op = "remove"    -> r.k = "bytes"
    [] o.op \in {"split_to", "split_off"} -> r.k = "chain" /\ WF(r.c)
    [] o.op \in CopyOps   -> r.k = "bytes"
    [] o.op \in GetOps    -> r.k = "int"

(* b, a: observation before / after; r: returned value; out: "ok" | "panic" *)
Post(o, b, a, r, out) ==
  /\ WF(b)
  /\ IF InRange(o, b)
     THEN /\ out = "ok"
          /\ WF(a)
          /\ Flatten(a.ch) = PlainAfter(o, b)
          /\ RetOk(o, b, r)
     ELSE \/ out = "panic" /\ WF(a)                 \* a call that panics must not leave a value behind whose reported length
                                                     \* disagrees with its contents or that exposes an empty chunk ("never produces")
          \/ out = "ok" /\ a = b /\ RetNeutral(o, r) \* unchanged, exactly

(* stable signature of a rejected case (read by tools/fam_chain.py, matched with KNOWN_FINDINGS.json) *)
SigOf(o, b) ==
  IF ~WF(b) THEN "tainted:" \o o.op
  ELSE IF InRange(o, b) THEN "other:" \o o.op
  ELSE CASE o.op \in {"push", "insert"} /\ o.x = <<>> /\ (o.op = "push" \/ o.i <= Len(b.ch)) -> o.op \o "_empty"
         [] o.op = "pop" -> "pop_empty"
         [] OTHER -> o.op \o "_past_end"

(* ---------------------------------------------------------------------- *)
(* CowBytes: one value against the plain byte string X                    *)
(* ---------------------------------------------------------------------- *)
(* operations at position p of a CowBytes holding X: what remains in the value, what is returned.
   CowBytes is a bytes::Buf too: copy_to_bytes(p), copy_to_slice(p bytes), get_u8(), get_u16() take the
   first p (1, 2) bytes off and return them (the get operations return the big-endian value, logged as a
   one-element list; their `p` is 0).                                                            *)
CowPosOps == {"split_to", "split_off", "truncate", "advance", "read", "copy_to_bytes", "copy_to_slice"}
CowWidth(op, p) == IF op \in GetOps THEN GetWidth(op) ELSE p
CowInRange(op, X, p) == op = "read" \/ CowWidth(op, p) <= Len(X)
CowSelf(op, X, p) ==
  CASE op = "split_to"  -> Suffix(X, p)
    [] op = "split_off" -> Prefix(X, p)
    [] op = "truncate"  -> Prefix(X, p)
    [] op = "advance"   -> Suffix(X, p)
    [] op = "read"      -> Suffix(X, IF p <= Len(X) THEN p ELSE Len(X))
    [] op \in CopyOps \cup GetOps -> Suffix(X, CowWidth(op, p))
CowRet(op, X, p) ==
  CASE op = "split_to"  -> Prefix(X, p)
    [] op = "split_off" -> Suffix(X, p)
    [] op = "read"      -> Prefix(X, IF p <= Len(X) THEN p ELSE Len(X))
    [] op \in CopyOps   -> Prefix(X, p)
    [] op \in GetOps    -> <<BE(Prefix(X, GetWidth(op)))>>
    [] OTHER -> <<>>
(* std::io::Read for CowBytes is not part of the statement of C20 (it names accessors, comparisons, hash
   and the positional operations).  It is observed all the same: the bytes handed out must be the
   prefix and both variants must agree; whether the value was consumed (what Read on a plain &[u8]
   does) is not demanded here but reported as a NOTE by the trace specification.                  *)
ReadNotConsumed(op, X, p, e) == op = "read" /\ p > 0 /\ X # <<>> /\ e.out = "ok" /\ e.self = X
CowOpPost(op, X, p, e) ==      \* e = [out, self, ret]
  IF op = "read"
  THEN e.out = "ok" /\ e.ret = CowRet(op, X, p) /\ e.self \in {CowSelf(op, X, p), X}
  ELSE IF CowInRange(op, X, p)
  THEN e.out = "ok" /\ e.self = CowSelf(op, X, p) /\ e.ret = CowRet(op, X, p)
  ELSE e.out = "panic" \/ (e.out = "ok" /\ e.self = X)

RECURSIVE Strings(_)
Strings(n) == IF n = 0 THEN {<<>>}
              ELSE Strings(n - 1) \cup {Append(s, b) : s \in Strings(n - 1), b \in CowAlphabet}

(* ---------------------------------------------------------------------- *)
(* the model: all operation sequences                                     *)
(* ---------------------------------------------------------------------- *)
VARIABLES init,   \* the initial chunk list of this behaviour
          c,      \* the chunk list
          n,      \* the cached length
          hist,   \* history variable: the operations applied so far
          last    \* the last step: [o, b, bn, ret] (operation, value before)

vars == <<init, c, n, hist, last>>

(* initial chains: every shape with 0..MaxChunks chunks of the given sizes; the bytes are 1, 2, 3, ...
   by position, so any misplaced, lost or duplicated byte changes the flattened sequence           *)
RECURSIVE Shapes(_)
Shapes(k) == IF k = 0 THEN {<<>>} ELSE Shapes(k - 1) \cup {Append(s, z) : s \in Shapes(k - 1), z \in Sizes}

RECURSIVE Fill(_, _)
Fill(shape, from) == IF shape = <<>> THEN <<>>
                     ELSE <<[j \in 1 .. Head(shape) |-> from + j]>> \o Fill(Tail(shape), from + Head(shape))

InitChains == {Fill(s, 0) : s \in Shapes(MaxChunks)}

(* arguments at, inside and one past every boundary.  With chunk sizes <= 3 "every byte offset from 0
   to one past the end" is exactly: every chunk boundary, every offset inside a chunk, and end + 1. *)
OpsPush(cc)   == {Op("push", 0, x) : x \in Segs}
OpsInsert(cc) == {Op("insert", i, x) : i \in 0 .. Len(cc) + 1, x \in Segs}
OpsPop(cc)    == {Op("pop", 0, <<>>)}
OpsClear(cc)  == {Op("clear", 0, <<>>)}
OpsRemove(cc) == {Op("remove", i, <<>>) : i \in 0 .. Len(cc)}
OpsBytes(nm, cc) == {Op(nm, at, <<>>) : at \in 0 .. SumLen(cc) + 1}
OpsGet(cc)    == {Op(nm, 0, <<>>) : nm \in GetOps}

NoLast == [o |-> Op("none", 0, <<>>), b |-> <<>>, bn |-> 0, ret |-> Unit]

Init == /\ init \in InitChains
        /\ c = init
        /\ n = SumLen(init)
        /\ hist = <<>>
        /\ last = NoLast

Step(o) ==
  LET r == Apply(o, c, n) IN
  /\ c' = r.c
  /\ n' = r.n
  /\ hist' = Append(hist, o)
  /\ last' = [o |-> o, b |-> c, bn |-> n, ret |-> r.ret]
  /\ UNCHANGED init

(* A behaviour has at most Depth operations.  With StopAtOOR it also ends with its first out-of-range
   operation: on the real code that call panics (the replay of the sequence stops there) or leaves the
   value exactly unchanged (then the continuation repeats what the sequence without that call shows).
   The configurations with StopAtOOR = FALSE go on after such a call.                              *)
LastOutOfRange == last.o.op # "none" /\ ~InRangeFor(last.o, last.b)
Ended == Len(hist) = Depth \/ (StopAtOOR /\ LastOutOfRange)
More == ~Ended

APush     == More /\ \E o \in OpsPush(c) : Step(o)
AInsert   == More /\ \E o \in OpsInsert(c) : Step(o)
APop      == More /\ \E o \in OpsPop(c) : Step(o)
ARemove   == More /\ \E o \in OpsRemove(c) : Step(o)
ASplitTo  == More /\ \E o \in OpsBytes("split_to", c) : Step(o)
ASplitOff == More /\ \E o \in OpsBytes("split_off", c) : Step(o)
ATruncate == More /\ \E o \in OpsBytes("truncate", c) : Step(o)
AAdvance  == More /\ \E o \in OpsBytes("advance", c) : Step(o)
AClear    == More /\ \E o \in OpsClear(c) : Step(o)
ACopyToBytes == More /\ \E o \in OpsBytes("copy_to_bytes", c) : Step(o)
ACopyToSlice == More /\ \E o \in OpsBytes("copy_to_slice", c) : Step(o)
AGet      == More /\ \E o \in OpsGet(c) : Step(o)

Next == \/ APush \/ AInsert \/ APop \/ ARemove \/ ASplitTo \/ ASplitOff \/ ATruncate \/ AAdvance \/ AClear
        \/ ACopyToBytes \/ ACopyToSlice \/ AGet

Spec == Init /\ [][Next]_vars

(* ---------------------------------------------------------------------- *)
(* invariants                                                             *)
(* ---------------------------------------------------------------------- *)
NoEmptyChunk == NoEmpty(c) /\ (last.ret.k = "chain" => NoEmpty(last.ret.c.ch))
LenIsSum == n = SumLen(c) /\ n = Len(Flatten(c)) /\ (last.ret.k = "chain" => last.ret.c.len = SumLen(last.ret.c.ch))

(* the canonical behaviour satisfies the relational postcondition of the property *)
ApplyMeetsPost ==
  last.o.op # "none" => Post(last.o, ObsOf(last.b, last.bn), ObsOf(c, n), last.ret, "ok")

(* a panic is always accepted for an out-of-range argument and never for an in-range one *)
PanicOnlyOutOfRange ==
  last.o.op # "none" =>
     (Post(last.o, ObsOf(last.b, last.bn), NoObs, Unit, "panic") <=> ~InRangeFor(last.o, last.b))

(* Emission of the cases.  One JSON line per maximal behaviour (every shorter prefix is a prefix of
   one of them).                                                                                  *)
Emit == Ended => PrintT(<<"SEQ", ToJson([init |-> init, ops |-> hist])>>)

(* strings of the CowBytes cases *)
CowStrings == Strings(CowMaxLen)
ASSUME PrintT(<<"COWSET", ToJson([strings |-> CowStrings])>>)
=============================================================================
