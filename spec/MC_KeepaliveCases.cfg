SPECIFICATION Spec
CONSTANTS
  Is = {0, 1, 2, 3, 4}
  Ts = {0, 1, 2, 3, 4, 5, 6, 8}
  Ds = {0, 1, 2, 3, 4, 5, 6}
  MaxN = 3
  Hz = 24
INVARIANT Emit
CHECK_DEADLOCK FALSE
