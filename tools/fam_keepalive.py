#!/usr/bin/env python3
"""C16 keepalive: Keepalive.tla (timed design model, TLC) + keepalive_sim (real task on tokio's paused
clock) + KeepaliveTrace.tla (TLC validates every virtual-time trace against the clauses of C16)."""
import json, os, re, shutil, tempfile, time

import vlib
from vlib import log, ToolError

PROP = "C16"


def _cases_from_tlc(cfg):
    r = vlib.model_check("MC_KeepaliveCases", cfg, workers=4, timeout=600, coverage=False)
    cases = []
    for m in re.finditer(r'<<"CASE", "(.*)">>', r["out"]):
        cases.append(json.loads(m.group(1).encode().decode("unicode_escape")))
    if not cases:
        raise ToolError("TLC emitted no keepalive cases")
    return cases, r


def _validate_one(trace):
    r = vlib.validate_once("KeepaliveTrace", "KeepaliveTrace", trace, timeout=1500, raw=True)
    out = r["out"]
    bad = []
    for m in re.finditer(r'<<"BAD", "(.*)">>', out):
        bad.append(json.loads(m.group(1).encode().decode("unicode_escape")))
    ml = re.search(r'<<"LINES", (\d+)>>', out)
    if not ml:
        log(out[-3000:])
        raise ToolError("KeepaliveTrace did not run to the end")
    return bad, int(ml.group(1)), r["states"]


CHUNK_CASES = 4000


def _validate(trace):
    """TLC validates the trace; a large batch is cut at case boundaries into chunks that are validated side by side
    (the line numbers in the rejection records are made global again)."""
    cases = _split_cases(trace)
    if len(cases) <= CHUNK_CASES:
        return _validate_one(trace)
    from concurrent.futures import ThreadPoolExecutor
    parts, base, off = [], 0, []
    for k in range(0, len(cases), CHUNK_CASES):
        path = f"{trace}.part{k // CHUNK_CASES}"
        n = 0
        with open(path, "w") as f:
            for c in cases[k:k + CHUNK_CASES]:
                f.writelines(c)
                n += len(c)
        parts.append(path)
        off.append(base)
        base += n
    bad, lines, states = [], 0, 0
    with ThreadPoolExecutor(max_workers=6) as ex:
        for o, (b, n, st) in zip(off, ex.map(_validate_one, parts)):
            for rec in b:
                if isinstance(rec, list) and rec and isinstance(rec[0], int):
                    rec[0] += o
            bad += b
            lines += n
            states += st
    return bad, lines, states


def _split_cases(path):
    cases, cur = [], None
    for l in open(path):
        if '"ev":"case"' in l:
            cur = []
            cases.append(cur)
        cur.append(l)
    return cases


def check(prop, tier, seed, replay):
    t0 = time.time()
    d = vlib.build_harness(["keepalive_sim"])
    sim = os.path.join(d, "keepalive_sim")
    work = tempfile.mkdtemp(prefix="C16_", dir=vlib.WORK)
    try:
        mc_runs, states, transitions = [], 0, 0
        batches = []
        if replay:
            # a replay file is a trace; its `case` lines are the schedule
            cases = [json.loads(l) for l in open(replay) if '"ev":"case"' in l]
            cj = os.path.join(work, "replay_cases.json")
            json.dump([{k: c[k] for k in ("I", "T", "order", "delays", "horizon")} for c in cases], open(cj, "w"))
            out = os.path.join(work, "replay.ndjson")
            rc, o = vlib.run([sim, "cases", cj, out], timeout=600)
            if rc != 0:
                raise ToolError("keepalive_sim failed: " + o[-400:])
            batches.append(("replay", out))
        else:
            # 1. design level: the tick-based detector against every pong history of the bounded model
            cfg = "MC_Keepalive_q" if tier == "quick" else "MC_Keepalive"
            r = vlib.model_check("Keepalive", cfg, workers=8, timeout=2400)
            if not r["ok"]:
                log(r["out"][-2500:])
                raise ToolError(f"{cfg}: design-level violation of {r['violated']} (triage the specification)")
            for a in ("Tick", "Pong"):
                if r["coverage"].get(a, (0, 0))[1] == 0:
                    raise ToolError(f"vacuous run: action {a} never taken")
            states += r["distinct"]; transitions += r["states"]
            mc_runs.append(dict(config=cfg, distinct_states=r["distinct"], states_generated=r["states"], wall_s=round(r["wall"], 1)))
            log(f"[mc] {cfg}: {r['distinct']} distinct states, {r['states']} generated, {r['wall']:.1f}s; C16 clauses hold on the design "
                f"(false time-outs only when I does not divide T, recorded as finding F12)")
            # 2. cases enumerated by TLC + seeded random ones, executed on the real task (virtual time)
            cases, rc_ = _cases_from_tlc("MC_KeepaliveCases_q" if tier == "quick" else "MC_KeepaliveCases")
            states += rc_["distinct"]; transitions += rc_["states"]
            mc_runs.append(dict(config="MC_KeepaliveCases", distinct_states=rc_["distinct"], states_generated=rc_["states"]))
            cj = os.path.join(work, "cases.json")
            json.dump(cases, open(cj, "w"))
            out = os.path.join(work, "cases.ndjson")
            rc, o = vlib.run([sim, "cases", cj, out], timeout=3000)
            if rc != 0:
                raise ToolError("keepalive_sim failed: " + o[-400:])
            batches.append(("tlc-cases", out))
            out2 = os.path.join(work, "random.ndjson")
            n = 300 if tier == "quick" else 6000
            rc, o = vlib.run([sim, "random", str(seed), str(n), out2], timeout=3000)
            if rc != 0:
                raise ToolError("keepalive_sim random failed: " + o[-400:])
            batches.append(("random", out2))
        # 2b. the keepalive inside the full multiplexor (PenguinMux / MuxTrace): see families.ka_leg
        mux_leg = None
        if not replay:
            import families
            mc2, ntr, nacc, nexits, kfails = families.ka_leg(tier, int(seed), work)
            mc_runs += mc2
            mux_leg = dict(traces=ntr, accepted=nacc, traces_with_keepalive_expiry=nexits, rejected_speaking_about_C16=len(kfails))
        else:
            kfails = []
        # 3. TLC validates every trace
        known = [k for k in vlib.load_known() if k.get("property") == PROP and k.get("status") == "open"]
        known_sigs = {k.get("sig"): k for k in known}
        violations, known_hits = [], {}
        total_cases = accepted = nontrivial = 0
        samples = []
        for name, path in batches:
            bad, lines, st = _validate(path)
            states += st
            cl = _split_cases(path)
            total_cases += len(cl)
            # map rejected line numbers to cases
            starts, acc = [], 1
            for c in cl:
                starts.append(acc); acc += len(c)
            badcases = {}
            for b in bad:
                ln, why = b[0], b[1]
                idx = max(i for i, s0 in enumerate(starts) if s0 <= ln)
                badcases.setdefault(idx, why)
            for i, c in enumerate(cl):
                if any('"ev":"exit"' in l or '"ev":"pong"' in l for l in c):
                    nontrivial += 1
                    if len(samples) < 3:
                        samples.append([json.loads(x) for x in c[:10]])
                if i in badcases:
                    why = badcases[i]
                    sig = why.split(".")[0] if why.startswith("F12") else why
                    if why.startswith("F12") and "F12" in known_sigs:
                        known_hits["F12"] = known_hits.get("F12", 0) + 1
                        continue
                    p = vlib.save_replay(PROP, sig.replace(":", "_"), c, note=f"clause violated: {why}")
                    violations.append((p, why))
                else:
                    accepted += 1
            log(f"[trace] {name}: {len(cl)} cases, {lines} events, {len(bad)} rejected events")
        for mode, lines, desc in kfails:
            p = vlib.save_replay(PROP, mode, lines, note=desc)
            violations.append((p, "mux-level trace rejected by MuxTrace: " + desc[:300]))
        for sig, n in known_hits.items():
            print(f"KNOWN-FINDING: property={PROP} {known_sigs[sig]['what']} ({n} cases in this run)")
        wall = time.time() - t0
        if not replay:
            vlib.write_evidence(PROP, tier, seed, dict(
                states=states, transitions=transitions, traces_validated_against_impl=accepted,
                evaluations=total_cases, distinct_nontrivial=nontrivial,
                rule="a case counts when at least one Pong was delivered or the task exited (i.e. the detector had something to decide)",
                samples=samples or [dict(note="none")], model_checking_runs=mc_runs,
                known_finding_cases=known_hits, mux_level_leg=mux_leg,
                explanation="Keepalive.tla: TLC checks the clauses of C16 on the tick-based detector for every (I,T) of the grid and every pong "
                            "history within the horizon; keepalive_sim runs the real connection task on tokio's paused clock (exact virtual time) "
                            "for TLC-enumerated and random cases, and KeepaliveTrace.tla evaluates the same clause definitions on every trace"),
                wall, len(violations), assumptions=[
                    "virtual time (tokio paused clock): bounds are exact, whole seconds",
                    "Pongs answer Pings in order (FIFO link); events of one instant may be processed in either order",
                    "the transport of the harness stays silent and open after a timeout (worst case for termination)"])
        for p, why in violations[:5]:
            log(f"clause violated: {why}")
            print(f"VIOLATION property={PROP} replay={p}")
        if violations:
            return 1
        log(f"{PROP} held on everything explored ({wall:.0f}s)")
        return 0
    finally:
        shutil.rmtree(work, ignore_errors=True)
