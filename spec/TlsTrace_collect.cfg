\* C17 trace validation, collecting: every unmatched line is reported with its signature
SPECIFICATION Spec
CONSTANTS
  Mode = "swap"
  Collect = TRUE
CONSTRAINT Track
POSTCONDITION Accepted
CHECK_DEADLOCK FALSE
