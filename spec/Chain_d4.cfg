SPECIFICATION Spec
CONSTANTS
  MaxChunks = 2
  Sizes = {1, 2}
  Segs <- SegsQuick
  Depth = 4
  Mode = "fixed"
  StopAtOOR = TRUE
  CowAlphabet = {}
  CowMaxLen = 0
INVARIANTS ApplyMeetsPost NoEmptyChunk LenIsSum PanicOnlyOutOfRange Emit
CHECK_DEADLOCK FALSE
