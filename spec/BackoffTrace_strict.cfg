\* C19 part A trace validation (collecting); a panic where the next delay is not representable: strict
SPECIFICATION Spec
CONSTANTS
  Collect = TRUE
  OverflowMode = "strict"
CONSTRAINT Track
POSTCONDITION Accepted
CHECK_DEADLOCK FALSE
