\* C17 negative control: a reload that keeps the client CA it read first ("staleca": the bundle was replaced in place, the
\* reload does not read it again), real-server rotation scripts: after rotation + reload a client of the retired CA is
\* admitted; TLC must find Authenticated violated
SPECIFICATION Spec
CONSTANTS
  Mode = "staleca"
  MaxConn = 2
  MaxReload = 2
  MaxUse = 2
  Mtls = {}
  RMaxConn = 2
  RMaxReload = 1
  RMaxUse = 1
  RealMtls = {}
  RotConn = 2
  RotReload = 1
  RotRotate = 1
  RotUse = 1
  RRotConn = 2
  RRotReload = 1
  RRotRotate = 1
  RRotUse = 1
  CliConn = 2
  CliRotate = 1
  FConn = 2
  FReload = 1
  FBotch = 1
  FUse = 1
  FailMtls = {}
  ResConn = 0
  ResReload = 0
  ResRotate = 0
  ResUse = 0
  ResMtls = {}
  RResConn = 0
  RResReload = 0
  RResRotate = 0
  RResUse = 0
  RResMtls = {}
  Extra = {"rrot"}
INVARIANTS TypeOK Undisturbed Fresh ConfigKept Authenticated
CHECK_DEADLOCK FALSE
