\* WsAdapter quick: bounded-exhaustive enumeration of the scripts (see MC_WsAdapter.tla)
SPECIFICATION SpecEnum
CONSTANTS
  EofNoneOk = TRUE
  Depth = 3
  FeedData <- FeedDataQ
  FeedCtl <- FeedCtlQ
  CloseVars = {0, 2}
  Frags <- FragsQ
  Bads = {"opcode"}
  Ends = {"eof", "ioerr"}
  SendLens = {1, 65536}
  SendKinds = {"ping", "pong", "close"}
  Wfail = TRUE
INVARIANTS Emit
CHECK_DEADLOCK FALSE
