------------------------------- MODULE TlsAuth -------------------------------
(***************************************************************************)
(* Property C17: TLS peers are authenticated exactly as configured.        *)
(*                                                                         *)
(* This is a THIN use of TLA+: (a) a decision table and (b) a small state  *)
(* machine, both written from the text of the property (not from the code) *)
(* and used by TLC as the reference decision procedure for handshakes run  *)
(* on the real code (harness_app/src/bin/tls_matrix.rs, validated by       *)
(* spec/TlsTrace.tla).  The cryptography itself (signatures, chain         *)
(* building, name matching) is trusted to rustls / webpki / rcgen.         *)
(*                                                                         *)
(* (a) The matrix.  The client is given ONE set of roots: the CA called    *)
(*     "trusted".  A server with a client CA is given that same CA.        *)
(*                                                                         *)
(*       serverCert      who issued the certificate the server presents    *)
(*       nameMatches     the certificate is valid for the requested name   *)
(*       skipVerify      the client was explicitly told to skip            *)
(*                       verification                                      *)
(*       clientCert      what the client presents if asked                 *)
(*       serverClientCA  the server was configured with a client CA        *)
(*                                                                         *)
(*     "A client reaches a wss server only if the server's certificate     *)
(*      chain validates against the roots the client was given and matches *)
(*      the requested server name, unless the client was explicitly told   *)
(*      to skip verification, in which case any certificate is accepted."  *)
(*                                                     -> ClientAccepts    *)
(*     "A server configured with a client CA completes the handshake only  *)
(*      with clients presenting a certificate issued under that CA, a      *)
(*      server without one never asks for a certificate"                   *)
(*                                  -> ServerAccepts, ServerAsksForCert    *)
(*                                                                         *)
(*     When both sides would reject, the property does not say which one   *)
(*     is observed to do so (it depends on the order of the handshake      *)
(*     messages of the protocol version): the expectation is the SET       *)
(*     {"clientRejects", "serverRejects"}.                                 *)
(*                                                                         *)
(* (b) Identity reload.  "replacing the server identity at run time        *)
(*     changes what later handshakes see without disturbing established    *)
(*     connections" -> the machine Connect / Reload / Use(c) below with    *)
(*     the invariants Fresh and Undisturbed.  Mode = "swap" is what the    *)
(*     property demands; the other modes are negative controls (models of  *)
(*     wrong implementations on which TLC must find the invariants         *)
(*     violated, so that the invariants are known not to be vacuous).      *)
(*     "TLS peers are authenticated exactly as configured" holds across a  *)
(*     reload as well: the reload replaces certificate and key, not the    *)
(*     client CA -> ConfigKept, Authenticated (negative control "dropca":  *)
(*     a reload that forgets the client CA).                               *)
(***************************************************************************)
EXTENDS Naturals, Sequences, FiniteSets

(* ------------------------------ (a) decision table ------------------------------ *)
ServerCerts == {"trustedCA", "otherCA", "selfSigned"}
ClientCerts == {"none", "trustedCA", "otherCA"}
ClientCAs   == {"configured", "none"}
Outcomes    == {"ok", "clientRejects", "serverRejects"}

Cases == [serverCert : ServerCerts, nameMatches : BOOLEAN, skipVerify : BOOLEAN,
          clientCert : ClientCerts, serverClientCA : ClientCAs]

\* the client is satisfied with the server
ClientAccepts(k) == k.skipVerify \/ (k.serverCert = "trustedCA" /\ k.nameMatches)
\* the server is satisfied with the client
ServerAccepts(k) == k.serverClientCA = "none" \/ k.clientCert = "trustedCA"
\* a CertificateRequest is sent
ServerAsksForCert(k) == k.serverClientCA = "configured"

Expected(k) ==
  CASE ClientAccepts(k) /\ ServerAccepts(k)   -> {"ok"}
    [] ~ClientAccepts(k) /\ ServerAccepts(k)  -> {"clientRejects"}
    [] ClientAccepts(k) /\ ~ServerAccepts(k)  -> {"serverRejects"}
    [] OTHER                                  -> {"clientRejects", "serverRejects"}

\* the table in the form of the task statement
Outcome(serverCert, nameMatches, skipVerify, clientCert, serverClientCA) ==
  Expected([serverCert |-> serverCert, nameMatches |-> nameMatches, skipVerify |-> skipVerify,
            clientCert |-> clientCert, serverClientCA |-> serverClientCA])

\* ---- laws of the table (evaluated once by TLC when the module is loaded) ----
ASSUME FullMatrix == Cardinality(Cases) = 72
ASSUME Total == \A k \in Cases : Expected(k) # {} /\ Expected(k) \subseteq Outcomes
\* "reaches only if": success is never one of several allowed outcomes
ASSUME OkIsExact == \A k \in Cases : "ok" \in Expected(k) => Expected(k) = {"ok"}
\* "in which case any certificate is accepted"
ASSUME SkipAcceptsAny == \A k \in Cases : k.skipVerify => "clientRejects" \notin Expected(k)
\* without skip-verify only the trusted chain with the right name gets through
ASSUME VerifyIsStrict ==
  \A k \in Cases : (~k.skipVerify /\ "ok" \in Expected(k)) => (k.serverCert = "trustedCA" /\ k.nameMatches)
\* "a server without one never asks for a certificate": what the client holds is irrelevant
ASSUME NoCaIgnoresClientCert ==
  \A k \in Cases : k.serverClientCA = "none" =>
      \A cc \in ClientCerts : Expected([k EXCEPT !.clientCert = cc]) = Expected(k)
ASSUME CaIsStrict ==
  \A k \in Cases : (k.serverClientCA = "configured" /\ "ok" \in Expected(k)) => k.clientCert = "trustedCA"
\* 42 of 72 satisfy the client, 4 of 6 (clientCert, serverClientCA) pairs satisfy the server
ASSUME Counts ==
  /\ Cardinality({k \in Cases : Expected(k) = {"ok"}}) = 28
  /\ Cardinality({k \in Cases : Expected(k) = {"clientRejects"}}) = 20
  /\ Cardinality({k \in Cases : Expected(k) = {"serverRejects"}}) = 14
  /\ Cardinality({k \in Cases : Expected(k) = {"clientRejects", "serverRejects"}}) = 10

(* ------------------------------ (b) identity reload ------------------------------ *)
(* The reload replaces the server's certificate and key ONLY.  Whether the server demands client          *)
(* certificates (its client CA, --tls-ca) is part of its configuration and a reload keeps it: "peers are   *)
(* authenticated exactly as configured", before and after a reload.  The machine therefore carries         *)
(*   wantCA   the client CA the operator configured (never changes)                                        *)
(*   liveCA   the client CA of the identity a handshake that starts now is served with                     *)
(* and a handshake of the machine is a cell of the matrix above: the identities are issued by the trusted  *)
(* CA for the requested name, the client verifies, presents `cc` and the server's client CA is liveCA.     *)
CONSTANT Mode       \* "swap" (the property) | "stale" | "inplace" | "disconnect" | "dropca" (negative controls)
ASSUME Mode \in {"swap", "stale", "inplace", "disconnect", "dropca"}

VARIABLES
  identityVersion,  \* the identity the operator installed last (number of reloads so far)
  live,             \* the identity a handshake that starts now is served with
  conns,            \* established connections: born = identityVersion when it handshook, ver = the identity it
                    \* handshook with, cfg = the identity its session refers to now, alive, cc = the client
                    \* certificate it presented (would present if asked)
  wantCA,           \* "configured" | "none": the server's client CA as configured by the operator
  liveCA            \* the client CA in force for a handshake that starts now

mvars == <<identityVersion, live, conns, wantCA, liveCA>>

CAOf(mtls) == IF mtls = TRUE THEN "configured" ELSE "none"

MInitWith(ca) == identityVersion = 0 /\ live = 0 /\ conns = <<>> /\ wantCA = ca /\ liveCA = ca
MInit == MInitWith("none")

\* a handshake of the reload machine as a cell of the matrix
HandshakeCell(cc, ca) == [serverCert |-> "trustedCA", nameMatches |-> TRUE, skipVerify |-> FALSE,
                          clientCert |-> cc, serverClientCA |-> ca]
\* the certificate a client that was set up for this server presents
RightCert == IF wantCA = "configured" THEN "trustedCA" ELSE "none"
\* what a handshake presenting cc that starts now must end in (a set, as in the table), and whether it is established
HandshakeOutcome(cc) == Expected(HandshakeCell(cc, liveCA))
Admitted(cc) == HandshakeOutcome(cc) = {"ok"}

\* a client presenting cc connects: established iff the table says "ok"; a refused handshake leaves no trace
ConnectAs(cc) ==
  /\ cc \in ClientCerts
  /\ conns' = IF Admitted(cc)
              THEN Append(conns, [born |-> identityVersion, ver |-> live, cfg |-> live, alive |-> TRUE, cc |-> cc])
              ELSE conns
  /\ UNCHANGED <<identityVersion, live, wantCA, liveCA>>

\* the client that was set up for this server connects (always admitted when the configuration is kept)
Connect == ConnectAs(RightCert)

Reload ==
  /\ identityVersion' = identityVersion + 1
  /\ live' = IF Mode = "stale" THEN live ELSE identityVersion + 1
  /\ conns' = CASE Mode = "inplace"    -> [c \in DOMAIN conns |-> [conns[c] EXCEPT !.cfg = identityVersion + 1]]
                [] Mode = "disconnect" -> [c \in DOMAIN conns |-> [conns[c] EXCEPT !.alive = FALSE]]
                [] OTHER               -> conns
  \* certificate and key are replaced, the rest of the configuration is kept
  /\ liveCA' = IF Mode = "dropca" THEN "none" ELSE liveCA
  /\ UNCHANGED wantCA

\* using an established connection changes nothing; what is observed: Works(c), Sees(c)
Use(c) == c \in DOMAIN conns /\ UNCHANGED mvars
Works(c) == conns[c].alive
Sees(c) == conns[c].cfg

\* a connection established before a reload keeps working and keeps seeing the old identity
Undisturbed == \A c \in DOMAIN conns : Works(c) /\ Sees(c) = conns[c].ver
\* a handshake after the reload sees the new identity
Fresh == \A c \in DOMAIN conns : conns[c].ver = conns[c].born
\* new handshakes are authenticated as configured, whatever number of reloads happened
ConfigKept == liveCA = wantCA
\* every established connection is one the CONFIGURATION admits (observable form of ConfigKept)
Authenticated == \A c \in DOMAIN conns : ServerAccepts(HandshakeCell(conns[c].cc, wantCA))

MTypeOK ==
  /\ identityVersion \in Nat /\ live \in 0 .. identityVersion
  /\ wantCA \in ClientCAs /\ liveCA \in ClientCAs
  /\ \A c \in DOMAIN conns : /\ conns[c].ver \in 0 .. identityVersion /\ conns[c].born \in 0 .. identityVersion
                             /\ conns[c].cc \in ClientCerts
=============================================================================
