\* C01: negative control: a relay with the fault `u_wrongtarget` must violate U_Target
SPECIFICATION Spec
CONSTANTS
  MaxW = 1
  Sizes = {0}
  Fault = "u_wrongtarget"
  Proto = "udp"
  Gen = FALSE
  MaxK = 2
INVARIANTS U_Target
