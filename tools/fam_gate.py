#!/usr/bin/env python3
"""C14: the server opens a tunnel only for fully valid, authenticated upgrade requests.

spec/Upgrade.tla        the decision table of the gate, written from the property text / PROTOCOL.md / RFC 6455:
                        part 1 over abstract requests (method x path x a variant per header x extension x
                        configuration), part 2 the same decision over the concrete octets of a request
spec/MC_Upgrade.tla     TLC checks the sanity theorems of the table (per case and, through the verdict vectors,
                        over the full matrix) and enumerates the cases: the valid request and every request that
                        deviates from it in at most MaxDev fields (2 = all pairs: quick, 3: thorough), under each
                        of the four configurations (thorough: a second run with the fallback proxying to a
                        backend); single header deviations with every member of the harness's pools of concrete
                        values; one `CASE` line per distinct state
harness_app gate        builds the concrete http::Request of every case, calls rusty_penguin_lib::server::State as
                        a hyper Service in-process, and calls it again with the path replaced by an unknown path
                        (the reference fallback response); plus seeded random cases over the full matrix with
                        random PSKs and keys
spec/UpgradeTrace.tla   TLC validates every logged line: decides the request from its octets, demands agreement
                        with the abstract table, and compares the observed response (101 with protocol and accept
                        hash / identical to the unknown-path twin); rejected lines come back with a signature

A rejected line whose signature is an `open` entry of KNOWN_FINDINGS.json (`"property":"C14","sig":...`) is printed
as KNOWN-FINDING and does not fail the check; any other signature is a VIOLATION.
"""
import collections, json, os, re, shutil, sys, tempfile, time

import vlib
from vlib import log, ToolError

TIERS = {
    # model-checking configurations, random cases per batch, batches (fallback = 404 page), batches with the echo
    # backend, cases per harness/TLC run.  The backend variant (real sockets on 127.0.0.1): a small random batch in quick, TLC cases + large batches in thorough.
    "quick": dict(cfgs=["MC_Upgrade_q"], random=3000, batches=1, echo_batches=1, echo_random=800, chunk=20000),
    "thorough": dict(cfgs=["MC_Upgrade", "MC_Upgrade_b"], random=40000, batches=5, echo_batches=2, echo_random=40000, chunk=20000),
}
CASE_RE = re.compile(r'^<<"CASE", "(.*)">>$')
BAD_RE = re.compile(r'^<<"BAD", (\d+), "([^"]*)", "(.*)">>$')
MAX_REPLAY_LINES = 40
HEADER_NAMES = dict(conn="Connection", upgrade="Upgrade", version="Sec-WebSocket-Version",
                    proto="Sec-WebSocket-Protocol", key="Sec-WebSocket-Key", psk="X-Penguin-PSK")
ORDER = ("conn", "upgrade", "version", "proto", "key", "psk")


def _unq(s):
    return json.loads(s.encode().decode("unicode_escape"))


def enumerate_cases(cfg):
    """The model-checking run: returns (cases, stats)."""
    r = vlib.model_check("MC_Upgrade", cfg, workers=1, timeout=1500, coverage=False)
    if not r["ok"]:
        log(r["out"][-3000:])
        raise ToolError(f"the decision table violates its own theorem {r['violated']} in {cfg} (triage spec/Upgrade.tla)")
    cases = []
    for line in r["out"].split("\n"):
        m = CASE_RE.match(line.strip())
        if m:
            cases.append(_unq(m.group(1)))
    if len(cases) != r["distinct"]:
        raise ToolError(f"{len(cases)} CASE lines for {r['distinct']} distinct states")
    by = collections.Counter(c["exp"] for c in cases)
    for need in ("101", "fallback", "either", "health", "version"):
        if by[need] == 0:
            raise ToolError(f"vacuous enumeration: no case with expectation {need}")
    ndev = collections.Counter(c["ndev"] for c in cases)
    return cases, dict(distinct=r["distinct"], generated=r["states"], wall=r["wall"], by=by, ndev=ndev)


def run_harness(bin_path, args):
    rc, o = vlib.run([bin_path] + args, timeout=1800)
    if rc != 0:
        log(o[-2000:])
        raise ToolError("gate failed: " + " ".join(args[:2]))


def read_lines(path):
    with open(path) as f:
        return f.readlines()


def validate(path):
    """One TLC run over a log. Returns (n_lines, bad, states) with bad = [(line_no, sig, expected)]."""
    r = vlib.validate_once("UpgradeTrace", "UpgradeTrace_collect", path, timeout=1500, xmx="8g")
    if r["accepted"]:
        m = re.search(r'<<"ACCEPTED lines", (\d+)>>', r["out"])
        return (int(m.group(1)) if m else 0), [], r["states"]
    bad = []
    for line in r["out"].split("\n"):
        m = BAD_RE.match(line.strip())
        if m:
            try:
                exp = _unq(m.group(3))
            except Exception:
                exp = None
            bad.append((int(m.group(1)), m.group(2), exp))
    m = re.search(r'<<"REJECTED at line", (\d+), "of", (\d+)>>', r["out"])
    total = int(m.group(2)) if m else 0
    mc = re.search(r'<<"BADCOUNT", (\d+)>>', r["out"])
    if not bad or not mc or int(mc.group(1)) != len(bad):
        log(r["out"][-3000:])
        raise ToolError("trace validation ended without a verdict for " + path)
    return total, bad, r["states"]


REDUCIBLE = ("refused_valid", "refused_valid_distinguishable", "accepted_bad")


def reduce_signatures(rejected):
    """TLC names every failed condition (accepted_bad:conn+version) or every non-exact field (refused_valid:
    conn=case+psk=near) of a rejected line.  One defect then shows up under many combinations; group each line under
    the smallest combination that was itself rejected and that it contains (pure grouping: the verdicts are TLC's)."""
    sets = collections.defaultdict(set)
    for sig in rejected:
        kind, _, atoms = sig.partition(":")
        if kind in REDUCIBLE:
            sets[kind].add(frozenset(atoms.split("+")))
    out = collections.defaultdict(list)
    for sig, items in rejected.items():
        kind, _, atoms = sig.partition(":")
        if kind in REDUCIBLE:
            mine = frozenset(atoms.split("+"))
            subs = sorted((x for x in sets[kind] if x <= mine), key=lambda x: (len(x), sorted(x)))
            order = atoms.split("+")
            sig = kind + ":" + "+".join(a for a in order if a in subs[0])
        out[sig] += items
    return out


def txt(octets):
    return bytes(octets).decode("latin-1").encode("unicode_escape").decode()


def unhex(h):
    try:
        return bytes.fromhex(h).decode("latin-1").encode("unicode_escape").decode()
    except Exception:
        return h


def describe(rec, exp=None):
    s = rec.get("sent", {})
    q = ("?" + s["query"]) if s.get("query") else ""
    hdrs = []
    for h in ORDER:
        vals = s.get("h", {}).get(h, [])
        hdrs += [f"{HEADER_NAMES[h]}: {txt(v)}" for v in vals] or [f"(no {HEADER_NAMES[h]})"]
    cfg = rec.get("cfg", {})
    pskc = s.get("psk_cfg") or []
    conf = f"psk={'`' + txt(pskc[0]) + '`' if pskc else 'none'} obfs={'on' if cfg.get('obfs') else 'off'} backend=none"
    variants = ",".join(f"{h}={rec['req']['h'][h]}" for h in ORDER if rec["req"]["h"][h] != "exact")
    tw = rec.get("twin", {})
    got = f"{rec.get('res')} {rec.get('status')} {json.dumps(rec.get('headers'))} body=`{unhex(rec.get('body', ''))}`"
    ref = f"{tw.get('res')} {tw.get('status')} {json.dumps(tw.get('headers'))} body=`{unhex(tw.get('body', ''))}`"
    want = ""
    if exp:
        if "expected" in exp:
            no = [k for k, v in sorted(exp.get("verdicts", {}).items()) if v == "no"]
            ei = [k for k, v in sorted(exp.get("verdicts", {}).items()) if v == "either"]
            want = f"   table: {exp['expected']} (conditions failed: {no or '-'}, undecided: {ei or '-'})"
        else:
            want = f"   table: {json.dumps(exp)[:300]}"
    return (f"[{conf}] {s.get('method')} {s.get('path')}{q} ext={s.get('ext')} | " + " | ".join(hdrs) +
            (f" (variants: {variants})" if variants else " (all headers exact)") +
            f"\n      -> {got}\n      unknown path {tw.get('path')} -> {ref}{want}")


def size_of(rec):
    r = rec["req"]
    n = sum(1 for h in ORDER if r["h"][h] != "exact") + (r["method"] != "GET") + (r["path"] != "ws") + (not r["ext"])
    return (n, rec.get("src") != "tlc", rec.get("id", 0))


def klass(rec):
    """observed class of a line, for the evidence (no judgement)"""
    if rec["res"] != "ok":
        return rec["res"]
    if rec["status"] == 101:
        return "101"
    tw = rec["twin"]
    if (rec["status"], rec["headers"], rec["body"]) == (tw["status"], tw["headers"], tw["body"]):
        return "as_unknown_path"
    return f"other_{rec['status']}"


def check(prop, tier, seed, replay):
    if tier not in TIERS:
        raise ToolError(f"unknown tier {tier}")
    T = TIERS[tier]
    t0 = time.time()
    bin_path = os.path.join(vlib.build_harness(["gate"], crate=vlib.HARNESS_APP), "gate")
    t_build = time.time() - t0
    work = tempfile.mkdtemp(prefix=f"{prop}_", dir=vlib.WORK)
    try:
        logs = []  # (name, path)
        mc = None
        exp_of = {}
        cases = []
        t_run = time.time()
        if replay:
            out = os.path.join(work, "replay_log.ndjson")
            run_harness(bin_path, ["cases", os.path.abspath(replay), out])
            logs.append(("replay", out))
        else:
            # 1. model checking: theorems of the table + enumeration of the cases
            mc = dict(distinct=0, generated=0, wall=0.0, by=collections.Counter(), ndev=collections.Counter(), runs=[])
            for cfg in T["cfgs"]:
                cs, m = enumerate_cases(cfg)
                log(f"[mc] {cfg}: {m['distinct']} distinct states (= cases), {m['generated']} generated, "
                    f"{m['wall']:.1f}s, theorems of the table hold")
                log("[mc] cases by expectation: " + ", ".join(f"{k}={n}" for k, n in sorted(m["by"].items())) +
                    "; by number of deviating fields: " + ", ".join(f"{k}:{n}" for k, n in sorted(m["ndev"].items())))
                cases += cs
                mc["runs"].append(dict(config=cfg, distinct_states=m["distinct"], states_generated=m["generated"],
                                       wall_s=round(m["wall"], 1)))
                for k in ("distinct", "generated", "wall"):
                    mc[k] += m[k]
                mc["by"].update(m["by"])
                mc["ndev"].update(m["ndev"])
            # 2. the real gate on the cases and on seeded random ones
            for k in range(0, len(cases), T["chunk"]):
                part = cases[k:k + T["chunk"]]
                cpath = os.path.join(work, f"cases_{k}.ndjson")
                with open(cpath, "w") as f:
                    for i, c in enumerate(part, k + 1):
                        exp_of[i] = c["exp"]
                        f.write(json.dumps(dict(id=i, src="tlc", req=c["req"], cfg=c["cfg"], pick=c["pick"]),
                                           separators=(",", ":")) + "\n")
                out = os.path.join(work, f"cases_log_{k}.ndjson")
                run_harness(bin_path, ["cases", cpath, out])
                got = sum(1 for _ in open(out))
                if got != len(part) + 1:
                    raise ToolError(f"gate logged {got} lines for {len(part)} cases")
                logs.append((f"tlc-cases-{k // T['chunk']}", out))
            for b in range(T["batches"]):
                out = os.path.join(work, f"random_{b}.ndjson")
                run_harness(bin_path, ["random", str(int(seed) * 1000003 + b), str(T["random"]), out])
                logs.append((f"random-{b}", out))
            for b in range(T["echo_batches"]):
                out = os.path.join(work, f"random_echo_{b}.ndjson")
                run_harness(bin_path, ["random", str(int(seed) * 1000003 + 500 + b), str(T["echo_random"]), out, "echo"])
                logs.append((f"random-echo-{b}", out))
        t_run = time.time() - t_run
        # 3. TLC validates every logged line
        t_val = time.time()
        total = accepted = 0
        tlc_states = 0
        rejected = collections.defaultdict(list)  # sig -> [(rec, expected, source)]
        nontrivial = set()
        matrix = collections.Counter()      # (class of the path, observed class)
        undecided = collections.Counter()   # how the code resolves what the table leaves open
        samples = []
        seen_samples = set()
        echo_seen = collections.Counter()   # answers of the unknown-path twin in the backend configuration
        for name, path in logs:
            n, bad, st = validate(path)
            tlc_states += st
            lines = read_lines(path)
            if n != len(lines) or n == 0:
                raise ToolError(f"TLC saw {n} lines of {len(lines)} in {name}")
            ncase = 0
            badset = {b[0] for b in bad}
            for ln, sig, exp in bad:
                if sig.startswith("other:"):
                    raise ToolError(f"{sig}: log line {ln} in {name} is not what the abstract case says "
                                    f"(harness or table defect): {json.dumps(exp)[:600]} {lines[ln - 1][:400]}")
                rejected[sig].append((json.loads(lines[ln - 1]), exp, name))
            for i, text in enumerate(lines, 1):
                rec = json.loads(text)
                if rec["ev"] != "case":
                    continue
                ncase += 1
                k = klass(rec)
                pc = {"/ws": "ws", "/health": "health", "/version": "version"}.get(rec["sent"]["path"], "other")
                matrix[(pc, ("obfs" if rec["cfg"]["obfs"] else "plain") +
                        ("" if rec["cfg"]["backend"] == "none" else "+" + rec["cfg"]["backend"]), k)] += 1
                if rec["cfg"]["backend"] == "echo":
                    echo_seen[(rec["twin"]["status"], len(rec["twin"].get("seen_uri", [])))] += 1
                if i in badset:
                    continue
                if rec.get("src") == "tlc" and exp_of.get(rec["id"]) == "either":
                    r = rec["req"]
                    why = [f"{h}={r['h'][h]}" for h in ORDER if r["h"][h] not in ("exact", "case") and
                           not (h == "psk" and not rec["cfg"]["psk"])]
                    why += ["path=ws_query"] if r["path"] == "ws_query" else []
                    why += ["no_upgrade_extension"] if not r["ext"] else []
                    if size_of(rec)[0] == 1 and len(why) == 1:
                        undecided[(why[0], k)] += 1
                if pc == "ws" or (pc in ("health", "version") and rec["cfg"]["obfs"]):
                    key = json.dumps([rec["sent"], rec["cfg"]["obfs"]], sort_keys=True)
                    nontrivial.add(vlib.trace_hash([key]))
                skey = (k, min(size_of(rec)[0], 1))
                if len(samples) < 6 and rec.get("src") == "tlc" and skey not in seen_samples:
                    seen_samples.add(skey)
                    samples.append(dict(request=describe(rec).split("\n")[0], observed=k, status=rec["status"],
                                        twin_status=rec["twin"]["status"]))
            total += ncase
            accepted += ncase - len(bad)
            log(f"[trace] {name}: {n} lines ({ncase} cases), {n - len(bad)} accepted by TLC, {len(bad)} rejected")
        t_val = time.time() - t_val
        # vacuity guards speak about a run in which everything conformed; with rejected lines in hand the verdict below
        # (a violation with its replay) is what the run has to report, not a tool error
        if not replay and accepted == total:
            if not any(k[2] == "101" for k in matrix) or not any(k[2] == "as_unknown_path" and k[0] == "ws" for k in matrix):
                raise ToolError("vacuous run: the gate never answered 101 or never fell back on /ws")
            if (T["echo_batches"] or any(c["cfg"]["backend"] == "echo" for c in cases)) and \
                    sum(n for (st, seen), n in echo_seen.items() if st == 200 and seen == 1) * 10 < sum(echo_seen.values()) * 8:
                raise ToolError(f"vacuous backend variant: the echo backend was not reached ({dict(echo_seen)})")
        # 4. verdict
        known = {k.get("sig"): k for k in vlib.load_known()
                 if k.get("property") == prop and k.get("status") == "open" and k.get("sig")}
        violations = []
        known_met = []
        rej_summary = {}
        rejected = reduce_signatures(rejected)
        for sig in sorted(rejected):
            items = sorted(rejected[sig], key=lambda x: size_of(x[0]))
            rej_summary[sig] = dict(lines=len(items), smallest=describe(items[0][0], items[0][1]))
            if sig in known:
                known_met.append(sig)
                print(f"KNOWN-FINDING: property={prop} {known[sig]['what']}", flush=True)
                log(f"   [{sig}] {len(items)} rejected lines, smallest: {describe(items[0][0], items[0][1])}")
                continue
            note = [f"property {prop}, signature {sig}: {len(items)} logged lines rejected by TLC (spec/UpgradeTrace.tla)",
                    "smallest rejected lines (request -> what the server answered; the same request on an unknown path; "
                    "table: what spec/Upgrade.tla demands):"]
            seen_desc = []
            for r, e, _ in items:
                d = describe(r, e)
                if d not in seen_desc:
                    seen_desc.append(d)
                if len(seen_desc) >= 12:
                    break
            note += ["  " + d for d in seen_desc]
            text = [json.dumps(r, separators=(",", ":"), sort_keys=True) + "\n" for r, _, _ in items[:MAX_REPLAY_LINES]]
            path = vlib.save_replay(prop, re.sub(r"[^A-Za-z0-9_]+", "_", sig), text, note="\n".join(note))
            violations.append((path, sig, len(items)))
            log("\n".join(note[:6]))
        wall = time.time() - t0
        log(f"[time] build {t_build:.1f}s, model checking {mc['wall'] if mc else 0:.1f}s, harness (incl. model checking) "
            f"{t_run:.1f}s, trace validation {t_val:.1f}s, total {wall:.1f}s")
        if not replay:
            coverage = dict(
                states=mc["distinct"], transitions=mc["generated"],
                traces_validated_against_impl=accepted, evaluations=total,
                distinct_nontrivial=len(nontrivial),
                rule="a logged case counts when TLC accepted it and the request went through the gate proper: path /ws "
                     "(response checked as a correct 101 or as identical to the unknown-path twin) or /health, /version "
                     "with obfuscation on (identical to the twin); distinct by the concrete request and configuration",
                samples=samples or [dict(note="no sample in this run")],
                model_checking_runs=mc["runs"],
                cases_by_expectation=dict(sorted(mc["by"].items())),
                cases_by_deviating_fields={str(k): v for k, v in sorted(mc["ndev"].items())},
                observed={f"{a}/{b}/{c}": n for (a, b, c), n in sorted(matrix.items())},
                undecided_single_deviations_resolved_by_the_code={f"{a} -> {b}": n for (a, b), n in sorted(undecided.items())},
                random_lines=T["random"] * (T["batches"] + T["echo_batches"]),
                backend_variant=dict(random_lines=T["echo_random"] * T["echo_batches"],
                                     unknown_path_answers={f"status {a}, seen by the backend: {b}": n
                                                           for (a, b), n in sorted(echo_seen.items())}),
                trace_validation_states=tlc_states,
                rejected_by_signature=rej_summary,
                known_findings_met=known_met,
                timings_s=dict(build=round(t_build, 1), model_checking=round(mc["wall"], 1), harness_and_mc=round(t_run, 1),
                               trace_validation=round(t_val, 1)),
                exhaustive=False,
                explanation="TLC checks the theorems of the decision table (spec/Upgrade.tla: 101 iff every condition holds, "
                            "obfuscation removes /health and /version, an unset PSK ignores X-Penguin-PSK, every other /ws "
                            "outcome is the fallback; over the full matrix through the 3^9 verdict vectors) and enumerates the "
                            "valid request with every combination of at most MaxDev deviating fields under 4 configurations "
                            "as one state each (spec/MC_Upgrade.tla); gate builds each request, calls the real "
                            "server::State service in-process and again on an unknown path, plus seeded random requests over "
                            "the full matrix with random PSKs and keys; TLC decides every logged request from its octets, "
                            "checks that against the abstract table, and validates the observed response "
                            "(spec/UpgradeTrace.tla)",
            )
            vlib.write_evidence(prop, tier, seed, coverage, wall, sum(v[2] for v in violations), assumptions=[
                "the hyper Service is called in-process: header names are already lower-cased by the http crate, values "
                "are not trimmed (so a PSK padded with a space reaches the gate as such); what hyper's HTTP/1 parser does "
                "to a request before the service sees it is not exercised",
                "quick: the TLC-enumerated cases run with backend = none (the fallback is the configured 404 page) and one small "
                "random batch with a proxied backend (local hyper server whose answer depends on method and headers, not on "
                "the path); the TLC-enumerated backend cases and the large backend batches run in the thorough tier",
                "a 101 is checked for status, Sec-WebSocket-Protocol and Sec-WebSocket-Accept; the tunnel that the spawned "
                "task would start is not (the upgrade extension of the test request never completes)",
                "undecided by the property, any of {correct 101, unknown-path response} accepted: mixed duplicates, lists "
                "containing the good token, repeated Version/Key/PSK lines, a key that is not 16 octets of base64 or empty, "
                "a query on /ws, a request without upgrade extension (e.g. HTTP/2)",
                "/health and /version with obfuscation off are only required not to be a tunnel",
                "the accept hash is compared with the harness's own SHA-1/base64, itself validated by TLC on the RFC 6455 "
                "sample key and cross-checked with the sha1/base64 crates",
            ])
        if violations:
            for path, sig, n in violations:
                print(f"VIOLATION property={prop} replay={path}", flush=True)
            return 1
        log(f"{prop} held on everything explored ({total} cases, {wall:.0f}s)")
        return 0
    finally:
        shutil.rmtree(work, ignore_errors=True)


if __name__ == "__main__":
    import argparse
    ap = argparse.ArgumentParser()
    ap.add_argument("tier", nargs="?", default="quick")
    ap.add_argument("--replay")
    ap.add_argument("--seed", default=os.environ.get("VERIF_SEED", "1"))
    a = ap.parse_args()
    try:
        sys.exit(check("C14", a.tier, int(a.seed), a.replay))
    except ToolError as e:
        print("TOOL ERROR:", e)
        sys.exit(2)
