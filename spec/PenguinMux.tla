--------------------------- MODULE PenguinMux ---------------------------
(***************************************************************************)
(* Design specification of the penguin-v7 multiplexing protocol as         *)
(* implemented in penguin-mux/src/{lib,task,stream}.rs.                    *)
(*                                                                         *)
(* Shape.  The whole system state is ONE record `st` and every             *)
(* implementation step is an operator  State -> SUBSET State  (a "step     *)
(* function").  This is deliberate: one poll of the real connection task   *)
(* performs several of the fine-grained steps back to back (receive one    *)
(* message, send one message, process every queued drop notification,      *)
(* possibly start winding down), and the conformance harness can only      *)
(* observe whole polls.  With step functions the composite                 *)
(* `TaskPoll(s,e,gr,gs)` is ordinary function composition of exactly the   *)
(* operators the model checker interleaves at the fine grain, so           *)
(*     behaviours(trace spec)  \subseteq  behaviours(fine-grained spec)    *)
(* holds by construction (TLC's \cdot is documented as incomplete).        *)
(*                                                                         *)
(* Every step leaves in `s.obs` what the step returned to its caller /     *)
(* put on the link.  The trace specification (MuxTrace.tla) binds `obs`    *)
(* to the logged event; model-checking configurations hide it with a VIEW. *)
(* Property monitors are either state predicates over `st` (MuxProps.tla)  *)
(* or assertions evaluated inside the step in which they can fail; a       *)
(* failed assertion adds a name to `s.viol`, and `st.viol = {}` is an      *)
(* invariant.                                                              *)
(***************************************************************************)
EXTENDS Naturals, Sequences, FiniteSets, SequencesExt, TLC

CONSTANTS
  AckMode,        \* "any": reader may acknowledge any 0..since frames after consuming one (PROTOCOL.md MAY);
                  \* "shaped": acknowledge exactly when since >= thr (what the code does)
  ThrMode,        \* "fixed": thr = min(cfg.thr, own rwnd, peer rwnd);  "pinned": min(cfg.thr, peer rwnd) (pinned tree, F1)
  RstMode,        \* "fixed": a stream dropped while the peer has sent data and not finished is answered with Reset even if
                  \*   our Finish was sent;  "pinned": Reset only if our Finish was not sent (pinned tree, F19)
  EmptyMode       \* "fixed": zero-length writes send nothing, empty inbound Push is skipped by the reader;
                  \* "pinned": zero-length write sends an empty Push and the reader reports EOF (F2)

E == {"A", "B"}
Peer(e) == IF e = "A" THEN "B" ELSE "A"

Min2(a, b) == IF a <= b THEN a ELSE b


(* ------------------------------------------------------------------ *)
(* Uniform record shapes (TLC compares records of one shape safely)    *)
(* ------------------------------------------------------------------ *)
MkMsg(op) == [op |-> op, id |-> 0, n |-> 0, host |-> "", port |-> 0,
              w |-> 0, off |-> 0, len |-> 0, g |-> 0, bt |-> 0, data |-> ""]
NoMsg == MkMsg("none")
MConnect(id, rwnd, host, port, g) == [MkMsg("connect") EXCEPT !.id = id, !.n = rwnd, !.host = host, !.port = port, !.g = g]
MAck(id, n, g)   == [MkMsg("ack") EXCEPT !.id = id, !.n = n, !.g = g]
MReset(id, g)    == [MkMsg("reset") EXCEPT !.id = id, !.g = g]
MFinish(id, g)   == [MkMsg("finish") EXCEPT !.id = id, !.g = g]
MPush(id, w, off, len, g) == [MkMsg("push") EXCEPT !.id = id, !.w = w, !.off = off, !.len = len, !.g = g]
MBind(id, bt, host, port, g) == [MkMsg("bind") EXCEPT !.id = id, !.bt = bt, !.host = host, !.port = port, !.g = g]
MDgram(id, host, port, data, g) == [MkMsg("dgram") EXCEPT !.id = id, !.host = host, !.port = port, !.data = data, !.g = g]

NoChunk == [w |-> 0, off |-> 0, len |-> 0]

NoSlot == [k |-> "none", c |-> 0, h |-> 0, rd |-> FALSE]
SReq(c)  == [k |-> "Req",  c |-> c, h |-> 0, rd |-> FALSE]
SBind(c) == [k |-> "Bind", c |-> c, h |-> 0, rd |-> FALSE]
SEst(h, rd) == [k |-> "Est", c |-> 0, h |-> h, rd |-> rd]

NoObs == [res |-> "", n |-> 0, w |-> 0, off |-> 0, h |-> 0, id |-> 0, host |-> "", port |-> 0,
          bt |-> 0, data |-> "", sent |-> <<>>, rcv |-> NoMsg, wake |-> {}, ack |-> 0, hold |-> {}]

(* handle = a MuxStream plus the state it shares with its flow slot *)
NewHandle(id, credit, thr, host, port, conn, role) ==
  [id |-> id, st |-> "queued", credit |-> credit, closedW |-> FALSE, inq |-> <<>>, buf |-> NoChunk,
   since |-> 0, thr |-> thr, host |-> host, port |-> port, conn |-> conn, role |-> role,
   adv |-> credit, woff |-> 0, roff |-> 0, eof |-> "none", eofSeen |-> FALSE, finQ |-> FALSE,
   pshWire |-> 0, ackGot |-> 0, consumed |-> 0, ackSent |-> 0, wreg |-> FALSE, rreg |-> FALSE,
   rdClosed |-> FALSE, gotPush |-> FALSE]

NewCall(k, id, left, host, port, bt, cid) ==
  [k |-> k, id |-> id, left |-> left, host |-> host, port |-> port, bt |-> bt, cid |-> cid,
   resp |-> "pending", h |-> 0, tries |-> 1]

(* ------------------------------------------------------------------ *)
(* Initial state for a pair of configurations                          *)
(* cfg[e] = [rwnd, thr, acceptCap, dgCap, bindCap, retries, kaI, kaT]  *)
(* kaI / kaT: effective keepalive interval / timeout in seconds, 0 = off *)
(* ------------------------------------------------------------------ *)
InitState(cfg) ==
  [cfg    |-> cfg,
   slot   |-> [e \in E |-> <<>>],        \* function  flow id -> slot  (as a TLC function with finite domain)
   hnd    |-> [e \in E |-> <<>>],
   outq   |-> [e \in E |-> <<>>],
   outClosed |-> [e \in E |-> FALSE],
   drops  |-> [e \in E |-> <<>>],
   dropsClosed |-> [e \in E |-> FALSE],
   acceptq |-> [e \in E |-> <<>>],
   dgq    |-> [e \in E |-> <<>>],
   bindq  |-> [e \in E |-> <<>>],
   breq   |-> [e \in E |-> <<>>],        \* BindRequest objects handed to the application: seq of [id,bt,host,port,g,open]
   task   |-> [e \in E |-> [ph |-> "run", drain |-> FALSE, res |-> ""]],
   rxblk  |-> [e \in E |-> [k |-> "none", h |-> 0, m |-> NoMsg]],
   calls  |-> [e \in E |-> <<>>],        \* function call id -> call record
   br     |-> [e \in E |-> <<>>],        \* bridges (Bridge.tla): stream handles driven by copy_bidirectional
   mux    |-> [e \in E |-> TRUE],
   wire   |-> [e \in E |-> <<>>],
   unfl   |-> [e \in E |-> <<>>],        \* messages handed to the sink (start_send) and not yet flushed: invisible to the peer
   fl     |-> [e \in E |-> FALSE],       \* the send arm of the task is suspended in poll_flush
   sink   |-> [e \in E |-> "open"],      \* "open" | "cut" | "closed"
   src    |-> [e \in E |-> "open"],      \* "open" | "ended"
   ctr    |-> 1,                         \* ghost: next unique id for connects / binds / datagrams
   enq    |-> [e \in E |-> 0],           \* ghost: messages ever accepted into outq[e]
   snt    |-> [e \in E |-> 0],           \* ghost: messages ever moved from outq[e] to the link
   flushTo |-> [e \in E |-> 0],          \* ghost: value of enq[e] when the multiplexor handle was dropped
   now    |-> 0,                         \* virtual time (seconds); moved by the environment step Advance
   ka     |-> [e \in E |-> [started |-> FALSE, next |-> 0, lastPong |-> 0]],   \* schedule_ping_task of endpoint e
   healthy |-> TRUE,                     \* ghost: no transport fault / adversary so far
   dgSent |-> [e \in E |-> <<>>],        \* ghost: datagrams accepted by send_datagram on e (g values)
   dgGot  |-> [e \in E |-> 0],           \* ghost: index in dgSent[Peer(e)] of the last datagram delivered to e's application
   bindAns |-> <<>>,                     \* ghost: function bind ghost id -> "accept"|"reject"
   advn   |-> 0,                         \* ghost: messages injected by the adversary so far
   kf     |-> {},                        \* ghost: known design limitations met on this behaviour (see Stale below)
   confused |-> FALSE,                   \* ghost: a frame / notification of an old incarnation acted on a re-used flow id
   obs    |-> NoObs,
   viol   |-> {}]

HasSlot(s, e, id) == id \in DOMAIN s.slot[e]
SlotOf(s, e, id) == IF HasSlot(s, e, id) THEN s.slot[e][id] ELSE NoSlot

SetSlot(s, e, id, v) ==
  [s EXCEPT !.slot[e] = [x \in (DOMAIN s.slot[e]) \cup {id} |-> IF x = id THEN v ELSE s.slot[e][x]]]
DelSlot(s, e, id) ==
  [s EXCEPT !.slot[e] = [x \in (DOMAIN s.slot[e]) \ {id} |-> s.slot[e][x]]]
SetCall(s, e, c, v) ==
  [s EXCEPT !.calls[e] = [x \in (DOMAIN s.calls[e]) \cup {c} |-> IF x = c THEN v ELSE s.calls[e][x]]]
DelCall(s, e, c) ==
  [s EXCEPT !.calls[e] = [x \in (DOMAIN s.calls[e]) \ {c} |-> s.calls[e][x]]]
HasCall(s, e, c) == c \in DOMAIN s.calls[e]

Flag(s, name) == [s EXCEPT !.viol = @ \cup {name}]
(* Penguin flow ids carry no generation number.  When an id is re-used while frames (or a drop
   notification) of its previous incarnation are still under way, they act on the new incarnation.
   The ghost field `g` of every message names the incarnation it belongs to, so the specification
   can tell: such a step is recorded in `kf` and switches the design-level monitors off for the rest
   of the behaviour (conformance of the implementation to the step functions is still checked).    *)
Stale(s, name) == [s EXCEPT !.kf = @ \cup {name}, !.confused = TRUE, !.healthy = FALSE]
Obs(s, o) == [s EXCEPT !.obs = o]
Wake(s, w) == [s EXCEPT !.obs.wake = @ \cup w]

(* the handle on the other endpoint that belongs to the same Connect/Acknowledge handshake *)
PeerHandles(s, e, h) ==
  {p \in DOMAIN s.hnd[Peer(e)] : s.hnd[Peer(e)][p].conn = s.hnd[e][h].conn /\ s.hnd[e][h].conn # 0}

(* does some flow slot still hold the inbound sender of handle h? *)
SenderAlive(s, e, h) ==
  \E id \in DOMAIN s.slot[e] : s.slot[e][id].k = "Est" /\ s.slot[e][id].h = h /\ s.slot[e][id].rd

(* nothing is in flight and no task has work left: whatever is still open stays as it is unless an application acts *)
QuietS(s) == \A e \in E : s.outq[e] = <<>> /\ s.wire[e] = <<>> /\ s.unfl[e] = <<>> /\ s.drops[e] = <<>> /\ s.rxblk[e].k = "none"

(* a writer that is still open and out of credit has a counterpart that can still grant it credit or tell it to stop:
   once the peer endpoint has let go of the stream (its slot is gone) and nothing is in flight, this end knows
   (closedW).  Otherwise the writer waits for ever and, behind a bridge, the local connection is left hanging (C01,
   F19).  (A writer that still has credit finds out with its next Push, which is answered with Reset.) *)
NoOrphanWriterS(s) ==
  (QuietS(s) /\ ~s.confused /\ s.healthy /\ \A e \in E : s.task[e].ph = "run") =>
     \A e \in E : \A h \in DOMAIN s.hnd[e] :
        LET x == s.hnd[e][h] IN
        (x.st # "dropped" /\ ~x.closedW /\ x.credit = 0 /\ x.conn # 0) =>
           \E id \in DOMAIN s.slot[Peer(e)] :
              LET sl == s.slot[Peer(e)][id] IN sl.k = "Est" /\ s.hnd[Peer(e)][sl.h].conn = x.conn

(* enqueue a message on the outbound queue (tx_msg_tx.send); fails silently when the receiver is closed *)
Out(s, e, m) ==
  IF s.outClosed[e] THEN s
  ELSE [s EXCEPT !.outq[e] = Append(@, m), !.enq[e] = @ + 1]

Threshold(c, peerRwnd) ==
  IF ThrMode = "pinned" THEN Min2(c.thr, peerRwnd)
  ELSE Min2(Min2(c.thr, c.rwnd), peerRwnd)

(* ================================================================== *)
(* Application steps                                                   *)
(* ================================================================== *)

(* new_stream_channel, first poll.  `id` is the flow id insert_new_flow picked. *)
IdOk(s, e, id) == id # 0 /\ ~HasSlot(s, e, id)

OpenStart(s, e, c, host, port, id) ==
  IF ~s.mux[e] \/ HasCall(s, e, c) \/ ~IdOk(s, e, id) THEN {}
  ELSE
    LET cid == s.ctr
        s1 == SetSlot([s EXCEPT !.ctr = @ + 1], e, id, SReq(c))
        left == s.cfg[e].retries - 1
    IN IF s.outClosed[e]
       THEN {Obs(s1, [NoObs EXCEPT !.res = "closed", !.id = id])}     \* slot is leaked, as in the code
       ELSE {Obs(SetCall(Out(s1, e, MConnect(id, s.cfg[e].rwnd, host, port, cid)), e, c,
                         NewCall("open", id, left, host, port, 0, cid)),
                 [NoObs EXCEPT !.res = "pending", !.id = id])}

(* later polls of the same future; newId is used only when the previous attempt was rejected *)
OpenPoll(s, e, c, newId) ==
  IF ~HasCall(s, e, c) \/ s.calls[e][c].k # "open" THEN {}
  ELSE
    LET k == s.calls[e][c] IN
    CASE k.resp = "pending" -> {Obs(s, [NoObs EXCEPT !.res = "pending"])}
      [] k.resp = "some" ->
           {Obs(DelCall([s EXCEPT !.hnd[e][k.h].st = "app"], e, c),
                [NoObs EXCEPT !.res = "ok", !.h = k.h, !.id = k.id])}
      [] k.resp = "closed" -> {Obs(DelCall(s, e, c), [NoObs EXCEPT !.res = "closed"])}
      [] k.resp = "none" ->
           IF k.left = 0 THEN {Obs(DelCall(s, e, c), [NoObs EXCEPT !.res = "rejected"])}
           ELSE IF ~IdOk(s, e, newId) THEN {}
           ELSE LET cid == s.ctr
                    s1 == SetSlot([s EXCEPT !.ctr = @ + 1], e, newId, SReq(c))
                IN IF s.outClosed[e]
                   THEN {Obs(DelCall(s1, e, c), [NoObs EXCEPT !.res = "closed", !.id = newId])}
                   ELSE {Obs(SetCall(Out(s1, e, MConnect(newId, s.cfg[e].rwnd, k.host, k.port, cid)), e, c,
                                     [k EXCEPT !.id = newId, !.left = @ - 1, !.cid = cid,
                                               !.resp = "pending", !.tries = @ + 1]),
                             [NoObs EXCEPT !.res = "pending", !.id = newId])}
      [] OTHER -> {}

(* accept_stream_channel, one poll *)
Accept(s, e) ==
  IF ~s.mux[e] THEN {}
  ELSE IF s.acceptq[e] # <<>>
  THEN LET h == Head(s.acceptq[e]) IN
       {Obs([s EXCEPT !.acceptq[e] = Tail(@), !.hnd[e][h].st = "app"],
            [NoObs EXCEPT !.res = "ok", !.h = h, !.id = s.hnd[e][h].id,
                          !.host = s.hnd[e][h].host, !.port = s.hnd[e][h].port])}
  ELSE IF s.task[e].ph = "done" THEN {Obs(s, [NoObs EXCEPT !.res = "closed"])}
  ELSE {Obs(s, [NoObs EXCEPT !.res = "pending"])}

(* AsyncWrite::poll_write / poll_write_vectored (len = total length) *)
Write(s, e, h, len) ==
  IF h \notin DOMAIN s.hnd[e] \/ s.hnd[e][h].st # "app" THEN {}
  ELSE
    LET x == s.hnd[e][h] IN
    IF len = 0 /\ EmptyMode = "fixed" THEN
      (* repaired: nothing is transmitted; a closed stream may still report BrokenPipe *)
      {Obs(s, [NoObs EXCEPT !.res = "ok", !.n = 0])} \cup
      (IF x.closedW THEN {Obs(s, [NoObs EXCEPT !.res = "broken"])} ELSE {})
    ELSE IF x.closedW THEN {Obs(s, [NoObs EXCEPT !.res = "broken"])}
    ELSE IF x.credit = 0 THEN {Obs([s EXCEPT !.hnd[e][h].wreg = TRUE], [NoObs EXCEPT !.res = "pending"])}
    ELSE IF s.outClosed[e]
         THEN {Obs([s EXCEPT !.hnd[e][h].credit = @ - 1, !.hnd[e][h].wreg = FALSE], [NoObs EXCEPT !.res = "broken"])}
    ELSE {Obs(Out([s EXCEPT !.hnd[e][h].credit = @ - 1, !.hnd[e][h].woff = @ + len, !.hnd[e][h].wreg = FALSE],
                  e, MPush(x.id, h, x.woff, len, x.conn)),
              [NoObs EXCEPT !.res = "ok", !.n = len])}

(* reader side: acknowledgement policy after one frame was taken from the inbound queue *)
(* "any": every choice PROTOCOL.md allows -- 0..since frames, but never leaving `rwnd` or more
   processed frames unacknowledged (the MUST of PROTOCOL.md, property C04)                    *)
AckChoices(x, rwnd) ==
  IF AckMode = "shaped" THEN (IF x.since >= x.thr THEN {x.since} ELSE {0})
  ELSE {n \in 0 .. x.since : x.since - n < rwnd}

(* take the next frame from the inbound queue into buf; returns a set of states (ack policy) *)
PopFrame(s, e, h) ==
  LET x  == s.hnd[e][h]
      ch == Head(x.inq)
      x1 == [x EXCEPT !.inq = Tail(@), !.buf = ch, !.since = @ + 1, !.consumed = @ + 1]
  IN { LET x2 == [x1 EXCEPT !.since = @ - n, !.ackSent = @ + n]
           s1 == [s EXCEPT !.hnd[e][h] = x2]
           s2 == IF n > 0 THEN Out(s1, e, MAck(x.id, n, x.conn)) ELSE s1
       IN [s2 EXCEPT !.obs.ack = n]
       : n \in AckChoices(x1, s.cfg[e].rwnd) }

(* monitor for C02/C05 evaluated when bytes are handed to the application *)
ReadCheck(s, e, h, ch) ==
  LET x == s.hnd[e][h]
      bad == \/ ch.w \notin DOMAIN s.hnd[Peer(e)]
             \/ /\ ch.w \in DOMAIN s.hnd[Peer(e)]
                /\ \/ s.hnd[Peer(e)][ch.w].conn # x.conn
                   \/ ch.off # x.roff
  (* a stream opened by the adversary (conn = 0) has no conforming writer to compare with *)
  IN IF bad /\ ~s.confused /\ x.conn # 0 /\ PeerHandles(s, e, h) # {} THEN Flag(s, "C02.Prefix") ELSE s

(* monitor for C05 evaluated when a read reports end-of-stream *)
EofCheck(s, e, h) ==
  LET x == s.hnd[e][h]
      ps == PeerHandles(s, e, h)
      okCause ==
        \/ x.eof \in {"down", "local", "overrun", "adv"}
        \/ /\ x.eof = "fin"
           /\ \A p \in ps : LET y == s.hnd[Peer(e)][p] IN y.finQ /\ x.roff = y.woff
        \/ /\ x.eof = "reset"
           /\ \A p \in ps : LET y == s.hnd[Peer(e)][p] IN y.st = "dropped" \/ y.closedW
  IN IF okCause \/ s.confused \/ x.conn = 0 THEN s ELSE Flag(s, "C05.Eof")

RECURSIVE ReadFrom(_, _, _, _)
ReadFrom(s, e, h, max) ==
  LET x == s.hnd[e][h] IN
  IF x.buf.len > 0 THEN
     LET n  == Min2(max, x.buf.len)
         s1 == ReadCheck(s, e, h, x.buf)
     IN {[s1 EXCEPT !.hnd[e][h].buf = [w |-> x.buf.w, off |-> x.buf.off + n, len |-> x.buf.len - n],
                    !.hnd[e][h].roff = @ + n, !.hnd[e][h].rreg = FALSE,
                    !.obs = [s.obs EXCEPT !.res = "data", !.n = n, !.w = x.buf.w, !.off = x.buf.off]]}
  ELSE IF x.inq # <<>> /\ ~x.rdClosed THEN
     IF Head(x.inq).len = 0 /\ EmptyMode = "pinned"
     THEN {[s1 EXCEPT !.obs.res = "eof", !.hnd[e][h].eofSeen = TRUE] :
             s1 \in {Flag(t, "C05.EmptyPushEof") : t \in PopFrame(s, e, h)}}
     ELSE UNION {ReadFrom(t, e, h, max) : t \in PopFrame(s, e, h)}
  ELSE IF SenderAlive(s, e, h) /\ ~x.rdClosed
     THEN {[s EXCEPT !.hnd[e][h].rreg = TRUE, !.obs.res = "pending"]}
  ELSE {[t EXCEPT !.hnd[e][h].eofSeen = TRUE, !.hnd[e][h].rdClosed = TRUE, !.hnd[e][h].rreg = FALSE,
                  !.obs.res = "eof"] : t \in {EofCheck(s, e, h)}}

(* AsyncRead::poll_read with a buffer of `max` > 0 bytes *)
Read(s, e, h, max) ==
  IF h \notin DOMAIN s.hnd[e] \/ s.hnd[e][h].st # "app" \/ max = 0 THEN {}
  ELSE
    LET r == ReadFrom(Obs(s, NoObs), e, h, max) IN
    (* PROTOCOL.md: an Acknowledge MUST have been sent by the time `rwnd` frames were processed *)
    { IF AckMode = "shaped" /\ t.hnd[e][h].since >= t.cfg[e].rwnd THEN Flag(t, "C04.AckByRwnd") ELSE t : t \in r }

(* AsyncWrite::poll_shutdown *)
Shutdown(s, e, h) ==
  IF h \notin DOMAIN s.hnd[e] \/ s.hnd[e][h].st # "app" THEN {}
  ELSE IF s.hnd[e][h].closedW THEN {Obs(s, [NoObs EXCEPT !.res = "ok"])}
  ELSE {Obs(Out([s EXCEPT !.hnd[e][h].closedW = TRUE,
                          !.hnd[e][h].finQ = ~s.outClosed[e]], e, MFinish(s.hnd[e][h].id, s.hnd[e][h].conn)),
            [NoObs EXCEPT !.res = "ok"])}

(* a MuxStream is dropped (by the application, or because a queue holding it is destroyed) *)
DropHandle(s, e, h) ==
  LET s1 == [s EXCEPT !.hnd[e][h].st = "dropped", !.hnd[e][h].inq = <<>>, !.hnd[e][h].buf = NoChunk,
                      !.hnd[e][h].wreg = FALSE, !.hnd[e][h].rreg = FALSE]
  IN IF s.dropsClosed[e] THEN s1 ELSE [s1 EXCEPT !.drops[e] = Append(@, [id |-> s.hnd[e][h].id, h |-> h])]

DropStream(s, e, h) ==
  IF h \notin DOMAIN s.hnd[e] \/ s.hnd[e][h].st # "app" THEN {}
  ELSE {Obs(DropHandle(s, e, h), [NoObs EXCEPT !.res = "ok"])}

(* the application drops the future of a pending new_stream_channel / request_bind (a timeout, a select!): the
   call record stays, marked cancelled, so that the slot's incarnation is still known; a stream already sitting in
   the call's oneshot is dropped with it *)
CancelCall(s, e, c) ==
  IF ~HasCall(s, e, c) \/ s.calls[e][c].resp = "cancelled" THEN {}
  ELSE LET k  == s.calls[e][c]
           s1 == [s EXCEPT !.calls[e][c].resp = "cancelled"]
       IN {Obs(IF k.k = "open" /\ k.resp = "some" THEN DropHandle(s1, e, k.h) ELSE s1, [NoObs EXCEPT !.res = "ok"])}

(* the BindRequest object r of endpoint e answers (reply) or is dropped (= reject, unless already answered) *)
BindReply(s, e, r, accept) ==
  IF r \notin DOMAIN s.breq[e] \/ ~s.breq[e][r].open THEN {}
  ELSE LET q == s.breq[e][r]
           s1 == Out(s, e, IF accept THEN MFinish(q.id, q.g) ELSE MReset(q.id, q.g))
           ans == IF s.outClosed[e] THEN "lost" ELSE IF accept THEN "accept" ELSE "reject"
           (* only the first answer that reaches the queue counts for the ghost *)
           ba == IF q.g \in DOMAIN s.bindAns THEN s.bindAns
                 ELSE [x \in (DOMAIN s.bindAns) \cup {q.g} |-> IF x = q.g THEN ans ELSE s.bindAns[x]]
       IN {Obs([s1 EXCEPT !.bindAns = ba], [NoObs EXCEPT !.res = IF s.outClosed[e] THEN "closed" ELSE "ok"])}

BindDrop(s, e, r) ==
  IF r \notin DOMAIN s.breq[e] \/ ~s.breq[e][r].open THEN {}
  ELSE {[t EXCEPT !.breq[e][r].open = FALSE, !.obs.res = "ok"] : t \in BindReply(s, e, r, FALSE)}

RECURSIVE DropHandles(_, _, _)
DropHandles(s, e, hs) ==
  IF hs = <<>> THEN s ELSE DropHandles(DropHandle(s, e, Head(hs)), e, Tail(hs))

RECURSIVE RejectQueuedBinds(_, _, _)
RejectQueuedBinds(s, e, q) ==
  IF q = <<>> THEN s
  ELSE RejectQueuedBinds(Out(s, e, MReset(Head(q).id, Head(q).g)), e, Tail(q))

(* the Multiplexor handle is dropped: notification 0, then every receiver it owns is destroyed *)
DropMux(s, e) ==
  IF ~s.mux[e] THEN {}
  ELSE
    LET (* pending calls borrow the multiplexor, so they are cancelled first: a stream still sitting in
           the oneshot of an open call is dropped with the call, before the notification 0 *)
        got == {c \in DOMAIN s.calls[e] : s.calls[e][c].k = "open" /\ s.calls[e][c].resp = "some"}
        gotSeq == SetToSeq({s.calls[e][c].h : c \in got})
        (* the flush obligation of C08 is about a connection that ends BECAUSE the Multiplexor is dropped: a task that has
           already left its main loop for another reason (an error such as the Acknowledge for a cancelled request, a
           transport failure) owes nothing more than that cause demands *)
        s0 == DropHandles([s EXCEPT !.mux[e] = FALSE, !.calls[e] = <<>>,
                                    !.flushTo[e] = IF s.task[e].ph = "run" THEN s.enq[e] ELSE @], e, gotSeq)
        s1 == IF s.dropsClosed[e] THEN s0 ELSE [s0 EXCEPT !.drops[e] = Append(@, [id |-> 0, h |-> 0])]
        s2 == DropHandles([s1 EXCEPT !.acceptq[e] = <<>>], e, s.acceptq[e])
        s3 == RejectQueuedBinds([s2 EXCEPT !.bindq[e] = <<>>, !.dgq[e] = <<>>], e, s.bindq[e])
    IN {Obs(s3, [NoObs EXCEPT !.res = "ok"])}

(* send_datagram; `long` = the target host is longer than 255 octets *)
SendDgram(s, e, id, host, port, data, long) ==
  IF ~s.mux[e] THEN {}
  ELSE IF long THEN {Obs(s, [NoObs EXCEPT !.res = "toolong"])}
  ELSE IF s.outClosed[e] THEN {Obs(s, [NoObs EXCEPT !.res = "closed"])}
  ELSE LET g == s.ctr IN
       {Obs(Out([s EXCEPT !.ctr = @ + 1, !.dgSent[e] = Append(@, g)], e, MDgram(id, host, port, data, g)),
            [NoObs EXCEPT !.res = "ok"])}

IndexOf(seq, v) == IF \E i \in DOMAIN seq : seq[i] = v THEN CHOOSE i \in DOMAIN seq : seq[i] = v ELSE 0

(* get_datagram, one poll *)
GetDgram(s, e) ==
  IF ~s.mux[e] THEN {}
  ELSE IF s.dgq[e] # <<>>
  THEN LET d == Head(s.dgq[e])
           i == IndexOf(s.dgSent[Peer(e)], d.g)
           s1 == [s EXCEPT !.dgq[e] = Tail(@)]
           s2 == IF ~s.healthy THEN s1
                 ELSE IF i = 0 THEN Flag(s1, "C11.Unknown")
                 ELSE IF i <= s.dgGot[e] THEN Flag(s1, "C11.OrderOrDup")
                 ELSE [s1 EXCEPT !.dgGot[e] = i]
       IN {Obs(s2, [NoObs EXCEPT !.res = "ok", !.id = d.id, !.host = d.host, !.port = d.port, !.data = d.data])}
  ELSE IF s.task[e].ph = "done" THEN {Obs(s, [NoObs EXCEPT !.res = "closed"])}
  ELSE {Obs(s, [NoObs EXCEPT !.res = "pending"])}

(* request_bind, first poll *)
BindStart(s, e, c, bt, host, port, id) ==
  IF ~s.mux[e] \/ HasCall(s, e, c) \/ ~IdOk(s, e, id) THEN {}
  ELSE
    LET g == s.ctr
        s1 == SetSlot([s EXCEPT !.ctr = @ + 1], e, id, SBind(c))
    IN IF s.outClosed[e]
       THEN {Obs(s1, [NoObs EXCEPT !.res = "closed", !.id = id])}
       ELSE {Obs(SetCall(Out(s1, e, MBind(id, bt, host, port, g)), e, c, NewCall("bind", id, 0, host, port, bt, g)),
                 [NoObs EXCEPT !.res = "pending", !.id = id])}

BindPoll(s, e, c) ==
  IF ~HasCall(s, e, c) \/ s.calls[e][c].k # "bind" THEN {}
  ELSE
    LET k == s.calls[e][c]
        ans == IF k.cid \in DOMAIN s.bindAns THEN s.bindAns[k.cid] ELSE "none"
    IN
    CASE k.resp = "pending" -> {Obs(s, [NoObs EXCEPT !.res = "pending"])}
      [] k.resp = "true" ->
           {Obs(DelCall(IF s.healthy /\ ans # "accept" THEN Flag(s, "C15.TrueWithoutAccept") ELSE s, e, c),
                [NoObs EXCEPT !.res = "true"])}
      [] k.resp = "false" ->
           {Obs(DelCall(IF s.healthy /\ ans = "accept" /\ s.task[e].ph = "run" /\ s.task[Peer(e)].ph = "run"
                        THEN Flag(s, "C15.FalseDespiteAccept") ELSE s, e, c),
                [NoObs EXCEPT !.res = "false"])}
      [] k.resp = "closed" -> {Obs(DelCall(s, e, c), [NoObs EXCEPT !.res = "closed"])}
      [] OTHER -> {}

(* next_bind_request, one poll; the returned request becomes BindRequest object number Len(breq)+1 *)
NextBind(s, e) ==
  IF ~s.mux[e] THEN {}
  ELSE IF s.cfg[e].bindCap = 0 THEN {Obs(s, [NoObs EXCEPT !.res = "unsupported"])}
  ELSE IF s.bindq[e] # <<>>
  THEN LET q == Head(s.bindq[e]) IN
       {Obs([s EXCEPT !.bindq[e] = Tail(@), !.breq[e] = Append(@, [q EXCEPT !.open = TRUE])],
            [NoObs EXCEPT !.res = "ok", !.h = Len(s.breq[e]) + 1, !.id = q.id, !.bt = q.bt,
                          !.host = q.host, !.port = q.port])}
  ELSE IF s.task[e].ph = "done" THEN {Obs(s, [NoObs EXCEPT !.res = "closed"])}
  ELSE {Obs(s, [NoObs EXCEPT !.res = "pending"])}

(* ================================================================== *)
(* Connection task: processing of one inbound message                  *)
(* ================================================================== *)

WakeW(e, h) == [k |-> "w", e |-> e, x |-> h]
WakeR(e, h) == [k |-> "r", e |-> e, x |-> h]
WakeC(e, c) == [k |-> "c", e |-> e, x |-> c]

(* close_flow_local *)
CloseLocal(s, e, id, sl, inhibit, cause) ==
  CASE sl.k = "Est" ->
         LET x  == s.hnd[e][sl.h]
             s1 == [s EXCEPT !.hnd[e][sl.h].closedW = TRUE, !.hnd[e][sl.h].wreg = FALSE,
                             !.hnd[e][sl.h].rreg = IF sl.rd THEN FALSE ELSE x.rreg,
                             !.hnd[e][sl.h].eof = IF x.eof = "none" /\ sl.rd THEN cause ELSE x.eof]
             (* the peer must be told unless the stream was closed in both directions: without a Reset its writer
                would wait for Acknowledge frames that never come *)
             tell == ~x.closedW \/ (RstMode = "fixed" /\ sl.rd /\ x.gotPush)
             s2 == IF tell /\ ~inhibit THEN Out(s1, e, MReset(id, x.conn)) ELSE s1
         IN Wake(s2, (IF x.wreg THEN {WakeW(e, sl.h)} ELSE {}) \cup (IF x.rreg /\ sl.rd THEN {WakeR(e, sl.h)} ELSE {}))
    [] sl.k = "Req" ->
         (* rejected by the peer (Reset): the requester retries; connection gone: it sees Closed *)
         IF HasCall(s, e, sl.c) /\ s.calls[e][sl.c].resp = "pending" /\ s.calls[e][sl.c].id = id
         THEN Wake([s EXCEPT !.calls[e][sl.c].resp = IF cause = "down" THEN "closed" ELSE "none"], {WakeC(e, sl.c)}) ELSE s
    [] sl.k = "Bind" ->
         IF HasCall(s, e, sl.c) /\ s.calls[e][sl.c].resp = "pending" /\ s.calls[e][sl.c].id = id
         THEN Wake([s EXCEPT !.calls[e][sl.c].resp = "false"], {WakeC(e, sl.c)}) ELSE s
    [] OTHER -> s

(* close_flow: acts on whatever slot has this id now *)
CloseFlow(s, e, id, inhibit, cause) ==
  IF HasSlot(s, e, id) THEN CloseLocal(DelSlot(s, e, id), e, id, s.slot[e][id], inhibit, cause) ELSE s

(* select_biased! finishes: wind_down starts in the same poll and runs up to its first suspension point *)
BeginWd(s0, e, drain, res) ==
  LET (* the futures of the select are destroyed: a stream / bind request the receive loop was
         still trying to hand over is dropped with them *)
      b  == s0.rxblk[e]
      sa == [s0 EXCEPT !.rxblk[e] = [k |-> "none", h |-> 0, m |-> NoMsg]]
      s  == CASE b.k = "accept" -> DropHandle(sa, e, b.h)
              [] b.k = "bind"   -> Out(sa, e, MReset(b.m.id, b.m.g))
              [] OTHER -> sa
      hs == {s.slot[e][id].h : id \in {i \in DOMAIN s.slot[e] : s.slot[e][i].k = "Est"}}
      s1 == [s EXCEPT !.hnd[e] = [h \in DOMAIN s.hnd[e] |->
                         IF h \in hs THEN [s.hnd[e][h] EXCEPT !.closedW = TRUE, !.wreg = FALSE] ELSE s.hnd[e][h]],
                      !.task[e] = [ph |-> "wd1", drain |-> drain, res |-> res]]
  IN Wake(s1, {WakeW(e, h) : h \in {x \in hs : s.hnd[e][x].wreg}})

(* con_recv_new_stream; returns the new state, possibly with the task leaving its main loop *)
ProcConnect(s, e, m, inWd) ==
  IF m.id = 0 \/ HasSlot(s, e, m.id) THEN Out(s, e, MReset(m.id, m.g))
  ELSE
    LET h  == Len(s.hnd[e]) + 1
        x  == NewHandle(m.id, m.n, Threshold(s.cfg[e], m.n), m.host, m.port, m.g, "acc")
        s1 == SetSlot([s EXCEPT !.hnd[e] = Append(@, x)], e, m.id, SEst(h, TRUE))
    IN IF s.outClosed[e] THEN
         (* Acknowledge cannot be queued: Err(Closed); the new MuxStream is dropped on the way out *)
         LET s2 == DropHandle(s1, e, h) IN IF inWd THEN s2 ELSE BeginWd(s2, e, FALSE, "closed")
       ELSE
         LET s2 == Out(s1, e, MAck(m.id, s.cfg[e].rwnd, m.g)) IN
         IF ~s.mux[e] THEN
           (* accept receiver is gone: Err(SendStreamToClient) *)
           (* ... because the Multiplexor was dropped: a local drop noticed by the receive side *)
           LET s3 == DropHandle(s2, e, h) IN IF inWd THEN s3 ELSE BeginWd(s3, e, TRUE, "ok")
         ELSE IF Len(s.acceptq[e]) < s.cfg[e].acceptCap
           THEN Wake([s2 EXCEPT !.acceptq[e] = Append(@, h)], {[k |-> "acc", e |-> e, x |-> 0]})
         ELSE [s2 EXCEPT !.rxblk[e] = [k |-> "accept", h |-> h, m |-> NoMsg]]

(* does message m belong to the incarnation that currently owns slot sl of endpoint e? *)
SameInc(s, e, sl, m) ==
  CASE sl.k = "Est" -> s.hnd[e][sl.h].conn = m.g
    [] sl.k \in {"Req", "Bind"} -> HasCall(s, e, sl.c) /\ s.calls[e][sl.c].cid = m.g
    [] OTHER -> TRUE
(* adversary / scripted-peer messages carry g = 0 and are never called stale *)
MarkStale(s, e, sl, m) ==
  IF m.g # 0 /\ sl.k # "none" /\ ~SameInc(s, e, sl, m) THEN Stale(s, "StaleFrame") ELSE s

ProcAck(s0, e, m, inWd) ==
  LET sl == SlotOf(s0, e, m.id)
      s  == MarkStale(s0, e, sl, m) IN
  CASE sl.k = "Est" ->
         LET x == s.hnd[e][sl.h] IN
         Wake([s EXCEPT !.hnd[e][sl.h].credit = @ + m.n, !.hnd[e][sl.h].ackGot = @ + m.n,
                        !.hnd[e][sl.h].wreg = FALSE],
              IF x.wreg THEN {WakeW(e, sl.h)} ELSE {})
    [] sl.k = "Req" ->
         LET h  == Len(s.hnd[e]) + 1
             k  == s.calls[e][sl.c]
             live == HasCall(s, e, sl.c) /\ s.calls[e][sl.c].id = m.id /\ s.calls[e][sl.c].resp = "pending"
             x  == NewHandle(m.id, m.n, Threshold(s.cfg[e], m.n), "", 0, IF live THEN k.cid ELSE 0, "req")
             s1 == SetSlot([s EXCEPT !.hnd[e] = Append(@, x)], e, m.id, SEst(h, TRUE))
         IN IF live
            THEN Wake([s1 EXCEPT !.calls[e][sl.c].resp = "some", !.calls[e][sl.c].h = h], {WakeC(e, sl.c)})
            ELSE (* requester is gone: Err(SendStreamToClient), stream dropped *)
                 (* with the Multiplexor dropped this is a local drop (flush); a merely cancelled request is an error *)
                 LET s2 == DropHandle(s1, e, h) IN
                 IF inWd THEN s2 ELSE IF ~s.mux[e] THEN BeginWd(s2, e, TRUE, "ok") ELSE BeginWd(s2, e, FALSE, "sendstream")
    [] OTHER -> Out(s, e, MReset(m.id, m.g))

ProcFinish(s0, e, m) ==
  LET sl == SlotOf(s0, e, m.id)
      s  == MarkStale(s0, e, sl, m) IN
  CASE sl.k = "none" -> Out(s, e, MReset(m.id, m.g))
    [] sl.k = "Bind" ->
         LET s1 == DelSlot(s, e, m.id) IN
         IF HasCall(s, e, sl.c) /\ s.calls[e][sl.c].resp = "pending" /\ s.calls[e][sl.c].id = m.id
         THEN Wake([s1 EXCEPT !.calls[e][sl.c].resp = "true"], {WakeC(e, sl.c)}) ELSE s1
    [] sl.k = "Req" ->
         (* the slot (and with it the oneshot sender) is destroyed without an answer *)
         LET s1 == Out(DelSlot(s, e, m.id), e, MReset(m.id, m.g)) IN
         IF HasCall(s, e, sl.c) /\ s.calls[e][sl.c].resp = "pending" /\ s.calls[e][sl.c].id = m.id
         THEN Wake([s1 EXCEPT !.calls[e][sl.c].resp = "closed"], {WakeC(e, sl.c)}) ELSE s1
    [] sl.k = "Est" ->
         LET x == s.hnd[e][sl.h] IN
         IF sl.rd
         THEN Wake([SetSlot(s, e, m.id, SEst(sl.h, FALSE)) EXCEPT !.hnd[e][sl.h].rreg = FALSE,
                       !.hnd[e][sl.h].eof = IF x.eof = "none" THEN "fin" ELSE x.eof],
                   IF x.rreg THEN {WakeR(e, sl.h)} ELSE {})
         ELSE s
    [] OTHER -> s

ProcReset(s0, e, m) ==
  LET sl == SlotOf(s0, e, m.id) IN
  CloseFlow(MarkStale(s0, e, sl, m), e, m.id, TRUE, "reset")

ProcPush(s0, e, m) ==
  LET sl == SlotOf(s0, e, m.id)
      s  == MarkStale(s0, e, sl, m) IN
  IF sl.k = "Est" /\ sl.rd THEN
    LET x == s.hnd[e][sl.h]
        (* the slot remembers that the peer has sent data: it may be waiting for an Acknowledge (see CloseLocal) *)
        sp == [s EXCEPT !.hnd[e][sl.h].gotPush = TRUE] IN
    IF x.st = "dropped" \/ x.rdClosed THEN sp                        \* TrySendError::Closed: silently ignored
    ELSE IF Len(x.inq) >= s.cfg[e].rwnd THEN                         \* TrySendError::Full
      CloseFlow(IF s.healthy THEN Flag(sp, "C03.Overrun") ELSE sp, e, m.id, FALSE, "overrun")
    ELSE Wake([sp EXCEPT !.hnd[e][sl.h].inq = Append(@, [w |-> m.w, off |-> m.off, len |-> m.len]),
                         !.hnd[e][sl.h].rreg = FALSE],
              IF x.rreg THEN {WakeR(e, sl.h)} ELSE {})
  ELSE Out(s, e, MReset(m.id, m.g))

ProcBind(s, e, m, inWd) ==
  IF s.cfg[e].bindCap = 0 THEN Out(s, e, MReset(m.id, m.g))
  ELSE IF inWd THEN s
  ELSE LET q == [id |-> m.id, bt |-> m.bt, host |-> m.host, port |-> m.port, g |-> m.g, open |-> FALSE] IN
       IF ~s.mux[e] THEN Out(s, e, MReset(m.id, m.g))                   \* send fails; the BindRequest is dropped = reject
       ELSE IF Len(s.bindq[e]) < s.cfg[e].bindCap
            THEN Wake([s EXCEPT !.bindq[e] = Append(@, q)], {[k |-> "nb", e |-> e, x |-> 0]})
       ELSE [s EXCEPT !.rxblk[e] = [k |-> "bind", h |-> 0, m |-> m]]

ProcDgram(s, e, m, inWd) ==
  IF ~s.mux[e] THEN (IF inWd THEN s ELSE BeginWd(s, e, TRUE, "ok"))     \* local drop noticed by the receive side
  ELSE IF Len(s.dgq[e]) < s.cfg[e].dgCap
       THEN Wake([s EXCEPT !.dgq[e] = Append(@, [id |-> m.id, host |-> m.host, port |-> m.port, data |-> m.data, g |-> m.g])],
                 {[k |-> "dg", e |-> e, x |-> 0]})
  ELSE s      \* buffer full: dropped

(* process_message; inWd = called from wind_down (errors ignored, Close ignored, Bind ignored) *)
Process(s, e, m, inWd) ==
  CASE m.op = "connect" -> ProcConnect(s, e, m, inWd)
    [] m.op = "ack"     -> ProcAck(s, e, m, inWd)
    [] m.op = "finish"  -> ProcFinish(s, e, m)
    [] m.op = "reset"   -> ProcReset(s, e, m)
    [] m.op = "push"    -> ProcPush(s, e, m)
    [] m.op = "bind"    -> ProcBind(s, e, m, inWd)
    [] m.op = "dgram"   -> ProcDgram(s, e, m, inWd)
    (* the transport answers a Ping by itself (see AutoPong); only a Pong is a sign of life *)
    [] m.op = "ping" -> s
    [] m.op = "pong" -> [s EXCEPT !.ka[e].lastPong = s.now]
    (* nothing follows a Close frame (RFC 6455): the source of a real WebSocket ends after it *)
    [] m.op = "close"   -> IF inWd THEN [s EXCEPT !.src[e] = "ended"]
                           ELSE BeginWd([s EXCEPT !.src[e] = "ended"], e, FALSE, "ok")
    [] m.op = "junk"    -> IF inWd THEN s ELSE BeginWd(s, e, FALSE, "invalid")
    [] OTHER -> s

(* ------------------------------------------------------------------ *)
(* Fine-grained task steps (these are what the model checker interleaves) *)
(* ------------------------------------------------------------------ *)

(* complete a `send().await` that was blocked on a full accept / bind queue *)
Unblock(s, e) ==
  LET b == s.rxblk[e] IN
  CASE b.k = "accept" ->
         IF ~s.mux[e] THEN
            (* receiver dropped while we waited: Err(SendStreamToClient) *)
            BeginWd(DropHandle([s EXCEPT !.rxblk[e].k = "none"], e, b.h), e, TRUE, "ok")
         ELSE IF Len(s.acceptq[e]) < s.cfg[e].acceptCap
         THEN Wake([s EXCEPT !.acceptq[e] = Append(@, b.h), !.rxblk[e] = [k |-> "none", h |-> 0, m |-> NoMsg]],
                   {[k |-> "acc", e |-> e, x |-> 0]})
         ELSE s
    [] b.k = "bind" ->
         LET q == [id |-> b.m.id, bt |-> b.m.bt, host |-> b.m.host, port |-> b.m.port, g |-> b.m.g, open |-> FALSE] IN
         IF ~s.mux[e] THEN Out([s EXCEPT !.rxblk[e] = [k |-> "none", h |-> 0, m |-> NoMsg]], e, MReset(b.m.id, b.m.g))
         ELSE IF Len(s.bindq[e]) < s.cfg[e].bindCap
         THEN Wake([s EXCEPT !.bindq[e] = Append(@, q), !.rxblk[e] = [k |-> "none", h |-> 0, m |-> NoMsg]],
                   {[k |-> "nb", e |-> e, x |-> 0]})
         ELSE s
    [] OTHER -> s

SrcHasMsg(s, e) == s.src[e] = "open" /\ s.wire[Peer(e)] # <<>>

(* RFC 6455: the WebSocket layer answers a Ping with a Pong by itself (process_message: "the underlying WebSocket
   implementation is expected to respond to Ping messages automatically"); the simulated transport does so at the
   moment the Ping is handed to the task, provided its sending direction still works.  The Pong does not pass
   through the task's outbound queue. *)
AutoPong(s, e, m) ==
  IF m.op = "ping" /\ s.sink[e] = "open"
  THEN [s EXCEPT !.wire[e] = Append(@, MkMsg("pong")), !.obs.sent = Append(@, MkMsg("pong"))]
  ELSE s

(* take one message from the link and process it (main loop) *)
RecvOne(s, e) ==
  LET m  == Head(s.wire[Peer(e)])
      s1 == [s EXCEPT !.wire[Peer(e)] = Tail(@), !.obs.rcv = m]
  IN CASE m.op = "eos" -> BeginWd([s1 EXCEPT !.src[e] = "ended"], e, FALSE, "ok")
       [] m.op = "err" -> BeginWd([s1 EXCEPT !.src[e] = "ended"], e, FALSE, "ws")
       [] OTHER -> Process(AutoPong(s1, e, m), e, m, FALSE)

(* hand the head of the outbound queue to the sink (start_send), counting Push frames for C03.  The sink buffers: the
   message reaches the link -- becomes visible to the peer -- only when the sink is flushed (Flush), which the main loop
   does right after every message and wind_down only as part of closing the sink. *)
PutOnWire(s, e, m) ==
  LET s1 == [s EXCEPT !.unfl[e] = Append(@, m), !.snt[e] = @ + 1, !.obs.sent = Append(@, m)] IN
  IF m.op = "push" /\ m.w \in DOMAIN s.hnd[e]
  THEN LET s2 == [s1 EXCEPT !.hnd[e][m.w].pshWire = @ + 1]
           x  == s2.hnd[e][m.w]
       IN IF s.healthy /\ x.pshWire > x.adv + x.ackGot THEN Flag(s2, "C03.CreditBound") ELSE s2
  ELSE s1

SendOne(s, e) ==
  PutOnWire([s EXCEPT !.outq[e] = Tail(@)], e, Head(s.outq[e]))

(* poll_flush completes: everything the sink has buffered is on the link *)
Flush(s, e) == [s EXCEPT !.wire[e] = @ \o s.unfl[e], !.unfl[e] = <<>>, !.fl[e] = FALSE]

(* schedule_ping_task, one poll: an interval timer of period kaI whose first tick is immediate (the timer is created
   by the first poll of the task) and which skips missed ticks (MissedTickBehavior::Skip: the schedule stays aligned).
   At a tick: more than kaT since the last Pong (or since the Multiplexor was created) ends the main loop with
   KeepaliveTimeout, else a Ping is queued behind whatever is already in the outbound queue. *)
KaDue(s, e) == IF s.ka[e].started THEN s.ka[e].next ELSE s.now
KaEnabled(s, e) == s.cfg[e].kaI > 0 /\ s.now >= KaDue(s, e)
KaStep(s, e) ==
  LET c   == s.cfg[e]
      due == KaDue(s, e)
  IN IF ~KaEnabled(s, e) THEN s
     ELSE LET nx == due + c.kaI * (((s.now - due) \div c.kaI) + 1)
              s1 == [s EXCEPT !.ka[e].started = TRUE, !.ka[e].next = nx]
          IN IF c.kaT > 0 /\ s.now - s.ka[e].lastPong > c.kaT
             THEN BeginWd(s1, e, FALSE, "keepalive")
             ELSE Out(s1, e, MkMsg("ping"))

(* one drop notification *)
DropOne(s, e) ==
  LET nt == Head(s.drops[e])
      s1 == [s EXCEPT !.drops[e] = Tail(@)]
      sl == SlotOf(s, e, nt.id)
      (* the notification names only the flow id: it acts on whatever slot has that id now *)
      s2 == IF nt.id # 0 /\ sl.k # "none" /\ ~(sl.k = "Est" /\ sl.h = nt.h) THEN Stale(s1, "StaleDrop") ELSE s1
  IN IF nt.id = 0 THEN BeginWd(s1, e, TRUE, "ok") ELSE CloseFlow(s2, e, nt.id, FALSE, "local")

(* final part of wind_down: close every remaining slot locally, close and drain the drop channel *)
RECURSIVE CloseAll(_, _, _)
CloseAll(s, e, ids) ==
  IF ids = {} THEN s
  ELSE LET id == CHOOSE i \in ids : TRUE IN
       CloseAll(CloseLocal(s, e, id, s.slot[e][id], TRUE, "down"), e, ids \ {id})

Finalize(s, e) ==
  LET s1 == CloseAll(s, e, DOMAIN s.slot[e])
      (* the task and with it the WebSocket object are destroyed: the transport is closed, so the
         peer's source ends after whatever is still in flight *)
      s2 == [s1 EXCEPT !.slot[e] = <<>>, !.drops[e] = <<>>, !.dropsClosed[e] = TRUE, !.unfl[e] = <<>>, !.fl[e] = FALSE,
                       !.task[e].ph = "done", !.rxblk[e] = [k |-> "none", h |-> 0, m |-> NoMsg],
                       !.wire[e] = Append(@, MkMsg("eos"))]
      (* the Task object is destroyed: every receiver waiting on one of its channels is woken *)
      s3 == Wake(s2, {[k |-> "acc", e |-> e, x |-> 0], [k |-> "dg", e |-> e, x |-> 0], [k |-> "nb", e |-> e, x |-> 0]})
  IN [s3 EXCEPT !.obs.res = s.task[e].res]

(* poll_close on the sink *)
CloseSink(s, e) ==
  LET s0 == IF /\ ~s.mux[e] /\ s.sink[e] = "open" /\ s.healthy
               /\ (s.task[e].drain \/ s.task[e].res # "ok")     \* not ended by the peer
               (* ... nor by the keepalive: a tick that finds the peer silent for too long is polled before the drop
                  notification (select_biased!), and a connection declared dead owes no flush *)
               /\ s.task[e].res # "keepalive"
               /\ s.snt[e] < s.flushTo[e]
            THEN Flag(s, "C08.FlushOnDrop") ELSE s
  (* closing a working sink flushes what it has buffered, then sends Close *)
  IN IF s.sink[e] = "open"
     THEN [s0 EXCEPT !.sink[e] = "closed", !.wire[e] = Append(@ \o s.unfl[e], MkMsg("close")), !.unfl[e] = <<>>,
                     !.obs.sent = Append(@, MkMsg("close"))]
     ELSE s0

(* ------------------------------------------------------------------ *)
(* One poll of the task future with gr delivery grants and gs send     *)
(* grants (each 0 or 1): the composition the implementation performs.  *)
(* Deterministic.                                                      *)
(* ------------------------------------------------------------------ *)

(* phases after the main loop; returns the state at the next suspension point *)
RECURSIVE WdRun(_, _, _, _)
WdRun(s, e, gr, gs) ==
  LET t == s.task[e] IN
  CASE t.ph = "wd1" ->
         (* tx_msg_rx.close() *)
         WdRun([s EXCEPT !.outClosed[e] = TRUE, !.task[e].ph = IF t.drain THEN "flush" ELSE "close"], e, gr, gs)
    [] t.ph = "flush" ->
         IF s.outq[e] = <<>> THEN WdRun([s EXCEPT !.task[e].ph = "close"], e, gr, gs)
         ELSE IF s.sink[e] \in {"cut", "closed"} THEN WdRun([s EXCEPT !.task[e].ph = "close"], e, gr, gs)   \* error: stop flushing
         ELSE IF gs = 0 THEN s
         ELSE IF s.sink[e] = "softcut"      \* poll_ready succeeds, start_send fails: the message is lost, flushing stops
              THEN WdRun([s EXCEPT !.outq[e] = Tail(@), !.task[e].ph = "close"], e, gr, 0)
         ELSE WdRun(SendOne(s, e), e, gr, 0)
    [] t.ph = "close" ->
         (* the peer is waited for only after a graceful end and if our own Close could be sent *)
         WdRun([CloseSink(s, e) EXCEPT !.task[e].ph = IF t.res = "ok" /\ s.sink[e] \notin {"cut", "softcut"} THEN "drain" ELSE "drain0"],
               e, gr, gs)
    [] t.ph \in {"drain", "drain0"} ->
         IF s.src[e] = "ended" THEN Finalize(s, e)
         ELSE IF gr = 0 \/ s.wire[Peer(e)] = <<>> THEN (IF t.ph = "drain0" THEN Finalize(s, e) ELSE s)
         ELSE LET m  == Head(s.wire[Peer(e)])
                  s1 == [s EXCEPT !.wire[Peer(e)] = Tail(@), !.obs.rcv = m]
              IN IF m.op \in {"eos", "err"} THEN Finalize([s1 EXCEPT !.src[e] = "ended"], e)
                 ELSE WdRun(Process(AutoPong(s1, e, m), e, m, TRUE), e, 0, gs)
    [] OTHER -> s

RECURSIVE DropsAll(_, _)
DropsAll(s, e) ==
  IF s.task[e].ph # "run" \/ s.drops[e] = <<>> THEN s ELSE DropsAll(DropOne(s, e), e)

(* poll_flush inside the send arm of the main loop: a failed sink ends the loop *)
FlushStep(s, e) ==
  IF s.sink[e] = "open" THEN Flush(s, e) ELSE BeginWd([s EXCEPT !.fl[e] = FALSE], e, FALSE, "ws")

(* process_message_to_send_task, one poll: loop { poll_ready; take a message; start_send; poll_flush }.  gs = the sink
   accepts one message in this poll, gf = the sink completes a flush in this poll (else poll_flush is Pending and the
   arm stays suspended there: fl) *)
SendStage(a2, e, gs, gf) ==
  IF a2.task[e].ph # "run" THEN a2
  (* a sink that has failed reports it at once, whether or not it would have had time to flush *)
  ELSE LET f0 == IF a2.fl[e] THEN (IF gf = 1 \/ a2.sink[e] # "open" THEN FlushStep(a2, e) ELSE a2) ELSE a2 IN
       IF f0.task[e].ph # "run" \/ f0.fl[e] THEN f0
       ELSE IF f0.sink[e] \in {"cut", "closed"} THEN BeginWd(f0, e, FALSE, "ws")
       ELSE IF gs = 1 /\ f0.outq[e] # <<>>
            THEN (IF f0.sink[e] = "softcut"     \* start_send fails after the message was taken
                  THEN BeginWd([f0 EXCEPT !.outq[e] = Tail(@)], e, FALSE, "ws")
                  ELSE LET s1 == SendOne(f0, e) IN
                       IF gf = 1 THEN FlushStep(s1, e) ELSE [s1 EXCEPT !.fl[e] = TRUE])
       ELSE f0

TaskPollF(s, e, gr, gs, gf) ==
  LET s0 == Obs(s, [NoObs EXCEPT !.res = "pending"]) IN
  IF s.task[e].ph = "done" THEN {}
  ELSE IF s.task[e].ph # "run" THEN {WdRun(s0, e, gr, gs)}
  ELSE
    (* 1. process_ws_next *)
    LET a1 == IF s0.rxblk[e].k # "none" THEN Unblock(s0, e) ELSE s0
        a2 == IF a1.task[e].ph = "run" /\ a1.rxblk[e].k = "none" /\ gr = 1 /\ a1.src[e] = "open"
                 /\ a1.wire[Peer(e)] # <<>>
              THEN RecvOne(a1, e) ELSE a1
        (* 2. process_message_to_send_task *)
        a3 == SendStage(a2, e, gs, gf)
        (* 3. schedule_ping_task *)
        a3k == IF a3.task[e].ph = "run" THEN KaStep(a3, e) ELSE a3
        (* 4. process_dropped_flows_task *)
        a4 == DropsAll(a3k, e)
    IN {a4}

TaskPoll(s, e, gr, gs) == TaskPollF(s, e, gr, gs, 1)

(* ================================================================== *)
(* Environment                                                         *)
(* ================================================================== *)
Unhealthy(s) == [s EXCEPT !.healthy = FALSE]

(* the transport from Peer(e) to e fails: queued messages are lost, e's next receive returns an error *)
CutSrc(s, e) ==
  IF s.src[e] # "open" THEN {}
  ELSE {Obs([Unhealthy(s) EXCEPT !.wire[Peer(e)] = <<MkMsg("err")>>], NoObs)}
(* the transport from Peer(e) to e ends without a Close message *)
EndSrc(s, e) ==
  IF s.src[e] # "open" THEN {}
  ELSE {Obs([Unhealthy(s) EXCEPT !.wire[Peer(e)] = Append(@, MkMsg("eos"))], NoObs)}
(* e's sending direction fails *)
CutSink(s, e) ==
  IF s.sink[e] # "open" THEN {}
  ELSE {Obs([Unhealthy(s) EXCEPT !.sink[e] = "cut"], NoObs)}
(* the same, but only noticed when something is actually sent or the sink is closed (poll_ready succeeds) *)
SoftCutSink(s, e) ==
  IF s.sink[e] # "open" THEN {}
  ELSE {Obs([Unhealthy(s) EXCEPT !.sink[e] = "softcut"], NoObs)}
(* time passes *)
AdvanceTo(s, t) == IF t < s.now THEN {} ELSE {Obs([s EXCEPT !.now = t], NoObs)}
(* an arbitrary message appears on the link towards e (adversary / raw peer) *)
Inject(s, e, m) == {Obs([Unhealthy(s) EXCEPT !.wire[Peer(e)] = Append(@, m), !.advn = @ + 1], NoObs)}

=============================================================================
