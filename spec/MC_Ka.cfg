SPECIFICATION Spec
CONSTANTS
  AckMode = "shaped"
  ThrMode = "fixed"
  EmptyMode = "fixed"
  RstMode = "fixed"
  CfgSet <- KaCfgsQ
  SameCfg = TRUE
  Openers = {"A"}
  MaxOpens = 1
  Ids = {1}
  Hosts = {"h0"}
  MaxWrites = 0
  Writers = {"A", "B"}
  Lens = {1}
  ReadMax = {4}
  Closers = {}
  MuxDroppers = {"A"}
  Cancellers = {}
  DgSenders = {}
  MaxDgrams = 0
  Binders = {}
  MaxBinds = 0
  Faults = {}
  AdvMsgs = {}
  MaxAdv = 0
  Bridgers = {}
  SplitFlush = FALSE
  MaxNow = 2
  MaxHandles = 1
  MaxCtr = 1
VIEW View
CONSTRAINT Bound
INVARIANTS NoViolation TypeOK AckSound QueueBound InitialCredit ExactlyOne TargetCarried BoundedRetry Released DoneResolved NoOrphanWriter KaExitSound KaSilentWhenOff
CHECK_DEADLOCK FALSE
