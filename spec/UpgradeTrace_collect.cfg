\* C14 trace validation, collecting: every unmatched line is reported with its signature
SPECIFICATION Spec
CONSTANTS
  Collect = TRUE
CONSTRAINT Track
POSTCONDITION Accepted
CHECK_DEADLOCK FALSE
