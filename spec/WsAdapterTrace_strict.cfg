\* WsAdapter trace validation, strict: a behaviour stops at a line it cannot match
SPECIFICATION Spec
CONSTANTS
  EofNoneOk = TRUE
  Collect = FALSE
CONSTRAINT Track
POSTCONDITION Accepted
CHECK_DEADLOCK FALSE
