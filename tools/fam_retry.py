#!/usr/bin/env python3
"""C19: the client survives connection loss -- bounded back-off, retry limit, no lost request.

Part A (exact, no timing) -- the back-off generator
  spec/Backoff.tla         the generator as a state machine, from the property text
  spec/MC_Backoff.tla      TLC: all small tuples x all advance/reset sequences, the clauses of the property,
                           one CASE line per behaviour with the expected return values
  harness backoff_vec      replays them (and seeded random ones with large values) on penguin_mux::timing::Backoff
  spec/BackoffTrace.tla    TLC validates every logged line

Part B (real client, real sockets on loopback, real time) -- the reconnection loop
  spec/ClientRetry.tla     the attempt loop as a state machine, from the property text
  spec/MC_Retry.tla        TLC: the clauses of the property on every state; enumerates the scripts of server
                           behaviours (one CASE line per script, with the waiting windows)
  harness_app retry_sim    runs client_main_inner against a scripted fake server, logs what is observable
  spec/RetryTrace.tla      TLC validates every log against ClientRetry.tla (counts and order exact, exact lower
                           bounds on time gaps, generous upper bounds)

Order of work: all TLC runs that produce cases, then part A, then the real-time section of part B with no TLC
running, then trace validation.

A rejected log/line gets the stable signature TLC computed for the disagreement.  A signature that is an `open`
entry of KNOWN_FINDINGS.json ({"property":"C19","status":"open","sig":...}) is printed as KNOWN-FINDING and does
not fail the check -- for orderly_close_no_reconnect only if the whole log conforms to the pinned behaviour
(RetryTrace_pinned.cfg); anything else is a VIOLATION.
"""
import collections, json, os, random, re, shutil, subprocess, sys, tempfile, time

import vlib
from vlib import log, ToolError

CASE_RE = re.compile(r'^<<"CASE", "(.*)">>$', re.M)
BAD_RE = re.compile(r'^<<"BAD", (\d+), "([^"]*)", "(.*)">>$')

TIERS = {
    "quick": dict(a_cfg="MC_Backoff_q", a_random=4000, b_cfg="MC_Retry_q", b_pick=12, b_par=1, b_budget=70,
                  sim=0),
    "thorough": dict(a_cfg="MC_Backoff", a_random=120000, b_cfg="MC_Retry", b_pick=None, b_par=6, b_budget=600,
                     sim=1500),
}
PINNED_SIG = "orderly_close_no_reconnect"


def _unq(s):
    return json.loads(s.encode().decode("unicode_escape"))


def cases_of(out):
    return [_unq(m.group(1)) for m in CASE_RE.finditer(out)]


def canon(x):
    return json.dumps(x, sort_keys=True, separators=(",", ":"))


# --------------------------------------------------------------------------------------
# part A
# --------------------------------------------------------------------------------------
def a_enumerate(cfg):
    r = vlib.model_check("MC_Backoff", cfg, workers=1, timeout=1500, coverage=False)
    if not r["ok"]:
        log(r["out"][-3000:])
        raise ToolError(f"spec/Backoff.tla violates its own clause {r['violated']} in {cfg}")
    cases = cases_of(r["out"])
    if not cases:
        raise ToolError("vacuous enumeration: MC_Backoff printed no case")
    n_none = sum(1 for c in cases if -1 in c["exp"])
    n_clamp = sum(1 for c in cases if any(v == c["max"] and c["initial"] < c["max"] for v in c["exp"]))
    n_reset = sum(1 for c in cases if "r" in c["ops"])
    if min(n_none, n_clamp, n_reset) == 0:
        raise ToolError("vacuous enumeration: no case with None / a clamped delay / a reset")
    return cases, r


def a_validate(path, cfg="BackoffTrace"):
    r = vlib.validate_once("BackoffTrace", cfg, path, timeout=1500, xmx="8g", raw=True)
    out = r["out"]
    m = re.search(r'<<"OVERFLOW_PANICS_ALLOWED", (\d+)>>', out)
    ovf = int(m.group(1)) if m else 0
    m = re.search(r'<<"ACCEPTED lines", (\d+)>>', out)
    if m:
        return int(m.group(1)), [], ovf, r["states"]
    bad = []
    for line in out.split("\n"):
        mb = BAD_RE.match(line.strip())
        if mb:
            try:
                exp = _unq(mb.group(3))
            except Exception:
                exp = None
            bad.append((int(mb.group(1)), mb.group(2), exp))
    m = re.search(r'<<"REJECTED at line", (\d+), "of", (\d+)>>', out)
    mc = re.search(r'<<"BADCOUNT", (\d+)>>', out)
    if not m or not bad or not mc or int(mc.group(1)) != len(bad):
        log(out[-3000:])
        raise ToolError("trace validation ended without a verdict for " + path)
    return int(m.group(2)), bad, ovf, r["states"]


def a_describe(rec, exp):
    return (f"Backoff::new({rec['initial']}, {rec['max']}, {rec.get('mult_real', rec['mult'])}, "
            f"{rec.get('max_count_real', rec['max_count'])}) [unit {rec['unit']}] ops={''.join(rec['ops'])} -> "
            f"{rec['res']}{' at op ' + str(rec['panic_at']) if rec['res'] == 'panic' else ''} rets={rec['rets']}"
            f"   specification: {(exp or {}).get('rets')}   (-1 = None, -2 = reset)")


def part_a(prop, T, seed, bins, work, replay=None):
    """returns dict(stats..., rejected = {sig: [(rec, exp, src)]})"""
    bin_path = os.path.join(bins, "backoff_vec")
    logs = []
    mc = None
    cases = []
    if replay:
        out = os.path.join(work, "a_replay.ndjson")
        rc, o = vlib.run([bin_path, "cases", os.path.abspath(replay), out], timeout=600)
        if rc != 0:
            raise ToolError("backoff_vec failed on the replay file: " + o[-500:])
        logs.append(("replay", out))
    else:
        cases, mc = a_enumerate(T["a_cfg"])
        log(f"[A mc] {T['a_cfg']}: {mc['distinct']} distinct states, {mc['states']} generated, {len(cases)} behaviours, "
            f"{mc['wall']:.1f}s; clauses NoneExactly DelayLaw Bounded Monotone RestartsShortest ReplayAgrees hold")
        cpath = os.path.join(work, "a_cases.ndjson")
        with open(cpath, "w") as f:
            for c in cases:
                f.write(json.dumps({k: c[k] for k in ("initial", "max", "mult", "max_count", "ops")}) + "\n")
        out = os.path.join(work, "a_cases_log.ndjson")
        rc, o = vlib.run([bin_path, "cases", cpath, out], timeout=1200)
        if rc != 0:
            log(o[-2000:])
            raise ToolError("backoff_vec cases failed")
        logs.append(("tlc-cases", out))
        out = os.path.join(work, "a_random_log.ndjson")
        rc, o = vlib.run([bin_path, "random", str(int(seed) * 1000003 + 19), str(T["a_random"]), out], timeout=1200)
        if rc != 0:
            log(o[-2000:])
            raise ToolError("backoff_vec random failed")
        logs.append(("random", out))
    total = accepted = ovf_total = states = 0
    rejected = collections.defaultdict(list)
    nontrivial = set()
    samples = []
    for name, path in logs:
        n, bad, ovf, st = a_validate(path)
        lines = open(path).readlines()
        if n != len(lines) or n == 0:
            raise ToolError(f"TLC saw {n} lines of {len(lines)} in {name}")
        if name == "tlc-cases" and n != len(cases):
            raise ToolError(f"backoff_vec logged {n} lines for {len(cases)} cases")
        total += n
        accepted += n - len(bad)
        ovf_total += ovf
        states += st
        badset = {b[0] for b in bad}
        for ln, sig, exp in bad:
            if sig.startswith("other:malformed"):
                raise ToolError(f"malformed log line {ln} in {name}: {lines[ln - 1][:300]}")
            rejected[sig].append((json.loads(lines[ln - 1]), exp, name))
        for i, text in enumerate(lines, 1):
            if i in badset:
                continue
            rec = json.loads(text)
            if rec["res"] == "ok" and (-1 in rec["rets"] or ("r" in rec["ops"] and "a" in rec["ops"])):
                nontrivial.add(vlib.trace_hash([canon({k: rec[k] for k in ("unit", "initial", "max", "mult_real", "max_count_real", "ops", "rets")})]))
                if len(samples) < 2 and -1 in rec["rets"] and "r" in rec["ops"] and len(rec["ops"]) >= 5 and rec["src"] != (samples[0]["src"] if samples else None):
                    samples.append(rec)
        log(f"[A trace] {name}: {n} lines, {n - len(bad)} accepted by TLC, {len(bad)} rejected"
            + (f", {ovf} panics where the next delay is not representable as a Duration (outside the quantifier, allowed)" if ovf else ""))
    return dict(mc=mc, cases=len(cases), total=total, accepted=accepted, overflow_panics=ovf_total, tv_states=states,
                rejected=rejected, nontrivial=nontrivial, samples=samples)


# --------------------------------------------------------------------------------------
# part B
# --------------------------------------------------------------------------------------
def est_seconds(s):
    """expected real time of a script (seconds), pessimistic about finding orderly_close_no_reconnect"""
    t = 0.3
    steps = s["steps"]
    delays = s["expect"]["delays"]
    for j, st in enumerate(steps):
        b = st["beh"]
        last = j == len(steps) - 1
        t += st["d"] / 1000.0
        if b == "stall":
            t += s["hs"] / 1000.0
        if b == "mute":
            t += s["ct"] / 1000.0
        if last:
            if b == "healthy":
                t += st["wait"] / 1000.0
            elif b == "down":
                t += (sum(d for d in delays[j - 1 if j else 0:] if d > 0) / 1000.0) if s["mrc"] else st["wait"] / 1000.0
        else:
            if delays[j] > 0 and steps[j + 1]["beh"] != "down":
                t += delays[j] / 1000.0
            if b == "close_orderly":
                t += s["nudge_wait"] / 1000.0 + 0.3
    return t


def feat(s):
    """coarse features of a script, used to pick a representative quick set"""
    behs = [x["beh"] for x in s["steps"]]
    f = set()
    res = s["expect"]["result"]
    n = len(behs)
    opens = [x["open"] for x in s["steps"]]
    if res == "MaxRetryCountReached" and "down" not in behs and all(b in ("refuse", "rst") for b in behs) and "rst" in behs:
        f.add("give_up")
    if "stall" in behs and opens[behs.index("stall")] and behs[-1] == "healthy" and n == 2:
        f.add("stall_then_healthy")
    if behs[-1] == "bad" and n == 3 and behs[0] == "refuse" and "stall" not in behs and "mute" not in behs:
        f.add("fatal_after_failures")
    if n == 2 and behs == ["close_orderly", "healthy"] and s["steps"][0]["d"] == 600 and opens == [True, True]:
        f.add("orderly_close")
    if n == 3 and behs == ["refuse", "close_abrupt", "healthy"] and opens[0] and not opens[1] and s["mrc"] == 0:
        f.add("abrupt_close_pending_served")
    if n == 3 and behs == ["refuse", "mute", "healthy"] and opens[0] and not opens[1]:
        f.add("request_timeout_then_served")
    if behs == ["mute", "mute", "healthy"] and opens == [True, False, False]:
        f.add("request_timeout_twice_then_served")
    if behs == ["drop_unserved", "healthy"] and opens == [True, False]:
        f.add("inflight_request_survives_connection_loss")
    if behs == ["drop_unserved", "drop_unserved", "healthy"] and opens == [True, False, False]:
        f.add("inflight_request_survives_two_losses")
    if behs == ["refuse", "down"] and opens == [False, True] and s["mrc"] == 2:
        f.add("down_give_up")
    if behs == ["close_abrupt", "down"] and s["mrc"] == 0 and opens == [False, True]:
        f.add("down_for_ever")
    if behs == ["refuse", "close_abrupt", "refuse", "refuse"] and s["mrc"] == 2 and not any(opens) and s["steps"][1]["d"] == 600:
        f.add("reset_counts")
    if behs == ["stall", "refuse", "refuse"] and s["mrc"] == 2 and not any(opens):
        f.add("stall_give_up")
    return f


QUICK_FEATURES = ["give_up", "stall_then_healthy", "fatal_after_failures", "orderly_close", "abrupt_close_pending_served",
                  "request_timeout_then_served", "request_timeout_twice_then_served", "inflight_request_survives_connection_loss",
                  "inflight_request_survives_two_losses", "down_give_up", "down_for_ever", "reset_counts", "stall_give_up"]
# features about several consecutive connections that were established and lost again: whether such a connection counts as a
# success (the retry counter and the delay start again) shows in the give-up decision only when a retry limit is set, so the
# quick tier runs one script per value of max_retry_count
PER_MRC_FEATURES = ("request_timeout_twice_then_served", "inflight_request_survives_two_losses")


def b_model_check(cfg, need_cases=True, needs=("Choose", "OpenNow")):
    r = vlib.model_check("MC_Retry", cfg, workers=1, timeout=1500, coverage=True)
    if not r["ok"]:
        log(r["out"][-3000:])
        raise ToolError(f"spec/ClientRetry.tla violates its own clause {r['violated']} in {cfg}")
    cases = cases_of(r["out"])
    if need_cases and not cases:
        raise ToolError(f"vacuous enumeration: {cfg} printed no script")
    for a in needs:
        if r["coverage"].get(a, (0, 0))[1] == 0:
            raise ToolError(f"vacuous run: action {a} never taken in {cfg}")
    return cases, r


def b_simulate(seed, num):
    meta = tempfile.mkdtemp(prefix="sim_", dir=vlib.WORK)
    cmd = ["timeout", "600"] + vlib.tlc_cmd("MC_Retry.tla", "MC_Retry_sim.cfg", 1, meta,
                                            extra=["-simulate", f"num={num}", "-depth", "80", "-seed", str(int(seed))],
                                            jvm=("-Xmx2g",))
    rc, out = vlib.run(cmd, timeout=660, cwd=vlib.SPEC)
    shutil.rmtree(meta, ignore_errors=True)
    if rc != 0 or "Error:" in out:
        log(out[-3000:])
        raise ToolError("TLC simulation of MC_Retry_sim failed")
    m = re.search(r"The number of states generated: (\d+)", out)
    return cases_of(out), int(m.group(1)) if m else 0


def strip_expect(s):
    return {k: v for k, v in s.items() if k != "expect"}


def tls_twin(s, mode):
    """the same script with the client on a wss:// URL behind the TLS-terminating relay of retry_sim (mode "pre": a stalled
    attempt stalls inside the TLS handshake; "post": after it).  The specification does not distinguish the transports."""
    t = json.loads(json.dumps(s))
    t["tls"] = mode
    return t


def run_scripts(bins, scripts, work, par, tag):
    """run the scripts on the real client; returns list of traces (each a list of lines) in script order"""
    bin_path = os.path.join(bins, "retry_sim")
    par = max(1, min(par, len(scripts)))
    # greedy balancing by expected duration
    buckets = [[] for _ in range(par)]
    load = [0.0] * par
    for idx in sorted(range(len(scripts)), key=lambda i: -est_seconds(scripts[i])):
        b = load.index(min(load))
        buckets[b].append(idx)
        load[b] += est_seconds(scripts[idx]) + 0.4
    procs = []
    for b, idxs in enumerate(buckets):
        idxs.sort()
        sp = os.path.join(work, f"b_{tag}_{b}.scripts.ndjson")
        op = os.path.join(work, f"b_{tag}_{b}.log.ndjson")
        with open(sp, "w") as f:
            for i in idxs:
                f.write(json.dumps(strip_expect(scripts[i])) + "\n")
        p = subprocess.Popen([bin_path, "run", sp, op], stdout=subprocess.PIPE, stderr=subprocess.STDOUT, text=True)
        procs.append((p, idxs, op))
    # every script has its own budget inside retry_sim (a `hang` event is data); the outer deadline only guards against a
    # driver that is stuck: generous, so that a defect that makes many scripts run to their budgets still yields traces
    deadline = time.time() + max(load) * 3 + 12 * max(len(b) for b in buckets) + 600
    traces = [None] * len(scripts)
    for p, idxs, op in procs:
        try:
            o, _ = p.communicate(timeout=max(5, deadline - time.time()))
        except subprocess.TimeoutExpired:
            for q, _, _ in procs:
                q.kill()
            raise ToolError("retry_sim did not finish in time")
        if p.returncode != 0:
            log((o or "")[-2000:])
            raise ToolError(f"retry_sim failed (exit {p.returncode})")
        got = vlib.split_batch(op) if os.path.getsize(op) else []
        if len(got) != len(idxs):
            raise ToolError(f"retry_sim logged {len(got)} traces for {len(idxs)} scripts")
        for i, (_, lines) in zip(idxs, got):
            traces[i] = lines
    return traces


def port_clash(lines):
    try:
        last = json.loads(lines[-1])
    except Exception:
        return False
    # EADDRINUSE: the port the driver had probed as free was taken by another process before the client bound it
    return (last.get("ev") == "result" and last.get("res") == "RemoteHandlerExited"
            and "os error 98" in last.get("detail", ""))


def validate_traces(traces, work, tag, cfg="RetryTrace", jobs=8):
    """TLC validates the logs, in `jobs` batches side by side (a rejected log costs one more TLC run: vlib.validate_batch
    isolates it and resumes behind it).  Returns dict(traces, accepted, failures (index = position in `traces`), states)."""
    from concurrent.futures import ThreadPoolExecutor
    n = len(traces)
    size = max(1, -(-n // jobs))
    chunks = [(a, traces[a:a + size]) for a in range(0, n, size)]

    def one(arg):
        a, part = arg
        path = os.path.join(work, f"b_{tag}_{cfg}_{a}.ndjson")
        with open(path, "w") as f:
            for t in part:
                f.writelines(t)
        return a, vlib.validate_batch("RetryTrace", cfg, path, timeout=1500, max_failures=100000)

    res = dict(traces=0, accepted=0, failures=[], states=0)
    with ThreadPoolExecutor(max_workers=jobs) as ex:
        for a, r in ex.map(one, chunks):
            res["traces"] += r["traces"]
            res["accepted"] += r["accepted"]
            res["states"] += r["states"]
            for f in r["failures"]:
                f["index"] += a
                res["failures"].append(f)
    return res


def timeline(lines, mark=None):
    out = []
    for i, l in enumerate(lines, 1):
        try:
            r = json.loads(l)
        except Exception:
            continue
        ev = r.get("ev")
        if ev == "reset":
            s = r["script"]
            out.append(f"     script: max_retry_count={s['mrc']} max_retry_interval={s['mri']}ms handshake_timeout={s['hs']}ms "
                       f"channel_timeout={s['ct']}ms steps=" +
                       " ".join(f"{x['beh']}{'(' + str(x['d']) + ')' if x['beh'].startswith('close') else ''}{'+open' if x['open'] else ''}" for x in s["steps"]))
            continue
        t = r.get("t", 0)
        body = {k: v for k, v in r.items() if k not in ("ev", "t")}
        out.append(f"{'>>' if i == mark else '  '}{i:3d} t={t:>6}ms {ev:<11} {json.dumps(body, sort_keys=True)}")
    return "\n".join(out)


def part_b(prop, T, tier, seed, bins, work, replay=None):
    mc_runs = []
    states = transitions = 0
    scripts = []
    generated = 0
    if replay:
        for _, lines in vlib.split_batch(replay):
            scripts.append(json.loads(lines[0])["script"])
            scripts[-1].setdefault("expect", dict(delays=[0] * 64, result="none"))
    else:
        # 1. TLC: clauses of the property on ClientRetry (both modes), script enumeration
        cases, r = b_model_check(T["b_cfg"])
        mc_runs.append((T["b_cfg"], r, len(cases)))
        rcases, rr = b_model_check("MC_Retry_reset", needs=("Choose",))
        mc_runs.append(("MC_Retry_reset", rr, len(rcases)))
        _, rp = b_model_check("MC_Retry_pinned", need_cases=False, needs=("Choose", "OpenNow", "Nudge"))
        mc_runs.append(("MC_Retry_pinned", rp, 0))
        for name, x, n in mc_runs:
            states += x["distinct"]
            transitions += x["states"]
            log(f"[B mc] {name}: {x['distinct']} distinct states, {x['states']} generated, {n} scripts, {x['wall']:.1f}s; "
                "clauses DelaySequence ResetAfterSuccess GiveUpExactly NonRetryableEndsAtOnce ListenerAlive NoLostRequest hold")
        generated = len(cases) + len(rcases)
        rng = random.Random(int(seed) * 7919 + 19)
        cases.sort(key=lambda s: (round(est_seconds(s), 1), canon(s)))
        reset_timing = [s for s in rcases if [x["beh"] for x in s["steps"]] == ["refuse"] * 4 + ["close_abrupt", "healthy"] and s["mrc"] == 0]
        if not reset_timing:
            raise ToolError("MC_Retry_reset did not produce the reset-timing script")
        if tier == "quick":
            chosen = []
            for ft in QUICK_FEATURES:
                c = [s for s in cases if ft in feat(s)]
                if not c:
                    raise ToolError(f"vacuous enumeration: no script with feature {ft}")
                chosen.append(c[0])
                if ft in PER_MRC_FEATURES:
                    for m in sorted({x["mrc"] for x in c} - {c[0]["mrc"]}):
                        chosen.append([x for x in c if x["mrc"] == m][0])
            chosen.append(reset_timing[0])
            keys = {canon(s) for s in chosen}
            pool = [s for s in cases if canon(s) not in keys and est_seconds(s) <= 4.0 and len(s["steps"]) >= 3]
            for s in rng.sample(pool, min(2, len(pool))):
                chosen.append(s)
            # the production transport is wss://: the same scripts behind a TLS-terminating relay
            by_feat = {ft: [s for s in cases if ft in feat(s)][0] for ft in ("stall_give_up", "stall_then_healthy", "orderly_close")}
            chosen += [tls_twin(by_feat["stall_give_up"], "pre"), tls_twin(by_feat["stall_give_up"], "post"),
                       tls_twin(by_feat["stall_then_healthy"], "pre"), tls_twin(by_feat["orderly_close"], "post")]
            scripts = chosen
        else:
            sim_cases, sim_states = b_simulate(int(seed) * 31 + 7, T["sim"])
            transitions += sim_states
            seen = {canon(strip_expect(s)) for s in cases}
            longer = {}
            for s in sim_cases:
                if len(s["steps"]) >= 5 and canon(strip_expect(s)) not in seen:
                    longer.setdefault(canon(strip_expect(s)), s)
            longer = [longer[k] for k in sorted(longer)]
            log(f"[B sim] MC_Retry_sim: {sim_states} states in random walks, {len(sim_cases)} complete scripts, "
                f"{len(longer)} distinct with 5-6 attempts")
            generated += len(longer)
            capacity = T["b_budget"] * T["b_par"]
            must = [s for s in cases if len(s["steps"]) <= 2 or feat(s)] + rcases[:]
            used = sum(est_seconds(s) + 0.4 for s in must)
            rng.shuffle(longer)
            take_long = longer[:60]
            used += sum(est_seconds(s) + 0.4 for s in take_long)
            keys = {canon(s) for s in must}
            rest = [s for s in cases if canon(s) not in keys]
            rng.shuffle(rest)
            sample = []
            for s in rest:
                c = est_seconds(s) + 0.4
                if used + c > capacity:
                    continue
                sample.append(s)
                used += c
            scripts = must + take_long + sample
            twins = [tls_twin(s, rng.choice(["pre", "post"])) for s in must + sample
                     if all(x["beh"] != "down" for x in s["steps"]) and (feat(s) or rng.random() < 0.2)]
            scripts += twins
            used += sum(est_seconds(s) + 0.4 for s in twins)
            log(f"[B plan] + {len(twins)} of them once more over wss:// behind a TLS-terminating relay")
            log(f"[B plan] {len(cases) + len(rcases)} scripts enumerated; running {len(must)} (every script of at most 2 attempts, "
                f"the feature scripts, the long-interval set) + {len(sample)} sampled with seed {seed} + {len(take_long)} random long ones; "
                f"expected {used / T['b_par']:.0f}s with {T['b_par']} scripts in parallel")
    # 2. real-time section: no TLC is running now
    t_run = time.time()
    traces = run_scripts(bins, scripts, work, T["b_par"], "run")
    clash = [i for i, t in enumerate(traces) if port_clash(t)]
    if clash:
        log(f"[B run] {len(clash)} scripts lost their listener port to another process: run again")
        again = run_scripts(bins, [scripts[i] for i in clash], work, 1, "again")
        for i, t in zip(clash, again):
            if port_clash(t):
                raise ToolError("the client could not bind its local listener twice in a row")
            traces[i] = t
    run_wall = time.time() - t_run
    log(f"[B run] {len(scripts)} scripts on the real client in {run_wall:.1f}s ({T['b_par']} at a time)")
    # 3. TLC validates every log
    r = validate_traces(traces, work, "all")
    tv_states = r["states"]
    log(f"[B trace] {r['traces']} logs, {r['accepted']} accepted by TLC (RetryTrace, OrderlyMode=reconnect), {len(r['failures'])} rejected")
    def sig_of(f):
        if f.get("invariant"):
            return "clause_" + f["invariant"]
        if isinstance(f.get("expected"), dict) and f["expected"].get("sig"):
            return f["expected"]["sig"]
        return "other:unclassified"

    # Every rejected log is validated once more against the pinned behaviour (RetryTrace_pinned: after an orderly close the
    # client stays on the dead connection until a local connection arrives, then reconnects after 200 ms).  A log that
    # conforms to it as a whole shows exactly finding orderly_close_no_reconnect, whatever line the property rejected
    # first (a missing attempt, a client that never gives up because it never noticed, ...); any other log keeps the
    # signature of its own disagreement.
    rejected = collections.defaultdict(list)    # sig -> [(script index, failure to show)]
    first_sig = {f["index"]: sig_of(f) for f in r["failures"]}
    pinned_ok = set()
    if r["failures"]:
        idxs = [f["index"] for f in r["failures"]]
        rp = validate_traces([traces[i] for i in idxs], work, "pinned", cfg="RetryTrace_pinned")
        tv_states += rp["states"]
        bad = {f["index"]: f for f in rp["failures"]}
        for j, f in enumerate(r["failures"]):
            i = f["index"]
            if j not in bad:
                pinned_ok.add(i)
                rejected[PINNED_SIG].append((i, f))
            elif first_sig[i] == PINNED_SIG:
                g = dict(bad[j], index=i)
                rejected[sig_of(g) + "_in_pinned_mode"].append((i, g))
            else:
                rejected[first_sig[i]].append((i, f))
        log(f"[B trace] {len(idxs)} rejected logs validated against the pinned behaviour (RetryTrace_pinned): {len(pinned_ok)} conform as a whole "
            f"(finding {PINNED_SIG}; first rejected for: {dict(collections.Counter(first_sig[i] for i in pinned_ok))}), "
            f"{len(idxs) - len(pinned_ok)} do not")
    return dict(scripts=scripts, traces=traces, generated=generated, mc_runs=mc_runs, states=states, transitions=transitions,
                tv_states=tv_states, run_wall=run_wall, accepted=r["accepted"], rejected=rejected,
                pinned_ok=pinned_ok, first_sig=first_sig)


# --------------------------------------------------------------------------------------
def check(prop, tier, seed, replay):
    if tier not in TIERS:
        raise ToolError(f"unknown tier {tier}")
    T = TIERS[tier]
    t0 = time.time()
    bins_a = vlib.build_harness(["backoff_vec"])
    bins_b = vlib.build_harness(["retry_sim"], crate=vlib.HARNESS_APP)
    work = tempfile.mkdtemp(prefix=f"{prop}_", dir=vlib.WORK)
    known = {k.get("sig"): k for k in vlib.load_known()
             if k.get("property") == prop and k.get("status") == "open" and k.get("sig")}
    violations = []     # (path, sig, count)
    known_met = []
    try:
        A = B = None
        if replay:
            first = open(replay).readline()
            if '"ev":"reset"' in first:
                B = part_b(prop, T, tier, seed, bins_b, work, replay=os.path.abspath(replay))
            else:
                A = part_a(prop, T, seed, bins_a, work, replay=replay)
        else:
            A = part_a(prop, T, seed, bins_a, work)
            B = part_b(prop, T, tier, seed, bins_b, work)
        # ---- verdict, part A
        rej_summary = {}
        if A:
            for sig in sorted(A["rejected"]):
                items = sorted(A["rejected"][sig], key=lambda x: (len(x[0]["ops"]), canon(x[0])))
                rej_summary[sig] = dict(part="A", lines=len(items), smallest=a_describe(items[0][0], items[0][1]))
                if sig in known:
                    known_met.append(sig)
                    print(f"KNOWN-FINDING: property={prop} {known[sig]['what']}", flush=True)
                    log(f"   [{sig}] {len(items)} rejected lines, smallest: {a_describe(items[0][0], items[0][1])}")
                    continue
                note = [f"property {prop}, part A (back-off generator), signature {sig}: {len(items)} logged lines rejected by TLC "
                        "(spec/BackoffTrace.tla)", "smallest rejected lines (what the code returned   specification: what spec/Backoff.tla assigns):"]
                note += ["  " + a_describe(r, e) for r, e, _ in items[:12]]
                text = [canon(r) + "\n" for r, _, _ in items[:40]]
                path = replay or vlib.save_replay(prop, re.sub(r"[^A-Za-z0-9_]+", "_", sig), text, note="\n".join(note))
                violations.append((path, sig, len(items)))
                log("\n".join(note[:8]))
        # ---- verdict, part B
        if B:
            for sig in sorted(B["rejected"]):
                # shown first: a log the property rejected for this very signature, the shortest one
                items = sorted(B["rejected"][sig], key=lambda x: (B["first_sig"].get(x[0]) != sig, len(B["traces"][x[0]]), x[0]))
                i0, f0 = items[0]
                desc = timeline(B["traces"][i0], mark=f0["line_in_trace"])
                rej_summary[sig] = dict(part="B", logs=len(items), shortest=desc.split("\n")[0].strip(),
                                        rejected_line=f0.get("unmatched"))
                if sig == PINNED_SIG:
                    rej_summary[sig]["first_rejected_for"] = dict(collections.Counter(B["first_sig"][i] for i, _ in items))
                if sig in known:
                    known_met.append(sig)
                    print(f"KNOWN-FINDING: property={prop} {known[sig]['what']}", flush=True)
                    log(f"   [{sig}] {len(items)} logs; shortest:\n{desc}")
                    continue
                note = [f"property {prop}, part B (reconnection loop of the real client), signature {sig}: {len(items)} logs rejected by TLC "
                        "(spec/RetryTrace.tla, OrderlyMode=reconnect)",
                        f"first rejected line (>>) of the shortest log; specification state there: {json.dumps(f0.get('laststate'), sort_keys=True)}"]
                if f0.get("invariant"):
                    note.append(f"clause violated along the matched behaviour: {f0['invariant']}")
                note.append(desc)
                if sig == PINNED_SIG:
                    note.append(f"all {len(items)} such logs conform, as a whole, to the pinned behaviour (RetryTrace_pinned.cfg): the client stays on the "
                                "dead connection until a local connection arrives and reconnects 200 ms after it; the property rejected them first for: "
                                f"{rej_summary[sig]['first_rejected_for']}")
                elif sig.endswith("_in_pinned_mode"):
                    note.append(f"this log shows {PINNED_SIG} first (line rejected by the property) and, judged by the pinned behaviour, the disagreement above")
                path = replay or vlib.save_replay(prop, re.sub(r"[^A-Za-z0-9_]+", "_", sig), B["traces"][i0], note="\n".join(note))
                violations.append((path, sig, len(items)))
                log("\n".join(note))
        wall = time.time() - t0
        if not replay:
            a_mc = A["mc"]
            b_nontrivial = set()
            b_samples = []
            bad_idx = {i for items in B["rejected"].values() for i, _ in items}
            for i, t in enumerate(B["traces"]):
                if i in bad_idx:
                    continue
                evs = [json.loads(x) for x in t]
                n_att = sum(1 for e in evs if e["ev"] == "attempt")
                gave_up = evs[-1].get("res") == "MaxRetryCountReached"
                if n_att >= 2 or gave_up:
                    b_nontrivial.add(vlib.trace_hash([canon(strip_expect(B["scripts"][i]))]))
                    if len(b_samples) < 2 and n_att >= 3:
                        b_samples.append(dict(script=strip_expect(B["scripts"][i]), expected=B["scripts"][i].get("expect"),
                                              events=[{k: v for k, v in e.items() if k not in ("script", "detail")} for e in evs[1:]]))
            coverage = dict(
                states=a_mc["distinct"] + B["states"],
                transitions=a_mc["states"] + B["transitions"],
                traces_validated_against_impl=A["accepted"] + B["accepted"],
                evaluations=A["total"] + len(B["traces"]),
                distinct_nontrivial=len(A["nontrivial"]) + len(b_nontrivial),
                rule="part A: a logged generator counts when TLC accepted it and its operation sequence returned None at least once or "
                     "advanced after a reset (distinct by parameters, operations, returned values); part B: a script log counts when "
                     "TLC accepted it and it shows at least two connection attempts or the client giving up (distinct by script)",
                samples=(A["samples"] + b_samples) or [dict(note="no accepted non-trivial case in this run")],
                model_checking_runs=[dict(config=T["a_cfg"], distinct_states=a_mc["distinct"], states_generated=a_mc["states"],
                                          wall_s=round(a_mc["wall"], 1), cases=A["cases"])] +
                                    [dict(config=n, distinct_states=x["distinct"], states_generated=x["states"], wall_s=round(x["wall"], 1),
                                          scripts=c) for n, x, c in B["mc_runs"]],
                trace_validation_states=A["tv_states"] + B["tv_states"],
                part_a=dict(lines=A["total"], accepted=A["accepted"], tlc_cases=A["cases"], random_lines=T["a_random"],
                            distinct_nontrivial=len(A["nontrivial"]),
                            overflow_panics_outside_quantifier=A["overflow_panics"]),
                part_b=dict(scripts_enumerated=B["generated"], scripts_run=len(B["scripts"]), logs_accepted=B["accepted"],
                            logs_rejected=len(B["traces"]) - B["accepted"], distinct_nontrivial=len(b_nontrivial),
                            real_time_section_s=round(B["run_wall"], 1), parallel=T["b_par"],
                            log_lines=sum(len(t) for t in B["traces"]),
                            conform_to_pinned_behaviour=len(B["pinned_ok"])),
                rejected_by_signature=rej_summary,
                known_findings_met=known_met,
                exhaustive=False,
                explanation="Part A: TLC checks the clauses of the back-off generator (spec/Backoff.tla) on every parameter tuple and "
                            "advance/reset sequence of the configuration and prints each behaviour; backoff_vec replays them and seeded "
                            "random generators with large values on penguin_mux::timing::Backoff; TLC validates every line "
                            "(spec/BackoffTrace.tla). Part B: TLC checks the clauses of the reconnection loop (spec/ClientRetry.tla) and "
                            "enumerates scripts of server behaviours; retry_sim runs the real client_main_inner against the scripted fake "
                            "server on loopback in real time; TLC validates every log (spec/RetryTrace.tla): order and counts exact, exact "
                            "lower bounds and generous upper bounds on the time gaps",
            )
            vlib.write_evidence(prop, tier, seed, coverage, wall, sum(v[2] for v in violations), assumptions=[
                "durations of the generator are compared as exact multiples of a unit; tuples whose next delay is not representable as a "
                "Duration are outside the property's quantifier (a panic exactly there is allowed and counted)",
                "'refuse' is a TCP connection closed (FIN or RST) before any HTTP so that the attempt can be time-stamped; a connection refused by "
                "the operating system is covered by the terminal behaviour 'down', whose attempts are not observable (only the result and its time)",
                "a non-101 answer to the upgrade request is non-retryable (maybe_retryable.rs); which error variant ends the client is not compared",
                "lower bounds on time gaps are exact up to 5 ms (time stamps before the server's action / after the observed arrival), 250 ms for a "
                "stalled handshake (the client's timer starts before the server can observe the connection); upper bounds allow "
                "handshake_timeout + 1500 ms for a loaded machine, so a delay that is too long by less than that is not detected by timing "
                "(the retry count still is)",
                "a connection that has to serve local connections is closed only after they were answered (at most 3 s)",
                "scripts are bounded (4 observable attempts exhaustively, 5-6 by random walks); thorough runs a seeded sample of the enumerated set",
            ])
        if violations:
            for path, sig, n in violations:
                print(f"VIOLATION property={prop} replay={path}", flush=True)
            return 1
        log(f"{prop} held on everything explored ({wall:.0f}s)")
        return 0
    finally:
        shutil.rmtree(work, ignore_errors=True)


if __name__ == "__main__":
    import argparse
    ap = argparse.ArgumentParser()
    ap.add_argument("tier", nargs="?", default="quick")
    ap.add_argument("--replay")
    ap.add_argument("--seed", default=os.environ.get("VERIF_SEED", "1"))
    a = ap.parse_args()
    try:
        sys.exit(check("C19", a.tier, int(a.seed), a.replay))
    except ToolError as e:
        print("TOOL ERROR:", e)
        sys.exit(2)
