\* C01 trace validation, strict reading: the header of a relayed SOCKS5 reply must also name the target
SPECIFICATION Spec
CONSTANTS
  HdrAddr = "target"
CONSTRAINT Track
POSTCONDITION Accepted
CHECK_DEADLOCK FALSE
