\* C17 negative control: a wrong implementation of the reload ("inplace"); TLC must find Undisturbed or Fresh violated
SPECIFICATION Spec
CONSTANTS
  Mode = "inplace"
  MaxConn = 2
  MaxReload = 2
  MaxUse = 2
  Mtls = {FALSE}
INVARIANTS TypeOK Undisturbed Fresh
CHECK_DEADLOCK FALSE
