SPECIFICATION Spec
CONSTANTS
  AckMode = "shaped"
  ThrMode = "fixed"
  EmptyMode = "fixed"
  RstMode = "fixed"
  CfgSet <- CloseCfgs
  SameCfg = TRUE
  Openers = {"A"}
  MaxOpens = 1
  Ids = {1}
  Hosts = {"h0"}
  MaxWrites = 2
  Writers = {"A", "B"}
  Lens = {1}
  ReadMax = {4}
  Closers = {"A"}
  MuxDroppers = {}
  Cancellers = {}
  DgSenders = {}
  MaxDgrams = 0
  Binders = {}
  MaxBinds = 0
  Faults = {}
  AdvMsgs = {}
  MaxAdv = 0
  Bridgers = {"B"}
  SplitFlush = FALSE
  MaxNow = 0
  MaxHandles = 1
  MaxCtr = 1
VIEW View
CONSTRAINT Bound
INVARIANTS NoViolation TypeOK AckSound QueueBound InitialCredit ExactlyOne TargetCarried BoundedRetry Released DoneResolved NoOrphanWriter
CHECK_DEADLOCK FALSE
