\* C17 quick: the 72 cells of the matrix + every interleaving of <= 2 connections, <= 2 reloads, <= 2 uses, with and without mutual TLS
SPECIFICATION Spec
CONSTANTS
  Mode = "swap"
  MaxConn = 2
  MaxReload = 2
  MaxUse = 2
  Mtls = {FALSE, TRUE}
INVARIANTS TypeOK Undisturbed Fresh Emit
CHECK_DEADLOCK FALSE
