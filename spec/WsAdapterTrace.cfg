\* WsAdapter trace validation, collecting: every rejected script is reported with its signature
SPECIFICATION Spec
CONSTANTS
  EofNoneOk = TRUE
  Collect = TRUE
CONSTRAINT Track
POSTCONDITION Accepted
CHECK_DEADLOCK FALSE
