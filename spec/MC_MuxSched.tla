---------------------------- MODULE MC_MuxSched ----------------------------
(***************************************************************************)
(* Specification -> implementation replay for the multiplexing protocol.   *)
(* The next-state relation works at the grain of the simulator (one        *)
(* application call or one poll of a connection task per step) and records *)
(* every step as a command in the history variable `hist`; TLC in          *)
(* simulation mode (-simulate) prints one schedule per behaviour.  The     *)
(* schedules are executed on the real code by harness/src/bin/mux_sim.rs   *)
(* and the recorded traces are validated by TLC against MuxTrace.tla.      *)
(* Unlike the harness-random generator, every step here is one the         *)
(* SPECIFICATION considers possible in the current state, so the           *)
(* implementation is driven through the specification's reachable          *)
(* interleavings, including the negative steps (a write that must block,   *)
(* a read that must not yet see end-of-stream).                            *)
(***************************************************************************)
EXTENDS Bridge, Json

CONSTANTS CfgSet, Ids, Hosts, Lens, ReadMax, MaxOpens, MaxBytes, MaxDgrams, Depth, EmitEvery, Faults

VARIABLES st, hist
vars == <<st, hist>>

Init == /\ st \in {InitState(c) : c \in [E -> CfgSet]}
        /\ hist = <<>>

Rec2(t, cmd) == st' = t /\ hist' = Append(hist, cmd @@ [res |-> t.obs.res, sh |-> t.obs.h])

AppHs(e) == {h \in DOMAIN st.hnd[e] : st.hnd[e][h].st = "app"}
Opened(e) == Cardinality({h \in DOMAIN st.hnd[e] : st.hnd[e][h].role = "req"}) + Cardinality(DOMAIN st.calls[e])

Open(e) ==
  /\ Opened(e) < MaxOpens
  /\ \E id \in Ids, host \in Hosts :
       \E t \in OpenStart(st, e, st.ctr, host, 7, id) :
          Rec2(t, [op |-> "open", e |-> e, c |-> st.ctr, host |-> host, port |-> 7, draws |-> <<id>>])
OpenP(e) ==
  \E c \in DOMAIN st.calls[e] :
     /\ st.calls[e][c].k = "open"
     /\ LET needId == st.calls[e][c].resp = "none" /\ st.calls[e][c].left > 0 IN
        \E id \in (IF needId THEN Ids ELSE {0}) :
           \E t \in OpenPoll(st, e, c, id) :
              Rec2(t, [op |-> "open_poll", e |-> e, c |-> c, draws |-> IF needId THEN <<id>> ELSE <<>>])
Acc(e) == \E t \in Accept(st, e) : Rec2(t, [op |-> "accept", e |-> e])
Wr(e) ==
  \E h \in AppHs(e), len \in Lens :
     /\ st.hnd[e][h].woff + len <= MaxBytes
     /\ \E t \in Write(st, e, h, len) : Rec2(t, [op |-> "write", e |-> e, h |-> h, len |-> len])
Rd(e) ==
  \E h \in AppHs(e), mx \in ReadMax :
     \E t \in Read(st, e, h, mx) : Rec2(t, [op |-> "read", e |-> e, h |-> h, max |-> mx])
Shut(e) == \E h \in AppHs(e) : \E t \in Shutdown(st, e, h) : Rec2(t, [op |-> "shutdown", e |-> e, h |-> h])
Drp(e) == \E h \in AppHs(e) : \E t \in DropStream(st, e, h) : Rec2(t, [op |-> "drop", e |-> e, h |-> h])
DMux(e) == \E t \in DropMux(st, e) : Rec2(t, [op |-> "drop_mux", e |-> e])
DgS(e) ==
  /\ Len(st.dgSent[e]) < MaxDgrams
  /\ \E host \in Hosts : \E t \in SendDgram(st, e, 1, host, 9, "dd", FALSE) :
       Rec2(t, [op |-> "dg_send", e |-> e, id |-> 1, host |-> host, port |-> 9, data |-> "dd"])
DgG(e) == \E t \in GetDgram(st, e) : Rec2(t, [op |-> "dg_get", e |-> e])
Task(e) ==
  \E gr \in {0, 1}, gs \in {0, 1} :
     \E t \in TaskPoll(st, e, gr, gs) : Rec2(t, [op |-> "task", e |-> e, gr |-> gr, gs |-> gs])
Flt(e) ==
  /\ st.healthy
  /\ \E k \in Faults :
       \E t \in (CASE k = "cutsrc" -> CutSrc(st, e) [] k = "endsrc" -> EndSrc(st, e)
                   [] k = "cutsink" -> CutSink(st, e) [] k = "softcut" -> SoftCutSink(st, e) [] OTHER -> {}) :
          Rec2(t, [op |-> "fault", e |-> e, kind |-> k])

Next ==
  /\ Len(hist) < Depth
  /\ \E e \in E : Open(e) \/ OpenP(e) \/ Acc(e) \/ Wr(e) \/ Rd(e) \/ Shut(e) \/ Drp(e) \/ DMux(e)
                  \/ DgS(e) \/ DgG(e) \/ Task(e) \/ Task(e) \/ Flt(e)
Spec == Init /\ [][Next]_vars

(* one line per behaviour prefix of length EmitEvery, 2*EmitEvery, ... (behaviours may end early: a
   connection that was torn down has nothing left to do) *)
Emit == (Len(hist) > 0 /\ Len(hist) % EmitEvery = 0) =>
          PrintT(<<"SCHED", ToJson([cfg |-> st.cfg, cmds |-> hist, viol |-> st.viol])>>)
NoViolation == st.viol = {}

MkCfg(rwnd, thr, ac, dg, bc, rt) ==
  [rwnd |-> rwnd, thr |-> thr, acceptCap |-> ac, dgCap |-> dg, bindCap |-> bc, retries |-> rt]
SchedCfgs == {MkCfg(r, t, a, 1, 0, rt) : r \in 1..2, t \in 1..3, a \in 1..2, rt \in 1..2}
=============================================================================
