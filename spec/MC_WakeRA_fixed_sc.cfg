SPECIFICATION Spec
CONSTANTS
  Mode = "fixed"
  OrdMode = "code"
  SC = "yes"
  NPolls = 2
INVARIANTS ContractHolds NoRace StateWordSane
CHECK_DEADLOCK FALSE
