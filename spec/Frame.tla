------------------------------- MODULE Frame -------------------------------
(***************************************************************************)
(* The penguin-v7 wire format, written from /repo/PROTOCOL.md ("Data       *)
(* Framing") only -- the reference codec of property C09.                  *)
(*                                                                         *)
(* Representation.  A byte is an integer 0..255, a byte string a sequence  *)
(* of bytes.  TLC integers are 32-bit, so a 32-bit field (flow id, rwnd /  *)
(* psh_recvd_since) is never turned into a number: it IS its four octets   *)
(* in network byte order, <<b1,b2,b3,b4>> with b1 the most significant.    *)
(* A 16-bit port is an integer 0..65535.                                   *)
(*                                                                         *)
(* A frame is one uniform record (unused fields hold their zero value, so  *)
(* that frames compare with plain =):                                      *)
(*   op   "connect"|"ack"|"reset"|"finish"|"push"|"bind"|"dgram"           *)
(*   id   flow id, 4 octets                                                *)
(*   n    connect: rwnd; ack: psh_recvd_since/rwnd; 4 octets               *)
(*   port connect/bind/dgram: target_port                                  *)
(*   bt   bind: bind_type (1 = TCP, 3 = UDP)                               *)
(*   host connect/bind/dgram: target_host octets (possibly empty)          *)
(*   data push/dgram: payload octets (possibly empty)                      *)
(*                                                                         *)
(* Layout (PROTOCOL.md):                                                   *)
(*   octet 1     Ver (high nibble, 7) | Op (low nibble, 0..6)              *)
(*   octets 2-5  flow id, network byte order                               *)
(*   Connect     rwnd(4) target_port(2) target_host(rest)                  *)
(*   Acknowledge psh_recvd_since(4)                                        *)
(*   Reset, Finish  no additional fields                                   *)
(*   Push        data(rest)                                                *)
(*   Bind        bind_type(1) target_port(2) target_host(rest)             *)
(*   Datagram    host_len(1) target_port(2) target_host(host_len)          *)
(*               data(rest)                                                *)
(*   ("Client Bind Requests" describes the Bind data without bind_type;    *)
(*    the field list of "Bind Frame" and the two values named in the same  *)
(*    section govern.)                                                     *)
(*                                                                         *)
(* What a decoder accepts (C09): version nibble 7, or 0 as the lenient     *)
(* zero-filled form (the decoded frame is the same as with nibble 7);      *)
(* opcode 0..6; every fixed field present (minimum lengths: header 5,      *)
(* Connect +6, Acknowledge +4, Bind +3, Datagram +3+host_len); bind_type   *)
(* 1 or 3.  Variable fields take what is left and may be EMPTY: a Connect  *)
(* or Bind with an empty host, an empty Push, a Datagram with an empty     *)
(* host and/or an empty payload are all valid frames.                      *)
(*                                                                         *)
(* Trailing octets.  Acknowledge, Reset and Finish have a fixed size.      *)
(* PROTOCOL.md is silent about octets after the last field and C09 lists   *)
(* MINIMUM field lengths as the only length condition, so the reading      *)
(* checked here (Trailing = "ignore") is: the frame is valid and the       *)
(* surplus octets carry no meaning -- decoding yields the frame without    *)
(* them, re-encoding yields the canonical (shorter) string.  The strict    *)
(* reading is available as Trailing = "reject" for comparison.             *)
(*                                                                         *)
(* Not part of the codec: target_host is called a UTF-8 string, but the    *)
(* frame layer carries octets; validity of the text is the consumer's      *)
(* business.  A Datagram host longer than 255 octets has no encoding.      *)
(***************************************************************************)
EXTENDS Integers, Sequences

CONSTANT Trailing     \* "ignore" | "reject"

Byte == 0 .. 255
IsBytes(s) == \A i \in 1 .. Len(s) : s[i] \in Byte
IsU32(x) == Len(x) = 4 /\ IsBytes(x)
Zero32 == <<0, 0, 0, 0>>

Version == 7
LenientVersion == 0
OpName == <<"connect", "ack", "reset", "finish", "push", "bind", "dgram">>
Ops == {OpName[i] : i \in 1 .. 7}
OpNum(op) == CHOOSE k \in 0 .. 6 : OpName[k + 1] = op
BindTypes == {1, 3}

(* ------------------------------ frames ------------------------------ *)
Mk(op, id) == [op |-> op, id |-> id, n |-> Zero32, port |-> 0, bt |-> 0, host |-> <<>>, data |-> <<>>]
Connect(id, rwnd, port, host) == [Mk("connect", id) EXCEPT !.n = rwnd, !.port = port, !.host = host]
Acknowledge(id, n)            == [Mk("ack", id) EXCEPT !.n = n]
Reset(id)                     == Mk("reset", id)
Finish(id)                    == Mk("finish", id)
Push(id, data)                == [Mk("push", id) EXCEPT !.data = data]
Bind(id, bt, port, host)      == [Mk("bind", id) EXCEPT !.bt = bt, !.port = port, !.host = host]
Datagram(id, port, host, data) == [Mk("dgram", id) EXCEPT !.port = port, !.host = host, !.data = data]

(* the fields an opcode does not have are zero *)
Canon(f) ==
  [op |-> f.op, id |-> f.id,
   n    |-> IF f.op \in {"connect", "ack"} THEN f.n ELSE Zero32,
   port |-> IF f.op \in {"connect", "bind", "dgram"} THEN f.port ELSE 0,
   bt   |-> IF f.op = "bind" THEN f.bt ELSE 0,
   host |-> IF f.op \in {"connect", "bind", "dgram"} THEN f.host ELSE <<>>,
   data |-> IF f.op \in {"push", "dgram"} THEN f.data ELSE <<>>]

IsFrame(f) ==
  /\ f.op \in Ops /\ IsU32(f.id) /\ IsU32(f.n) /\ f.port \in 0 .. 65535
  /\ IsBytes(f.host) /\ IsBytes(f.data)
  /\ f.op = "bind" => f.bt \in BindTypes
  /\ f.op = "dgram" => Len(f.host) <= 255
  /\ f = Canon(f)

(* ------------------------------ encoding ------------------------------ *)
U16(p) == <<p \div 256, p % 256>>
FromU16(hi, lo) == hi * 256 + lo

Body(f) ==
  CASE f.op = "connect" -> f.n \o U16(f.port) \o f.host
    [] f.op = "ack"     -> f.n
    [] f.op = "reset"   -> <<>>
    [] f.op = "finish"  -> <<>>
    [] f.op = "push"    -> f.data
    [] f.op = "bind"    -> <<f.bt>> \o U16(f.port) \o f.host
    [] f.op = "dgram"   -> <<Len(f.host)>> \o U16(f.port) \o f.host \o f.data

Encode(f) == <<Version * 16 + OpNum(f.op)>> \o f.id \o Body(f)

(* ------------------------------ decoding ------------------------------ *)
Bad == [ok |-> FALSE]
Good(f) == [ok |-> TRUE, frame |-> f]
From(b, k) == SubSeq(b, k, Len(b))

Decode(b) ==
  IF Len(b) < 5 THEN Bad
  ELSE LET ver == b[1] \div 16
           opn == b[1] % 16
           id  == SubSeq(b, 2, 5)
           m   == Len(b) - 5            \* octets after the header
       IN IF ver \notin {Version, LenientVersion} \/ opn > 6 THEN Bad
          ELSE LET op == OpName[opn + 1] IN
            CASE op = "connect" ->
                   IF m < 6 THEN Bad
                   ELSE Good(Connect(id, SubSeq(b, 6, 9), FromU16(b[10], b[11]), From(b, 12)))
              [] op = "ack" ->
                   IF m < 4 \/ (Trailing = "reject" /\ m > 4) THEN Bad
                   ELSE Good(Acknowledge(id, SubSeq(b, 6, 9)))
              [] op = "reset" ->
                   IF Trailing = "reject" /\ m > 0 THEN Bad ELSE Good(Reset(id))
              [] op = "finish" ->
                   IF Trailing = "reject" /\ m > 0 THEN Bad ELSE Good(Finish(id))
              [] op = "push" -> Good(Push(id, From(b, 6)))
              [] op = "bind" ->
                   IF m < 3 THEN Bad
                   ELSE IF b[6] \notin BindTypes THEN Bad
                   ELSE Good(Bind(id, b[6], FromU16(b[7], b[8]), From(b, 9)))
              [] op = "dgram" ->
                   IF m < 3 THEN Bad
                   ELSE LET hl == b[6] IN
                        IF m < 3 + hl THEN Bad
                        ELSE Good(Datagram(id, FromU16(b[7], b[8]), SubSeq(b, 9, 8 + hl), From(b, 9 + hl)))

(* ------------------------------ properties ------------------------------ *)
(* encode/decode are inverse on frames *)
RoundTrip(f) == Decode(Encode(f)) = Good(f)

(* a prefix relation used for the converse direction *)
IsPrefix(p, s) == Len(p) <= Len(s) /\ SubSeq(s, 1, Len(p)) = p

(* decoding is total, and what it yields is a frame whose canonical encoding is the input with the
   version nibble filled in and (only for the fixed-size frames) the meaningless surplus removed *)
DecodeSound(b) ==
  LET d == Decode(b) IN
  /\ d.ok \in BOOLEAN
  /\ d.ok => /\ IsFrame(d.frame)
             /\ LET e == Encode(d.frame) IN
                /\ e[1] = Version * 16 + (b[1] % 16)
                /\ IsPrefix(From(e, 2), From(b, 2))
                /\ d.frame.op \notin {"ack", "reset", "finish"} => Len(e) = Len(b)
                /\ Decode(e) = d

(* ---------------- run-length form of byte strings (logs and cases) ---------------- *)
(* <<b, n>> stands for n copies of b *)
Rep(x, k) == [i \in 1 .. k |-> x]
(* divide and conquer keeps the evaluation stack logarithmic in the number of runs *)
RECURSIVE ExpandRange(_, _, _)
ExpandRange(r, lo, hi) ==
  IF lo > hi THEN <<>>
  ELSE IF lo = hi THEN Rep(r[lo][1], r[lo][2])
  ELSE LET mid == (lo + hi) \div 2 IN ExpandRange(r, lo, mid) \o ExpandRange(r, mid + 1, hi)
Expand(r) == ExpandRange(r, 1, Len(r))

(* the maximal runs of s, without recursion: the positions where a run starts, then their lengths *)
Compress(s) ==
  LET starts == SelectSeq([i \in 1 .. Len(s) |-> i], LAMBDA i : i = 1 \/ s[i] # s[i - 1])
  IN [k \in 1 .. Len(starts) |->
        <<s[starts[k]], (IF k < Len(starts) THEN starts[k + 1] ELSE Len(s) + 1) - starts[k]>>]
=============================================================================
