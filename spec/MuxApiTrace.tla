---------------------------- MODULE MuxApiTrace ----------------------------
(***************************************************************************)
(* Judges a simulator trace (the same ndjson as MuxTrace.tla reads) against *)
(* the application-level contract MuxApi.tla.  Deterministic: one state per *)
(* line.  It never rejects a line -- a failed clause is recorded in s.viol  *)
(* with the line number -- so the whole trace is judged, also behind the    *)
(* point where it stopped conforming to PenguinMux.  Used by the checks of  *)
(* the mux family on traces MuxTrace rejected (tools/families.py).          *)
(***************************************************************************)
EXTENDS MuxApi, Json, IOUtils

Rec == ndJsonDeserialize(IOEnv.TRACE)
VARIABLES l, s, found
v == <<l, s, found>>

Fld(r, name, d) == IF name \in DOMAIN r THEN r[name] ELSE d
Init == l = 1 /\ s = Init0 /\ found = <<>>

Apply(r) ==
  LET ev == r.ev IN
  CASE ev = "reset" -> Init0
    [] ev = "open" -> OpenCall(s, r.e, r.c, r.host, r.port, IF Len(r.draws) > 0 THEN r.draws[Len(r.draws)] ELSE 0)
    [] ev = "open_poll" -> IF r.res = "ok" THEN Opened(s, r.e, r.c, r.h, r.id)
                           ELSE IF r.res \in {"rejected", "closed"} THEN OpenFailed(s, r.e, r.c)
                           ELSE IF Len(r.draws) > 0 THEN OpenRetry(s, r.e, r.c, r.draws[Len(r.draws)]) ELSE s
    [] ev = "accept" -> IF r.res = "ok" THEN Accepted(s, r.e, r.h, r.id, r.host, r.port) ELSE s
    [] ev = "write" -> Wrote(s, r.e, r.h, r.res, r.n)
    [] ev = "read" -> IF r.res = "data" THEN ReadData(s, r.e, r.h, r.n, r.w, r.off, r.okrun)
                      ELSE IF r.res = "eof" THEN ReadEof(s, r.e, r.h) ELSE s
    [] ev = "shutdown" -> ShutDown(s, r.e, r.h)
    [] ev = "drop" -> Dropped(s, r.e, r.h)
    [] ev = "bridge_start" -> Bridged(s, r.e, r.h)
    [] ev = "dg_send" -> IF r.res = "ok" THEN DgSent(s, r.e, [id |-> r.id, host |-> r.host, port |-> r.port, data |-> r.data]) ELSE s
    [] ev = "dg_get" -> IF r.res = "ok" THEN DgGot(s, r.e, [id |-> r.id, host |-> r.host, port |-> r.port, data |-> r.data]) ELSE s
    [] ev = "bind" -> IF Len(r.draws) > 0 THEN BindCall(s, r.e, r.c, r.draws[Len(r.draws)], r.bt, r.host, r.port) ELSE s
    [] ev = "bind_poll" -> IF r.res \in {"true", "false"} THEN BindResolved(s, r.e, r.c, r.res) ELSE s
    [] ev = "next_bind" -> IF r.res = "ok" THEN BindShown(s, r.e, r.r, r.id, r.bt, r.host, r.port) ELSE s
    [] ev = "bind_reply" -> BindAnswered(s, r.e, r.r, IF r.accept THEN "accept" ELSE "reject")
    [] ev = "bind_drop" -> BindAnswered(s, r.e, r.r, "reject")
    (* anything that ends or disturbs the connection: the clauses about a healthy connection stop applying *)
    [] ev \in {"inject", "take"} -> Adversary(s)
    [] ev \in {"fault", "drop_mux", "cancel", "panic", "hang"} -> Unsound(s)
    [] ev = "task" -> IF r.res # "pending" THEN TaskEnded(s, r.e) ELSE s
    [] ev = "quiesce" -> IF Fld(r, "lazy", FALSE) THEN s ELSE Quiescent(s)
    [] OTHER -> s

Step ==
  /\ l <= Len(Rec)
  /\ LET r == Rec[l]
         raw == Apply(r)
         t0 == IF r.ev = "reset" /\ Fld(r, "real", 2) # 2 THEN Adversary(raw) ELSE raw
         (* C08: an operation of an endpoint whose connection task has ended does not stay pending *)
         t == IF r.ev \in {"open", "open_poll", "accept", "write", "read", "dg_get", "bind", "bind_poll", "next_bind"} /\ "res" \in DOMAIN r
              THEN Completes(t0, r.e, r.res) ELSE t0
         new == t.viol \ s.viol
     IN /\ s' = t
        /\ found' = IF new = {} THEN found ELSE Append(found, [line |-> l, viol |-> new])
  /\ l' = l + 1
Spec == Init /\ [][Step]_v

Done == l = Len(Rec) + 1
Report == (l = Len(Rec) + 1) => PrintT(<<"APIVIOL", ToJson(found)>>)
=============================================================================
