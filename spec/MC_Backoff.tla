----------------------------- MODULE MC_Backoff -----------------------------
(***************************************************************************)
(* C19, part A: bounded-exhaustive enumeration of the back-off generator.  *)
(*                                                                         *)
(* TLC explores every parameter tuple of Initials x Maxes x Mults x        *)
(* MaxCounts and every sequence of advance / reset operations up to MaxOps *)
(* (Backoff.tla, Spec), checks the clauses of the property on every state  *)
(* and prints one line  <<"CASE", json>>  per complete behaviour (a state  *)
(* whose history has MaxOps operations; its prefixes are the shorter       *)
(* behaviours) with the return values the specification assigns.           *)
(***************************************************************************)
EXTENDS Backoff, Json

Emit ==
  Len(ops) = MaxOps =>
    PrintT(<<"CASE", ToJson([initial |-> g.initial, max |-> g.max, mult |-> g.mult, max_count |-> g.maxCount,
                            ops |-> ops, exp |-> rets])>>)

(* the saturating formulation used for large values equals the literal one (mult = 0 included) *)
ASSUME SatLaw ==
  \A i \in 0 .. 4, m \in 0 .. 9, x \in 0 .. 3, k \in 0 .. 8 : Delay(i, m, x, k) = DelaySat(i, m, x, k)

(* Replay (what the trace specification uses) agrees with the state machine *)
ReplayAgrees ==
  /\ Replay(New(g.initial, g.max, g.mult, g.maxCount), ops, FALSE) = rets
  /\ Replay(New(g.initial, g.max, g.mult, g.maxCount), ops, TRUE) = rets
=============================================================================
