\* C01: the UDP relation on the ideal relay, 1-3 clients, idle periods, two targets; one USHAPE line each
SPECIFICATION Spec
CONSTANTS
  MaxW = 1
  Sizes = {0}
  Fault = "none"
  Proto = "udp"
  Gen = TRUE
  MaxK = 3
INVARIANTS U_Target U_Datagram U_Header U_Client U_Source U_Reply U_RoundTrip
