------------------------------ MODULE Backoff ------------------------------
(***************************************************************************)
(* C19, part A: the back-off generator, written from the property text.    *)
(*                                                                         *)
(*   - the delay handed out for the k-th consecutive failure (k = 0, 1, .. *)
(*     counted since the last reset) is  min(initial x mult^k, max);       *)
(*   - `advance` returns None once max_count consecutive advances were     *)
(*     made since the last reset; never, if max_count = 0;                 *)
(*   - `reset` restarts the sequence (k = 0).                              *)
(*                                                                         *)
(* A generator is the record [initial, max, mult, maxCount, k].  Durations *)
(* are natural numbers of some unit; nothing here depends on the unit.     *)
(* None is the integer -1, the "return value" of reset is -2.              *)
(*                                                                         *)
(* The same operators judge the implementation's log in BackoffTrace.tla.  *)
(***************************************************************************)
EXTENDS Integers, Sequences, FiniteSets, TLC

None == -1
Unit == -2

Min(a, b) == IF a <= b THEN a ELSE b

RECURSIVE Pow(_, _)
Pow(m, k) == IF k = 0 THEN 1 ELSE m * Pow(m, k - 1)

(* the property text, literally *)
Delay(initial, max, mult, k) == Min(initial * Pow(mult, k), max)

(* The same number computed without ever leaving the range 0 .. max (TLC integers are 32-bit):
   D(0) = min(initial, max),  D(k+1) = min(D(k) x mult, max), where the product is not formed
   when it certainly exceeds max.  Equal to Delay for every mult >= 0 (ASSUME SatLaw in MC_Backoff). *)
SatStep(d, max, mult) ==
  IF mult = 0 THEN 0
  ELSE IF d > max \div mult THEN max
  ELSE Min(d * mult, max)
RECURSIVE DelaySat(_, _, _, _)
DelaySat(initial, max, mult, k) ==
  IF k = 0 THEN Min(initial, max) ELSE SatStep(DelaySat(initial, max, mult, k - 1), max, mult)

New(initial, max, mult, maxCount) ==
  [initial |-> initial, max |-> max, mult |-> mult, maxCount |-> maxCount, k |-> 0]

Exhausted(g) == g.maxCount # 0 /\ g.k >= g.maxCount

(* what `advance` returns, and the generator afterwards *)
AdvanceRet(g) == IF Exhausted(g) THEN None ELSE Delay(g.initial, g.max, g.mult, g.k)
AdvanceRetSat(g) == IF Exhausted(g) THEN None ELSE DelaySat(g.initial, g.max, g.mult, g.k)
AdvanceNext(g) == IF Exhausted(g) THEN g ELSE [g EXCEPT !.k = @ + 1]
ResetNext(g) == [g EXCEPT !.k = 0]

(* replay of an operation sequence ("a" = advance, "r" = reset): the sequence of return values *)
RECURSIVE Replay(_, _, _)
Replay(g, ops, sat) ==
  IF ops = <<>> THEN <<>>
  ELSE IF Head(ops) = "a"
       THEN <<(IF sat THEN AdvanceRetSat(g) ELSE AdvanceRet(g))>> \o Replay(AdvanceNext(g), Tail(ops), sat)
       ELSE <<Unit>> \o Replay(ResetNext(g), Tail(ops), sat)

(* ------------------------------------------------------------------ *)
(* The generator as a state machine with a history (used by MC_Backoff) *)
(* ------------------------------------------------------------------ *)
CONSTANTS Initials, Maxes, Mults, MaxCounts, MaxOps

VARIABLES g,      \* the generator
          ops,    \* history: operations applied so far
          rets    \* history: what they returned

vars == <<g, ops, rets>>

Init == /\ \E i \in Initials, m \in Maxes, x \in Mults, c \in MaxCounts : g = New(i, m, x, c)
        /\ ops = <<>> /\ rets = <<>>

Advance == /\ Len(ops) < MaxOps
           /\ rets' = Append(rets, AdvanceRet(g))
           /\ g' = AdvanceNext(g)
           /\ ops' = Append(ops, "a")

Reset == /\ Len(ops) < MaxOps
         /\ rets' = Append(rets, Unit)
         /\ g' = ResetNext(g)
         /\ ops' = Append(ops, "r")

Next == Advance \/ Reset
Spec == Init /\ [][Next]_vars

(* ------------------------------------------------------------------ *)
(* Laws (clauses of the property over the history)                     *)
(* ------------------------------------------------------------------ *)
(* position of the last reset before op i (0 = none) and number of advances between it and i *)
LastReset(i) == IF \E j \in 1 .. i - 1 : ops[j] = "r"
                THEN CHOOSE j \in 1 .. i - 1 : ops[j] = "r" /\ \A q \in j + 1 .. i - 1 : ops[q] = "a"
                ELSE 0
AdvancesBefore(i) == i - 1 - LastReset(i)

TypeOK == /\ Len(ops) = Len(rets)
          /\ \A i \in 1 .. Len(ops) : (ops[i] = "r") <=> (rets[i] = Unit)
          /\ g.k \in 0 .. MaxOps

(* None exactly when max_count advances were made since the last reset; never when max_count = 0 *)
NoneExactly ==
  \A i \in 1 .. Len(ops) : ops[i] = "a" =>
      ((rets[i] = None) <=> (g.maxCount # 0 /\ AdvancesBefore(i) >= g.maxCount))

(* the j-th delay after a reset is min(initial x mult^j, max) *)
DelayLaw ==
  \A i \in 1 .. Len(ops) : (ops[i] = "a" /\ rets[i] # None) =>
      rets[i] = Delay(g.initial, g.max, g.mult, AdvancesBefore(i))

(* bounded and, for mult >= 1, non-decreasing between resets; the first delay after a reset is the shortest *)
Bounded == \A i \in 1 .. Len(rets) : rets[i] <= g.max
Monotone == g.mult >= 1 =>
  \A i \in 2 .. Len(ops) : (ops[i] = "a" /\ ops[i - 1] = "a" /\ rets[i] # None) => rets[i] >= rets[i - 1]
RestartsShortest ==
  \A i \in 1 .. Len(ops) : (ops[i] = "a" /\ AdvancesBefore(i) = 0 /\ rets[i] # None) =>
      rets[i] = Min(g.initial, g.max)
=============================================================================
