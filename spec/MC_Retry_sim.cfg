\* C19 part B: longer scripts, explored by random walks (tlc -simulate)
SPECIFICATION Spec
CONSTANTS
  OrderlyMode = "reconnect"
  Params <- ParamsT
  MaxAtt = 6
  StepBehs = {"refuse", "rst", "stall", "bad", "mute", "close_orderly", "close_abrupt", "drop_unserved", "healthy", "down"}
  CloseDs = {0, 600}
  MaxStall = 1
  MaxMute = 1
  MaxOpen = 3
  MaxClose = 3
INVARIANTS TypeOK DelaySequence WaitedIsPrescribed ResetAfterSuccess GiveUpExactly NonRetryableEndsAtOnce ListenerAlive NoLostRequest Emit
CHECK_DEADLOCK FALSE
