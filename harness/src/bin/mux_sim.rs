//! Driver for the deterministic multiplexor simulator.
//!
//!   mux_sim script <schedule.json> <out.ndjson>
//!       schedule = {"cfg": {"A": {...}, "B": {...}}, "real": 2, "cmds": [ {...}, ... ]}
//!       or a list of such objects (one trace per object, concatenated with reset events)
//!   mux_sim random <mode> <seed> <count> <steps> <out.ndjson>
//!       harness-random schedules: at every step one of *all* operations the harness can attempt
//!
//! The output is the ndjson trace validated by spec/MuxTrace.tla.

use rand::rngs::SmallRng;
use rand::{RngExt, SeedableRng};
use serde_json::{Value, json};
use std::io::Write;
use verif_harness::sim::{Cfg, Sim};

fn main() {
    let args: Vec<String> = std::env::args().collect();
    let _g = verif_harness::sim::rt().enter();
    // panics of the code under test are data, not noise
    std::panic::set_hook(Box::new(|_| {}));
    match args.get(1).map(String::as_str) {
        Some("script") => {
            let text = std::fs::read_to_string(&args[2]).expect("read schedule");
            let v: Value = serde_json::from_str(&text).expect("parse schedule");
            let list = if v.is_array() { v.as_array().unwrap().clone() } else { vec![v] };
            verif_harness::sim::start_watchdog(args[3].clone(), 10);
            let mut out = std::io::BufWriter::new(std::fs::File::create(&args[3]).unwrap());
            for sch in list {
                let cfgs = [Cfg::from_json(&sch["cfg"]["A"]), Cfg::from_json(&sch["cfg"]["B"])];
                let real = sch["real"].as_u64().unwrap_or(2) as usize;
                let mut sim = Sim::new(cfgs, real);
                for c in sch["cmds"].as_array().unwrap() {
                    if c["op"] == "quiesce" {
                        settle(&mut sim, &mut Intent::default(), c["lazy"].as_bool().unwrap_or(false));
                    } else {
                        sim.exec(c);
                    }
                }
                for ev in &sim.out {
                    writeln!(out, "{ev}").unwrap();
                }
            }
        }
        Some("random") => {
            let mode = args[2].clone();
            let seed: u64 = args[3].parse().unwrap();
            let count: usize = args[4].parse().unwrap();
            let steps: usize = args[5].parse().unwrap();
            verif_harness::sim::start_watchdog(args[6].clone(), 10);
            let mut out = std::io::BufWriter::new(std::fs::File::create(&args[6]).unwrap());
            let mut total = 0usize;
            for k in 0..count {
                let mut rng = SmallRng::seed_from_u64(seed.wrapping_mul(1_000_003).wrapping_add(k as u64));
                let sim = random_trace(&mode, &mut rng, steps);
                total += sim.out.len();
                for ev in &sim.out {
                    writeln!(out, "{ev}").unwrap();
                }
            }
            eprintln!("mux_sim: {count} traces, {total} events");
        }
        _ => {
            eprintln!("usage: mux_sim script <schedule.json> <out> | random <mode> <seed> <count> <steps> <out>");
            std::process::exit(2);
        }
    }
}

/// writes that returned Pending and that the application still wants to perform
#[derive(Default)]
struct Intent {
    writes: Vec<(usize, u32, usize)>,
}

fn en(i: usize) -> &'static str {
    if i == 0 { "A" } else { "B" }
}

/// Fair run to quiescence: poll both tasks with full grants, accept, complete calls, retry blocked
/// writes and read everything, round after round, until a whole round changes nothing.
fn settle(sim: &mut Sim, intent: &mut Intent, lazy: bool) {
    let mut idle = 0;
    for _round in 0..400 {
        let before = progress_mark(sim);
        for i in 0..sim.real {
            if sim.task_alive(i) {
                sim.exec(&json!({"op": "task", "e": en(i), "gr": 1, "gs": 1}));
            }
        }
        if !lazy {
            for i in 0..sim.real {
                if sim.eps[i].mux.is_some() {
                    sim.exec(&json!({"op": "accept", "e": en(i)}));
                    let cs: Vec<u32> = sim.eps[i].opens.keys().copied().collect();
                    for c in cs {
                        sim.exec(&json!({"op": "open_poll", "e": en(i), "c": c}));
                    }
                    let bs: Vec<u32> = sim.eps[i].binds.keys().copied().collect();
                    for c in bs {
                        sim.exec(&json!({"op": "bind_poll", "e": en(i), "c": c}));
                    }
                    if sim.eps[i].cfg["bindCap"].as_u64().unwrap_or(0) > 0 {
                        sim.exec(&json!({"op": "next_bind", "e": en(i)}));
                    }
                    // requests the application never answered are dropped (= rejected)
                    let rs: Vec<u32> = sim.eps[i].breqs.keys().copied().collect();
                    for r in rs {
                        sim.exec(&json!({"op": "bind_drop", "e": en(i), "r": r}));
                    }
                }
                let ws = std::mem::take(&mut intent.writes);
                for (wi, h, len) in ws {
                    if wi == i && sim.eps[i].streams.contains_key(&h) {
                        let n0 = sim.out.len();
                        sim.exec(&json!({"op": "write", "e": en(i), "h": h, "len": len}));
                        if sim.out.len() > n0 && sim.out[sim.out.len() - 1]["res"] == "pending" {
                            intent.writes.push((wi, h, len));
                        }
                    } else if wi != i {
                        intent.writes.push((wi, h, len));
                    }
                }
                let hs: Vec<u32> = sim.eps[i].streams.keys().copied().collect();
                for h in hs {
                    // (a bridge may have coalesced tens of kilobytes into one frame)
                    sim.exec(&json!({"op": "read", "e": en(i), "h": h, "max": 1 << 20}));
                }
                // bridges are driven to completion against a local side that accepts everything and has
                // nothing more to say, then dropped
                let bs: Vec<(u32, bool)> = sim.eps[i].bridges.iter().filter(|(_, v)| v.fut.is_some()).map(|(k, v)| (*k, v.done)).collect();
                for (b, done) in bs {
                    if done {
                        sim.exec(&json!({"op": "bridge_drop", "e": en(i), "b": b}));
                    } else {
                        sim.exec(&json!({"op": "bridge_poll", "e": en(i), "b": b, "env": {
                            "rd": [{"k": "eof", "n": 0}],
                            "wr": [{"k": "ready", "n": 64}, {"k": "ready", "n": 64}, {"k": "ready", "n": 64}, {"k": "ready", "n": 64}],
                            "fl": {"k": "ready", "n": 0}, "sh": {"k": "ready", "n": 0}}}));
                    }
                }
            }
        }
        if sim.dead {
            return;
        }
        if progress_mark(sim) == before {
            // a poll may have changed internal state only (e.g. processed a drop notification whose
            // Reset is sent by the next poll): require two idle rounds in a row
            idle += 1;
            if idle >= 2 {
                break;
            }
        } else {
            idle = 0;
        }
    }
    let n = sim.out.len();
    let q = json!({"ev": "quiesce", "lazy": lazy, "n": n});
    verif_harness::sim::LOG.lock().unwrap().push(q.to_string());
    sim.out.push(q);
}

/// A fingerprint of "did anything happen": number of non-pending results and link traffic so far.
fn progress_mark(sim: &Sim) -> (usize, usize) {
    let mut k = 0;
    for ev in &sim.out {
        let res = ev["res"].as_str().unwrap_or("");
        let quiet = res == "pending" || res == "eof" || res == "closed" || res == "broken";
        if ev["ev"] == "task" {
            if ev["rcv"]["op"] != "none" || !ev["sent"].as_array().map_or(true, |a| a.is_empty()) || res != "pending" {
                k += 1;
            }
        } else if !quiet {
            k += 1;
        }
    }
    (k, sim.out.len() - sim.out.len())
}

fn pick<T: Clone>(rng: &mut SmallRng, v: &[T]) -> T {
    v[rng.random_range(0..v.len())].clone()
}

fn random_ans(rng: &mut SmallRng, ready: &str) -> Value {
    match rng.random_range(0..12) {
        0 => json!({"k": "err", "n": 0}),
        1 | 2 | 3 => json!({"k": "pending", "n": 0}),
        4 if ready == "data" => json!({"k": "eof", "n": 0}),
        // a bulk producer: tens of kilobytes readable at once (two of them exceed 64 KiB in one coalesced frame)
        5 if ready == "data" => json!({"k": "data", "n": pick(rng, &[40000u32, 70000])}),
        _ => json!({"k": ready, "n": rng.random_range(1..=3)}),
    }
}

fn random_env(rng: &mut SmallRng) -> Value {
    let rd: Vec<Value> = (0..rng.random_range(0..=3)).map(|_| random_ans(rng, "data")).collect();
    let wr: Vec<Value> = (0..rng.random_range(0..=3)).map(|_| random_ans(rng, "ready")).collect();
    let one = |rng: &mut SmallRng| match rng.random_range(0..10) {
        0 => json!({"k": "err", "n": 0}),
        1 | 2 => json!({"k": "pending", "n": 0}),
        _ => json!({"k": "ready", "n": 0}),
    };
    json!({"rd": rd, "wr": wr, "fl": one(rng), "sh": one(rng)})
}

fn random_cfg(rng: &mut SmallRng, mode: &str) -> Cfg {
    let wide = mode == "fair";
    Cfg {
        rwnd: rng.random_range(1..=if wide { 4 } else { 3 }),
        thr: rng.random_range(1..=if wide { 6 } else { 4 }),
        accept_cap: rng.random_range(1..=2),
        // datagram bursts need room: up to five datagrams can wait at the receiver in the datagram modes
        dg_cap: if mode == "dgram" || mode == "all" { pick(rng, &[1usize, 1, 2, 2, 3, 4, 5]) } else { rng.random_range(1..=2) },
        bind_cap: if mode == "bind" || mode == "all" { rng.random_range(0..=2) } else if mode == "fault" { pick(rng, &[0usize, 0, 1, 2]) } else { 0 },
        retries: rng.random_range(1..=3),
        // keepalive: values as given to the options API (a timeout below the interval is clamped by the builder)
        ka_i: if mode == "ka" { rng.random_range(1..=3) } else { 0 },
        ka_t: if mode == "ka" { pick(rng, &[0u64, 1, 2, 2, 3, 3, 4, 5, 6]) } else { 0 },
    }
}

/// One real endpoint ("A") against a scripted raw peer that sends arbitrary well-formed frames
/// (and occasionally a non-frame), while A's application keeps using its streams.
fn adversary_trace(rng: &mut SmallRng, steps: usize) -> Sim {
    let mut cfg = random_cfg(rng, "adv");
    cfg.bind_cap = rng.random_range(0..=1);
    let cfgs = [cfg.clone(), cfg];
    let mut sim = Sim::new(cfgs, 1);
    let mut intent = Intent::default();
    let mut next_c = 1u32;
    let mut seen_ids: Vec<u32> = vec![0, 1, 2, 3];
    let junk_at = if rng.random_range(0..4) == 0 { rng.random_range(0..steps.max(1)) } else { usize::MAX };
    for step in 0..steps {
        if sim.dead {
            break;
        }
        if step == junk_at {
            sim.exec(&json!({"op": "inject", "e": "A", "m": {"op": "junk"}}));
            continue;
        }
        let mut cands: Vec<(u32, Value)> = Vec::new();
        if sim.task_alive(0) {
            cands.push((8, json!({"op": "task", "e": "A", "gr": 1, "gs": 0})));
            cands.push((6, json!({"op": "task", "e": "A", "gr": 0, "gs": 1})));
            cands.push((4, json!({"op": "task", "e": "A", "gr": 1, "gs": 1})));
            cands.push((2, json!({"op": "task", "e": "A", "gr": 1, "gs": 1, "gf": 0})));
        }
        if sim.wire_len(0) > 0 {
            cands.push((6, json!({"op": "take", "e": "B"})));
        }
        // the raw peer: any opcode on a small id alphabet (0, ids A uses, ids A requested, unknown ids)
        let id = pick(rng, &seen_ids);
        let op = pick(rng, &["connect", "ack", "reset", "finish", "push", "push", "bind", "dgram", "ping", "pong"]);
        let m = match op {
            "connect" => json!({"op": "connect", "id": id, "n": rng.random_range(0..=3), "host": pick(rng, &["hx", ""]), "port": 9}),
            "ack" => json!({"op": "ack", "id": id, "n": rng.random_range(0..=3)}),
            "push" => json!({"op": "push", "id": id, "w": rng.random_range(1..=8), "off": rng.random_range(0..8), "len": rng.random_range(0..=3)}),
            "bind" => json!({"op": "bind", "id": id, "bt": pick(rng, &[1, 3]), "host": "bx", "port": 1}),
            "dgram" => json!({"op": "dgram", "id": id, "host": pick(rng, &["", "dx"]), "port": 5, "data": pick(rng, &["", "a", "abcd"])}),
            o => json!({"op": o, "id": id}),
        };
        cands.push((10, json!({"op": "inject", "e": "A", "m": m})));
        if sim.eps[0].mux.is_some() {
            if sim.eps[0].opens.len() + sim.eps[0].streams.len() < 4 {
                let nd = rng.random_range(1..=2);
                let draws: Vec<u32> = (0..nd).map(|_| rng.random_range(0..=3)).collect();
                cands.push((3, json!({"op": "open", "e": "A", "c": next_c, "host": "h0", "port": 7, "draws": draws})));
            }
            for c in sim.eps[0].opens.keys() {
                let draws: Vec<u32> = (0..rng.random_range(0..=2)).map(|_| rng.random_range(0..=3)).collect();
                cands.push((3, json!({"op": "open_poll", "e": "A", "c": c, "draws": draws})));
            }
            cands.push((3, json!({"op": "accept", "e": "A"})));
            cands.push((2, json!({"op": "dg_get", "e": "A"})));
            cands.push((1, json!({"op": "next_bind", "e": "A"})));
            // A's own bind requests: the raw peer may answer them with anything (any opcode on the id of a pending Bind)
            if sim.eps[0].binds.len() < 2 {
                let nd = rng.random_range(1..=2);
                let draws: Vec<u32> = (0..nd).map(|_| rng.random_range(0..=3)).collect();
                cands.push((2, json!({"op": "bind", "e": "A", "c": next_c, "bt": pick(rng, &[1, 3]), "host": pick(rng, &["b0", ""]), "port": pick(rng, &[0, 80]), "draws": draws})));
            }
            for c in sim.eps[0].binds.keys() {
                cands.push((2, json!({"op": "bind_poll", "e": "A", "c": c})));
            }
        }
        for r in sim.eps[0].breqs.keys() {
            cands.push((1, json!({"op": "bind_reply", "e": "A", "r": r, "accept": rng.random_bool(0.5)})));
        }
        for h in sim.eps[0].streams.keys() {
            cands.push((3, json!({"op": "write", "e": "A", "h": h, "len": pick(rng, &[1usize, 2, 0])})));
            cands.push((4, json!({"op": "read", "e": "A", "h": h, "max": pick(rng, &[1usize, 8])})));
            cands.push((1, json!({"op": "shutdown", "e": "A", "h": h})));
            cands.push((1, json!({"op": "drop", "e": "A", "h": h})));
        }
        let total: u32 = cands.iter().map(|c| c.0).sum();
        let mut x = rng.random_range(0..total);
        let mut chosen = cands[0].1.clone();
        for (w, c) in &cands {
            if x < *w {
                chosen = c.clone();
                break;
            }
            x -= w;
        }
        let n0 = sim.out.len();
        sim.exec(&chosen);
        if sim.out.len() > n0 {
            let ev = sim.out[sim.out.len() - 1].clone();
            if chosen["op"] == "open" || chosen["op"] == "bind" {
                next_c += 1;
            }
            if ev["ev"] == "take" {
                if let Some(id) = ev["m"]["id"].as_u64() {
                    if !seen_ids.contains(&(id as u32)) && seen_ids.len() < 10 {
                        seen_ids.push(id as u32);
                    }
                }
            }
            if chosen["op"] == "write" && ev["res"] == "pending" {
                let h = chosen["h"].as_u64().unwrap() as u32;
                if !intent.writes.iter().any(|w| w.1 == h) {
                    intent.writes.push((0, h, ev["len"].as_u64().unwrap() as usize));
                }
            }
        }
    }
    if !sim.dead {
        settle(&mut sim, &mut intent, false);
    }
    sim
}

fn random_trace(mode: &str, rng: &mut SmallRng, steps: usize) -> Sim {
    if mode == "adv" {
        return adversary_trace(rng, steps);
    }
    let cfgs = [random_cfg(rng, mode), random_cfg(rng, mode)];
    let mut sim = Sim::new(cfgs.clone(), 2);
    let mut intent = Intent::default();
    let mut next_c = 1u32;
    let closes = matches!(mode, "close" | "all" | "fault" | "open" | "bridge");
    let opens_both = matches!(mode, "open" | "close" | "all" | "bind" | "fault");
    let dgrams = matches!(mode, "dgram" | "all" | "fault");
    let binds = matches!(mode, "bind" | "all" | "fault");
    let faults = mode == "fault";
    let dropmux = matches!(mode, "fault" | "all");
    let bridges = mode == "bridge";
    // giving up a pending stream / bind request (a timeout, a select!)
    let cancels = matches!(mode, "open" | "bind" | "all" | "fault");
    let max_streams = if mode == "pair" || mode == "fair" { 2 } else { 4 };
    let mut fault_at = if faults { rng.random_range(0..steps.max(1)) } else { usize::MAX };
    let mut opened = [0usize; 2];
    let mut nfaults = 0usize;
    let mut last_fault_ep = 0usize;
    // keepalive mode: time advances; from a random point on endpoint B is "dead" (its task is not polled and its
    // application does nothing, while the transport stays healthy), so that A has to detect it
    let ka = mode == "ka";
    let freeze_at = if ka && rng.random_range(0..4) != 0 { rng.random_range(0..steps.max(1)) } else { usize::MAX };
    // application personalities: in a quarter of the traces one endpoint's application is slow to accept -- it does not
    // call accept before the last third of the steps -- so that streams are written to, finished and aborted by the peer
    // while they still wait in the accept queue; likewise a slow datagram reader
    let late_accept: Option<usize> = if !ka && mode != "fair" && rng.random_range(0..4) == 0 { Some(rng.random_range(0..2)) } else { None };
    let late_dg: Option<usize> = if dgrams && rng.random_range(0..4) == 0 { Some(rng.random_range(0..2)) } else { None };
    let late_from = steps - steps / 3;
    let mut total_writes = 0usize;
    let write_budget = if mode == "fair" { (cfgs[0].rwnd.max(cfgs[1].rwnd) as usize + 2) * 2 } else { usize::MAX };

    for step in 0..steps {
        if sim.dead {
            break;
        }
        if step == fault_at {
            // fault sequences: a second event (often on the same endpoint) may follow shortly
            fault_at = if nfaults == 0 && rng.random_range(0..2) == 0 { step + rng.random_range(1..=3) } else { usize::MAX };
            nfaults += 1;
            let i = if nfaults > 1 && rng.random_range(0..3) != 0 { last_fault_ep } else { rng.random_range(0..2) };
            last_fault_ep = i;
            let kind = pick(rng, &["cutsrc", "cutsrcs", "endsrc", "cutsink", "softcut", "dropmux", "close", "junk"]);
            match kind {
                "junk" => {
                    // a message that is not a frame arrives behind what is already in flight; what the peer sends later follows it
                    sim.exec(&json!({"op": "inject", "e": en(i), "m": {"op": "junk"}}));
                }
                "dropmux" => {
                    sim.exec(&json!({"op": "drop_mux", "e": en(i)}));
                }
                "close" => {
                    sim.exec(&json!({"op": "inject", "e": en(i), "m": {"op": "close"}}));
                }
                k => {
                    sim.exec(&json!({"op": "fault", "e": en(i), "kind": k}));
                }
            }
            // probe the window in which the connection is ending: let the task notice (it starts winding down and may
            // suspend there), then attempt the operations an application may have in flight on that endpoint
            if rng.random_range(0..2) == 0 {
                for _ in 0..rng.random_range(1..=2) {
                    sim.exec(&json!({"op": "task", "e": en(i), "gr": pick(rng, &[0, 1]), "gs": 1}));
                }
                let hs: Vec<u32> = sim.eps[i].streams.keys().copied().collect();
                for h in hs {
                    match rng.random_range(0..3) {
                        0 => { sim.exec(&json!({"op": "read", "e": en(i), "h": h, "max": 8})); }
                        1 => { sim.exec(&json!({"op": "write", "e": en(i), "h": h, "len": 1})); }
                        _ => {
                            sim.exec(&json!({"op": "read", "e": en(i), "h": h, "max": 8, "via": "buf"}));
                            sim.exec(&json!({"op": "write", "e": en(i), "h": h, "len": 1}));
                        }
                    }
                }
            }
            continue;
        }
        // candidate operations with weights
        let mut cands: Vec<(u32, Value)> = Vec::new();
        if ka {
            cands.push((5, json!({"op": "advance", "d": pick(rng, &[1u64, 1, 1, 2, 3])})));
        }
        for i in 0..2 {
            if i == 1 && step >= freeze_at {
                continue;
            }
            let e = en(i);
            if sim.task_alive(i) {
                cands.push((6, json!({"op": "task", "e": e, "gr": 1, "gs": 0})));
                cands.push((6, json!({"op": "task", "e": e, "gr": 0, "gs": 1})));
                cands.push((4, json!({"op": "task", "e": e, "gr": 1, "gs": 1})));
                cands.push((1, json!({"op": "task", "e": e, "gr": 0, "gs": 0})));
                // the sink takes its time to flush: the message handed over in this poll stays invisible to the peer
                cands.push((2, json!({"op": "task", "e": e, "gr": pick(rng, &[0, 1]), "gs": 1, "gf": 0})));
            }
            if sim.eps[i].mux.is_some() {
                if (i == 0 || opens_both) && opened[i] < max_streams {
                    // flow ids from a tiny alphabet so that collisions with live flows, with the
                    // peer's simultaneous choice and with 0 are ordinary events
                    let nd = rng.random_range(1..=3);
                    let draws: Vec<u32> = (0..nd).map(|_| rng.random_range(0..=3)).collect();
                    let host = pick(rng, &["h0", "h1", ""]);
                    cands.push((3, json!({"op": "open", "e": e, "c": next_c, "host": host, "port": pick(rng, &[0, 7, 65535]), "draws": draws})));
                }
                for c in sim.eps[i].opens.keys() {
                    let nd = rng.random_range(0..=2);
                    let draws: Vec<u32> = (0..nd).map(|_| rng.random_range(0..=3)).collect();
                    cands.push((3, json!({"op": "open_poll", "e": e, "c": c, "draws": draws})));
                }
                if late_accept != Some(i) || step >= late_from {
                    cands.push((3, json!({"op": "accept", "e": e})));
                }
                if cancels {
                    for c in sim.eps[i].opens.keys() {
                        if rng.random_range(0..8) == 0 {
                            cands.push((1, json!({"op": "cancel", "e": e, "c": c})));
                        }
                    }
                    for c in sim.eps[i].binds.keys() {
                        if rng.random_range(0..4) == 0 {
                            cands.push((1, json!({"op": "cancel", "e": e, "c": c})));
                        }
                    }
                }
                if dgrams {
                    let hostlen = pick(rng, &[0u32, 1, 2, 255, 256, 300, 65536, 65539]);
                    let datalen = pick(rng, &[0u32, 1, 2, 3, 4, 5, 100, 65535, 70000]);
                    cands.push((if mode == "dgram" { 4 } else { 2 }, json!({"op": "dg_send", "e": e, "id": pick(rng, &[0u32, 1, 7]), "hostlen": hostlen, "port": pick(rng, &[0, 53, 65535]), "datalen": datalen})));
                    if late_dg != Some(i) || step >= late_from {
                        cands.push((if mode == "dgram" { 1 } else { 2 }, json!({"op": "dg_get", "e": e})));
                    }
                }
                if binds {
                    if sim.eps[i].binds.len() < 2 {
                        let nd = rng.random_range(1..=2);
                        let draws: Vec<u32> = (0..nd).map(|_| rng.random_range(0..=3)).collect();
                        cands.push((2, json!({"op": "bind", "e": e, "c": next_c, "bt": pick(rng, &[1, 3]), "host": pick(rng, &["b0", "", "b1"]), "port": pick(rng, &[0, 80]), "draws": draws})));
                    }
                    for c in sim.eps[i].binds.keys() {
                        cands.push((2, json!({"op": "bind_poll", "e": e, "c": c})));
                    }
                    cands.push((2, json!({"op": "next_bind", "e": e})));
                }
                if dropmux && rng.random_range(0..40) == 0 {
                    cands.push((1, json!({"op": "drop_mux", "e": e})));
                }
            }
            if binds {
                for r in sim.eps[i].breqs.keys() {
                    cands.push((2, json!({"op": "bind_reply", "e": e, "r": r, "accept": rng.random_bool(0.5)})));
                    cands.push((1, json!({"op": "bind_drop", "e": e, "r": r})));
                }
            }
            if bridges {
                for b in sim.eps[i].bridges.iter().filter(|(_, v)| v.fut.is_some() && !v.done).map(|(k, _)| *k) {
                    cands.push((6, json!({"op": "bridge_poll", "e": e, "b": b, "env": random_env(rng)})));
                    if rng.random_range(0..30) == 0 {
                        cands.push((1, json!({"op": "bridge_drop", "e": e, "b": b})));
                    }
                }
                for b in sim.eps[i].bridges.iter().filter(|(_, v)| v.fut.is_some() && v.done).map(|(k, _)| *k) {
                    cands.push((2, json!({"op": "bridge_drop", "e": e, "b": b})));
                }
                for h in sim.eps[i].streams.keys() {
                    cands.push((2, json!({"op": "bridge_start", "e": e, "h": h})));
                }
            }
            for h in sim.eps[i].streams.keys() {
                if total_writes < write_budget {
                    let mut len = if std::env::var("SIM_NOZERO").is_ok() { pick(rng, &[1usize, 1, 2, 3, 5]) } else { pick(rng, &[1usize, 1, 2, 3, 5, 0]) };
                    // now and then one very large write (around and beyond 1 MiB): still one write, one frame, one unit of credit
                    if rng.random_range(0..40) == 0 {
                        len = pick(rng, &[1usize << 20, (1 << 20) + 1, (3 << 20) + 5]);
                    }
                    if rng.random_range(0..4) == 0 {
                        // vectored writes: 1..12 slices, some of them empty, splitting `len` (or a longer payload)
                        let total = if rng.random_range(0..3) == 0 { len + rng.random_range(0..=12usize) } else { len };
                        let parts = rng.random_range(1..=12usize);
                        let mut lens = vec![0usize; parts];
                        for _ in 0..total {
                            let k = rng.random_range(0..parts);
                            lens[k] += 1;
                        }
                        cands.push((4, json!({"op": "write", "e": e, "h": h, "lens": lens, "vectored": true})));
                    } else {
                        cands.push((4, json!({"op": "write", "e": e, "h": h, "len": len})));
                    }
                }
                match rng.random_range(0..4) {
                    0 => cands.push((4, json!({"op": "read", "e": e, "h": h, "max": pick(rng, &[1usize, 2, 8]), "pre": pick(rng, &[1usize, 2, 5])}))),
                    1 => cands.push((4, json!({"op": "read", "e": e, "h": h, "max": pick(rng, &[1usize, 2, 8]), "via": "buf"}))),
                    _ => cands.push((4, json!({"op": "read", "e": e, "h": h, "max": pick(rng, &[1usize, 2, 8, 8, 1 << 22])}))),
                }
                if closes {
                    cands.push((1, json!({"op": "shutdown", "e": e, "h": h})));
                    cands.push((1, json!({"op": "drop", "e": e, "h": h})));
                }
            }
        }
        if cands.is_empty() {
            break;
        }
        let total: u32 = cands.iter().map(|c| c.0).sum();
        let mut x = rng.random_range(0..total);
        let mut chosen = cands[0].1.clone();
        for (w, c) in &cands {
            if x < *w {
                chosen = c.clone();
                break;
            }
            x -= w;
        }
        let n0 = sim.out.len();
        sim.exec(&chosen);
        if sim.out.len() > n0 {
            let ev = sim.out[sim.out.len() - 1].clone();
            match chosen["op"].as_str().unwrap() {
                "open" | "bind" => {
                    next_c += 1;
                    if chosen["op"] == "open" {
                        opened[if chosen["e"] == "A" { 0 } else { 1 }] += 1;
                    }
                }
                "write" => {
                    total_writes += 1;
                    if ev["res"] == "pending" {
                        let i = if chosen["e"] == "A" { 0 } else { 1 };
                        let h = chosen["h"].as_u64().unwrap() as u32;
                        let len = ev["len"].as_u64().unwrap() as usize;
                        if !intent.writes.iter().any(|w| w.0 == i && w.1 == h) {
                            intent.writes.push((i, h, len));
                        }
                    }
                }
                "drop" => {
                    // a burst of drops: in a third of the cases the application lets go of ALL its streams on that endpoint at once
                    // (a struct that holds several of them goes out of scope), with no poll of the task in between -- the
                    // notifications reach the task as one batch, some of them for flows the peer has already closed
                    if rng.random_range(0..3) == 0 {
                        let i = if chosen["e"] == "A" { 0 } else { 1 };
                        let hs: Vec<u32> = sim.eps[i].streams.keys().copied().collect();
                        for h in hs {
                            sim.exec(&json!({"op": "drop", "e": en(i), "h": h}));
                        }
                    }
                }
                "drop_mux" => {
                    // the same probe as after a fault: streams outlive the Multiplexor; read / write them while the task winds down
                    if rng.random_range(0..2) == 0 {
                        let i = if chosen["e"] == "A" { 0 } else { 1 };
                        sim.exec(&json!({"op": "task", "e": en(i), "gr": pick(rng, &[0, 1]), "gs": 1}));
                        let hs: Vec<u32> = sim.eps[i].streams.keys().copied().collect();
                        for h in hs {
                            if rng.random_range(0..2) == 0 {
                                sim.exec(&json!({"op": "read", "e": en(i), "h": h, "max": 8}));
                            } else {
                                sim.exec(&json!({"op": "write", "e": en(i), "h": h, "len": 1}));
                            }
                        }
                    }
                }
                _ => {}
            }
        }
    }
    if ka && freeze_at != usize::MAX && !sim.dead {
        // the peer stays dead while time passes second by second and A's task is polled promptly: A must give up
        // exactly at the tick the specification says (or never, when its timeout is off)
        let horizon = cfgs[0].ka_t.max(cfgs[0].ka_i) + cfgs[0].ka_i + 2;
        for _ in 0..horizon {
            sim.exec(&json!({"op": "advance", "d": 1}));
            for _ in 0..2 {
                if sim.task_alive(0) {
                    sim.exec(&json!({"op": "task", "e": "A", "gr": 1, "gs": 1}));
                }
            }
        }
    }
    if !sim.dead {
        settle(&mut sim, &mut intent, false);
    }
    sim
}
