SPECIFICATION Spec
CONSTANTS
  AckMode = "shaped"
  ThrMode = "pinned"
  EmptyMode = "fixed"
  RstMode = "fixed"
  CfgSet <- LiveCfgsQ
  Extra = 2
  BothWays = FALSE
  Stalled = FALSE
  Dgrams = 0
INVARIANT NoViolation
PROPERTY Progress
