----------------------------- MODULE MC_TlsAuth -----------------------------
(***************************************************************************)
(* Case enumeration for property C17 (see TlsAuth.tla).                    *)
(*                                                                         *)
(* kind = "case":   a state is one cell of the matrix (72 initial states   *)
(*                  without successors); TLC prints one line               *)
(*                  <<"CASE", json>> with the cell, the set of outcomes    *)
(*                  the property allows and whether the server asks for a  *)
(*                  client certificate.                                    *)
(* kind = "script": the reload machine of TlsAuth.tla runs; `hist` is the  *)
(*                  sequence of operations so far, `obs` what each of them *)
(*                  must observe.  Every interleaving of at most MaxConn   *)
(*                  Connect, MaxReload Reload and MaxUse Use(c) is a       *)
(*                  state; the complete ones are printed as                *)
(*                  <<"SCRIPT", json>> (every shorter interleaving is a    *)
(*                  prefix of a complete one and is executed with it).     *)
(*                  `c` = [mtls |-> b]: the scripts run with (b) or        *)
(*                  without mutual TLS.                                    *)
(* On every state TLC checks Undisturbed and Fresh.                        *)
(***************************************************************************)
EXTENDS TlsAuth, TLC, Json

CONSTANTS MaxConn, MaxReload, MaxUse, Mtls

VARIABLES kind, c, hist, obs

vars == <<kind, c, hist, obs, identityVersion, live, conns>>

Count(op) == Cardinality({i \in DOMAIN hist : hist[i].op = op})

Init ==
  /\ MInit
  /\ hist = <<>> /\ obs = <<>>
  /\ \/ kind = "case" /\ c \in Cases
     \/ kind = "script" /\ c \in [mtls : Mtls]

DoConnect ==
  /\ Count("connect") < MaxConn
  /\ Connect
  /\ hist' = Append(hist, [op |-> "connect", conn |-> Len(conns) + 1])
  /\ obs' = Append(obs, live)

DoReload ==
  /\ Count("reload") < MaxReload
  /\ Reload
  /\ hist' = Append(hist, [op |-> "reload", conn |-> 0])
  /\ obs' = Append(obs, identityVersion + 1)

DoUse(x) ==
  /\ Count("use") < MaxUse
  /\ Use(x)
  /\ hist' = Append(hist, [op |-> "use", conn |-> x])
  /\ obs' = Append(obs, IF Works(x) THEN Sees(x) ELSE 0 - 1)

Next ==
  /\ kind = "script"
  /\ UNCHANGED <<kind, c>>
  /\ DoConnect \/ DoReload \/ \E x \in DOMAIN conns : DoUse(x)

Spec == Init /\ [][Next]_vars

Complete == Count("connect") = MaxConn /\ Count("reload") = MaxReload /\ Count("use") = MaxUse

TypeOK ==
  /\ MTypeOK
  /\ kind \in {"case", "script"}
  /\ kind = "case" => c \in Cases /\ hist = <<>> /\ Expected(c) \subseteq Outcomes
  /\ Len(obs) = Len(hist)

Emit ==
  CASE kind = "case" ->
         PrintT(<<"CASE", ToJson([case |-> c, exp |-> Expected(c), asks |-> ServerAsksForCert(c)])>>)
    [] kind = "script" /\ Complete ->
         PrintT(<<"SCRIPT", ToJson([mtls |-> c.mtls, ops |-> hist, exp |-> obs])>>)
    [] OTHER -> TRUE
=============================================================================
