SPECIFICATION TraceSpec
CONSTANTS
  MaxChunks = 0
  Sizes = {1}
  Segs <- SegsQuick
  Depth = 0
  Mode = "fixed"
  StopAtOOR = FALSE
  CowAlphabet = {}
  CowMaxLen = 0
CONSTRAINT Track
POSTCONDITION Accepted
CHECK_DEADLOCK FALSE
